//go:build verif

// Package verifschema answers schema.Client.GetSchema from literals generated
// by the real schema-server library (zz_verif_schema_gen.go). It exists only
// in the verification overlay.
package verifschema

import (
	"context"
	"errors"
	"strings"

	sdcpb "github.com/sdcio/sdc-protos/sdcpb"
	"google.golang.org/grpc"
)

// Client implements github.com/sdcio/data-server/pkg/schema.Client.
type Client struct {
	Calls  int
	FailAt int // 1-based index of the GetSchema call that fails once (0 = never)
}

var ErrInjected = errors.New("verif: injected schema-server failure")

func (c *Client) GetSchema(ctx context.Context, in *sdcpb.GetSchemaRequest, opts ...grpc.CallOption) (*sdcpb.GetSchemaResponse, error) {
	c.Calls++
	if c.FailAt != 0 && c.Calls == c.FailAt {
		return nil, ErrInjected
	}
	names := make([]string, 0, len(in.GetPath().GetElem()))
	for _, e := range in.GetPath().GetElem() {
		names = append(names, e.GetName())
	}
	key := strings.Join(names, "/")
	rsp := Lookup(key)
	if rsp == nil {
		return nil, errors.New("schema entry \"" + key + "\" not found")
	}
	return rsp, nil
}

func (c *Client) GetSchemaDetails(ctx context.Context, in *sdcpb.GetSchemaDetailsRequest, opts ...grpc.CallOption) (*sdcpb.GetSchemaDetailsResponse, error) {
	return nil, errors.New("unimplemented")
}
func (c *Client) ListSchema(ctx context.Context, in *sdcpb.ListSchemaRequest, opts ...grpc.CallOption) (*sdcpb.ListSchemaResponse, error) {
	return nil, errors.New("unimplemented")
}
func (c *Client) CreateSchema(ctx context.Context, in *sdcpb.CreateSchemaRequest, opts ...grpc.CallOption) (*sdcpb.CreateSchemaResponse, error) {
	return nil, errors.New("unimplemented")
}
func (c *Client) ReloadSchema(ctx context.Context, in *sdcpb.ReloadSchemaRequest, opts ...grpc.CallOption) (*sdcpb.ReloadSchemaResponse, error) {
	return nil, errors.New("unimplemented")
}
func (c *Client) DeleteSchema(ctx context.Context, in *sdcpb.DeleteSchemaRequest, opts ...grpc.CallOption) (*sdcpb.DeleteSchemaResponse, error) {
	return nil, errors.New("unimplemented")
}
func (c *Client) UploadSchema(ctx context.Context, opts ...grpc.CallOption) (sdcpb.SchemaServer_UploadSchemaClient, error) {
	return nil, errors.New("unimplemented")
}
func (c *Client) ToPath(ctx context.Context, in *sdcpb.ToPathRequest, opts ...grpc.CallOption) (*sdcpb.ToPathResponse, error) {
	return nil, errors.New("unimplemented")
}
func (c *Client) ExpandPath(ctx context.Context, in *sdcpb.ExpandPathRequest, opts ...grpc.CallOption) (*sdcpb.ExpandPathResponse, error) {
	return nil, errors.New("unimplemented")
}
func (c *Client) GetSchemaElements(ctx context.Context, req *sdcpb.GetSchemaRequest, opts ...grpc.CallOption) (chan *sdcpb.SchemaElem, error) {
	// every level of the path, as the schema server does
	ch := make(chan *sdcpb.SchemaElem, len(req.GetPath().GetElem())+1)
	names := []string{}
	for _, e := range req.GetPath().GetElem() {
		names = append(names, e.GetName())
		rsp := Lookup(strings.Join(names, "/"))
		if rsp == nil {
			close(ch)
			return nil, errors.New("schema entry not found")
		}
		ch <- rsp.GetSchema()
	}
	close(ch)
	return ch, nil
}
