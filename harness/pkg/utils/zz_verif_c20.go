//go:build verif

package utils

import (
	sdcpb "github.com/sdcio/sdc-protos/sdcpb"
	"google.golang.org/protobuf/types/known/anypb"

	"github.com/sdcio/data-server/pkg/verifrt"
)

// C20 - no request or device message crashes the server.
//
// None of the harnesses below asserts anything about the results: an uncaught
// panic (index out of range, nil dereference, failed type assertion, ...) or a
// hang on any path is reported by the engine as a violation with label
// "panic" / "deadlock".

// vc20Alphabet: every character class the xpath parser distinguishes plus two
// ordinary letters.
const vc20Alphabet = "[]/\\=: \"ab"

func vc20PathString(name string) string {
	return verifrt.String(name, verifrt.Param("pathLen", 3), vc20Alphabet)
}

// ---------------------------------------------------------------------------
// path.go on arbitrary request strings

// VerifNoPanic_ParsePath: ParsePath on an arbitrary string; when it accepts, the
// result is rendered again through every printer the server applies to request
// paths (ToXPath with and without keys, ToStrings in all four flag combinations).
func VerifNoPanic_ParsePath() {
	s := vc20PathString("s")
	p, err := ParsePath(s)
	verifrt.Reach("parsed")
	if err != nil {
		return
	}
	verifrt.Reach("accepted")
	_ = ToXPath(p, false)
	_ = ToXPath(p, true)
	_ = ToStrings(p, false, false)
	_ = ToStrings(p, true, false)
	_ = ToStrings(p, false, true)
	_ = ToStrings(p, true, true)
	_ = PathsEqual(p, p)
	_ = CopyPath(p)
}

// VerifNoPanic_StripPathElemPrefix: the string variant.
func VerifNoPanic_StripPathElemPrefix() {
	s := vc20PathString("s")
	_, _ = StripPathElemPrefix(s)
	verifrt.Reach("returned")
}

// VerifNoPanic_StripPathElemPrefixPath: the *sdcpb.Path variant, on the path
// ParsePath produced from an arbitrary string ...
func VerifNoPanic_StripPathElemPrefixPath() {
	s := vc20PathString("s")
	p, err := ParsePath(s)
	if err != nil {
		return
	}
	verifrt.Reach("accepted")
	StripPathElemPrefixPath(p)
	verifrt.Reach("returned")
}

// VerifNoPanic_StripPathElemPrefixPathProto: ... and on a protobuf-valid path
// that did not go through the parser (0-2 elements, 0-2 keys; a nil *Path and
// nil key maps are protobuf-valid, nil elements are not).
func VerifNoPanic_StripPathElemPrefixPathProto() {
	const alpha = ":/a"
	n := verifrt.Param("strLen", 2)
	var p *sdcpb.Path
	switch verifrt.Choice("shape", 5) {
	case 0:
		p = nil
	case 1:
		p = &sdcpb.Path{}
	case 2:
		p = &sdcpb.Path{Elem: []*sdcpb.PathElem{{Name: verifrt.String("n0", n, alpha)}}}
	case 3:
		p = &sdcpb.Path{Elem: []*sdcpb.PathElem{{Name: verifrt.String("n0", n, alpha),
			Key: map[string]string{verifrt.String("k0", n, alpha): verifrt.String("v0", n, alpha)}}}}
	case 4:
		k0, k1 := verifrt.String("k0", n, alpha), verifrt.String("k1", n, alpha)
		verifrt.Assume(k0 != k1)
		p = &sdcpb.Path{Elem: []*sdcpb.PathElem{
			{Name: "x"},
			{Name: "y", Key: map[string]string{
				k0: verifrt.String("v0", n, alpha),
				k1: "p:q/r:s"}}}}
	}
	verifrt.Reach("built")
	StripPathElemPrefixPath(p)
	_ = ToXPath(p, false)
	_ = ToStrings(p, true, false)
	verifrt.Reach("returned")
}

// VerifNoPanic_CompletePathFromString
func VerifNoPanic_CompletePathFromString() {
	s := vc20PathString("s")
	_, _ = CompletePathFromString(s)
	verifrt.Reach("returned")
}

// VerifNoPanic_CompletePath: one of prefix / path is parsed from an arbitrary
// string, the other is one of the protobuf-valid shapes that steer
// CompletePath's origin handling (absent, origin only, elements only, both).
func VerifNoPanic_CompletePath() {
	parsed, err := ParsePath(vc20PathString("s"))
	if err != nil {
		return
	}
	verifrt.Reach("accepted")
	var other *sdcpb.Path
	switch verifrt.Choice("other", 5) {
	case 1:
		other = &sdcpb.Path{}
	case 2:
		other = &sdcpb.Path{Origin: "o"}
	case 3:
		other = &sdcpb.Path{Elem: []*sdcpb.PathElem{{Name: "x"}, {}}}
	case 4:
		other = &sdcpb.Path{Origin: "o", Target: "t", Elem: []*sdcpb.PathElem{{Name: "x", Key: map[string]string{"k": "v", "j": "w"}}}}
	}
	if verifrt.Choice("parsedIsPrefix", 2) == 1 {
		_, _ = CompletePath(parsed, other)
	} else {
		_, _ = CompletePath(other, parsed)
	}
	verifrt.Reach("returned")
}

// VerifNoPanic_NormalizedAbsPath: arbitrary (possibly relative) path string
// against a current position of 0-2 elements; the result is printed as the
// callers (leafref / must resolution) do.
func VerifNoPanic_NormalizedAbsPath() {
	s := verifrt.String("s", verifrt.Param("pathLen", 3), "[]/\\=: .ab")
	var cur []*sdcpb.PathElem
	switch verifrt.Choice("cur", 3) {
	case 1:
		cur = []*sdcpb.PathElem{{Name: "x"}}
	case 2:
		cur = []*sdcpb.PathElem{{Name: "x"}, {Name: "y", Key: map[string]string{"k": "v"}}}
	}
	p, err := NormalizedAbsPath(s, cur)
	verifrt.Reach("returned")
	if err == nil {
		_ = ToXPath(p, false)
		_ = ToStrings(p, false, false)
	}
}

// ---------------------------------------------------------------------------
// converters

var vc20TypeNames = []string{
	"string", "uint8", "uint16", "uint32", "uint64", "int8", "int16", "int32", "int64",
	"boolean", "decimal64", "identityref", "leafref", "union", "enumeration", "empty",
	"bits", "binary", "instance-identifier", "",
}

// vc20LeafType builds the schema leaf type with the given type name the way
// the schema server fills it: identityref with its identity maps, leafref with
// a resolved target type, union with member types, enumeration with names.
// nested selects the member / target type for union and leafref.
func vc20LeafType(name string, nested string) *sdcpb.SchemaLeafType {
	t := &sdcpb.SchemaLeafType{Type: name}
	switch name {
	case "identityref":
		t.IdentityPrefixesMap = map[string]string{"a": "p"}
		t.ModulePrefixMap = map[string]string{"a": "m"}
	case "leafref":
		t.LeafrefTargetType = vc20LeafType(nested, "string")
	case "union":
		t.UnionTypes = []*sdcpb.SchemaLeafType{vc20LeafType(nested, "string"), vc20LeafType("boolean", "")}
	case "enumeration":
		t.EnumNames = []string{"a", "b"}
	}
	return t
}

// vc20PickType forks over every leaf type name; for union and leafref it also
// forks over the member / target type (non-recursive ones).
func vc20PickType() *sdcpb.SchemaLeafType {
	name := vc20TypeNames[verifrt.Choice("type", len(vc20TypeNames))]
	nested := "string"
	if name == "union" || name == "leafref" {
		inner := []string{"string", "uint8", "int64", "decimal64", "identityref", "enumeration", "empty", "boolean"}
		nested = inner[verifrt.Choice("nested", len(inner))]
	}
	return vc20LeafType(name, nested)
}

// vc20ValueString: characters that matter to the numeric / boolean / decimal /
// identityref parsers plus a letter.
func vc20ValueString(name string) string {
	return verifrt.String(name, verifrt.Param("valLen", 3), "0159-+. :atrue")
}

// VerifNoPanic_convertStringToTv: every leaf type x arbitrary short string.
func VerifNoPanic_convertStringToTv() {
	lt := vc20PickType()
	v := vc20ValueString("v")
	_, _ = convertStringToTv(lt, v, 0)
	verifrt.Reach("returned")
}

// VerifNoPanic_Convert: utils.Convert, every leaf type x arbitrary short string.
// Numeric types additionally with and without a schema range, strings with and
// without a length restriction.
func VerifNoPanic_Convert() {
	lt := vc20PickType()
	switch verifrt.Choice("restrict", 3) {
	case 1:
		mm := []*sdcpb.SchemaMinMaxType{{Min: &sdcpb.Number{Value: 1}, Max: &sdcpb.Number{Value: 5}}}
		lt.Range = mm
		lt.Length = mm
	case 2:
		mm := []*sdcpb.SchemaMinMaxType{{Min: &sdcpb.Number{Value: 3, Negative: true}, Max: &sdcpb.Number{Value: 1 << 63}}}
		lt.Range = mm
	}
	v := vc20ValueString("v")
	_, _ = Convert(v, lt)
	verifrt.Reach("returned")
}

// vc20Json forks over every kind encoding/json decodes into.
func vc20Json(tag string, depth int) any {
	switch verifrt.Choice(tag+"kind", 6) {
	case 0:
		return nil
	case 1:
		return verifrt.Bool(tag + "b")
	case 2:
		// float64: the values that matter to the integer conversions
		return []float64{0, 1, -1, 1.5, 255, 256, 1e19, -1e19, 9.3e18}[verifrt.Choice(tag+"f", 9)]
	case 3:
		return vc20ValueString(tag + "s")
	case 4:
		if depth == 0 {
			return []any{}
		}
		return []any{vc20Json(tag+"e", depth-1)}
	default:
		if depth == 0 {
			return map[string]any{}
		}
		return map[string]any{"a": vc20Json(tag+"m", depth-1)}
	}
}

// VerifNoPanic_ConvertJsonValueToTv: every leaf type x every decoded-JSON kind.
func VerifNoPanic_ConvertJsonValueToTv() {
	lt := vc20PickType()
	d := vc20Json("j", 1)
	_, _ = ConvertJsonValueToTv(d, lt)
	verifrt.Reach("returned")
}

// vc20TypedValue forks over every TypedValue kind a client or a device can
// send. Only shapes the protobuf decoder can produce: a oneof member that is a
// message is never nil when set (an empty payload decodes to an empty message),
// repeated message elements are never nil; the oneof itself may be unset and
// the whole value may be absent (Update without value -> GetValue() == nil).
func vc20TypedValue() *sdcpb.TypedValue {
	switch verifrt.Choice("tvkind", 18) {
	case 0:
		return &sdcpb.TypedValue{Value: &sdcpb.TypedValue_StringVal{StringVal: vc20ValueString("tvs")}}
	case 1:
		return &sdcpb.TypedValue{Value: &sdcpb.TypedValue_AsciiVal{AsciiVal: vc20ValueString("tva")}}
	case 2:
		return &sdcpb.TypedValue{Value: &sdcpb.TypedValue_IntVal{IntVal: verifrt.Int64("tvi")}}
	case 3:
		return &sdcpb.TypedValue{Value: &sdcpb.TypedValue_UintVal{UintVal: verifrt.Uint64("tvu")}}
	case 4:
		return &sdcpb.TypedValue{Value: &sdcpb.TypedValue_BoolVal{BoolVal: verifrt.Bool("tvb")}}
	case 5:
		return &sdcpb.TypedValue{Value: &sdcpb.TypedValue_DecimalVal{DecimalVal: &sdcpb.Decimal64{
			Digits: verifrt.Int64("tvd"), Precision: uint32(verifrt.IntRange("tvp", 0, 20))}}}
	case 6:
		return &sdcpb.TypedValue{Value: &sdcpb.TypedValue_DecimalVal{DecimalVal: &sdcpb.Decimal64{}}}
	case 7:
		return &sdcpb.TypedValue{Value: &sdcpb.TypedValue_BytesVal{BytesVal: []byte("1")}}
	case 8:
		return &sdcpb.TypedValue{Value: &sdcpb.TypedValue_JsonVal{JsonVal: []byte(`{"a":1}`)}}
	case 9:
		return &sdcpb.TypedValue{Value: &sdcpb.TypedValue_JsonIetfVal{JsonIetfVal: []byte(`"x"`)}}
	case 10:
		return &sdcpb.TypedValue{Value: &sdcpb.TypedValue_LeaflistVal{LeaflistVal: &sdcpb.ScalarArray{Element: []*sdcpb.TypedValue{
			{Value: &sdcpb.TypedValue_StringVal{StringVal: vc20ValueString("tvl")}}, {}}}}}
	case 11:
		return &sdcpb.TypedValue{Value: &sdcpb.TypedValue_LeaflistVal{LeaflistVal: &sdcpb.ScalarArray{}}}
	case 12:
		return &sdcpb.TypedValue{Value: &sdcpb.TypedValue_EmptyVal{}}
	case 13:
		return &sdcpb.TypedValue{Value: &sdcpb.TypedValue_IdentityrefVal{IdentityrefVal: &sdcpb.IdentityRef{}}}
	case 14:
		return &sdcpb.TypedValue{Value: &sdcpb.TypedValue_AnyVal{AnyVal: &anypb.Any{}}}
	case 15:
		return &sdcpb.TypedValue{}
	case 16:
		return nil
	default:
		return &sdcpb.TypedValue{Value: &sdcpb.TypedValue_ProtoBytes{ProtoBytes: []byte{}}}
	}
}

// vc20SchemaElem forks over the schema element kinds the converters are called
// with: field and leaf-list of every leaf type, presence / non-presence
// container.
func vc20SchemaElem() *sdcpb.SchemaElem {
	switch verifrt.Choice("elem", 4) {
	case 0:
		return &sdcpb.SchemaElem{Schema: &sdcpb.SchemaElem_Field{Field: &sdcpb.LeafSchema{Name: "f", Type: vc20PickType()}}}
	case 1:
		return &sdcpb.SchemaElem{Schema: &sdcpb.SchemaElem_Leaflist{Leaflist: &sdcpb.LeafListSchema{Name: "ll", Type: vc20PickType()}}}
	case 2:
		return &sdcpb.SchemaElem{Schema: &sdcpb.SchemaElem_Container{Container: &sdcpb.ContainerSchema{Name: "c", IsPresence: true}}}
	default:
		return &sdcpb.SchemaElem{Schema: &sdcpb.SchemaElem_Container{Container: &sdcpb.ContainerSchema{Name: "c"}}}
	}
}

// VerifNoPanic_ConvertTypedValueToYANGType: every schema element kind x every
// typed value kind.
func VerifNoPanic_ConvertTypedValueToYANGType() {
	se := vc20SchemaElem()
	tv := vc20TypedValue()
	_, _ = ConvertTypedValueToYANGType(se, tv)
	verifrt.Reach("returned")
}

// VerifNoPanic_TypedValueToYANGType: same for the device-side entry point.
func VerifNoPanic_TypedValueToYANGType() {
	se := vc20SchemaElem()
	tv := vc20TypedValue()
	_, _ = TypedValueToYANGType(tv, se)
	verifrt.Reach("returned")
}
