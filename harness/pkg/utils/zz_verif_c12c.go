//go:build verif

package utils

// C12, leaf-lists "of each" type: the out-forms of a leaf-list render every entry exactly as
// the same value is rendered when it is the value of a plain leaf (whose out-forms the
// per-type harnesses check). Entry kinds: string, int, uint, bool, decimal64, ascii,
// identityref.

import (
	"github.com/beevik/etree"
	"github.com/sdcio/data-server/pkg/verifrt"
	sdcpb "github.com/sdcio/sdc-protos/sdcpb"
)

// v12cSameJSON: two values GetJsonValue produced for scalar entries denote the same JSON
// value (and have the same Go type). Kinds that are not scalars compare unequal.
func v12cSameJSON(a, b any) bool {
	switch x := a.(type) {
	case string:
		y, ok := b.(string)
		return ok && x == y
	case int64:
		y, ok := b.(int64)
		return ok && x == y
	case uint64:
		y, ok := b.(uint64)
		return ok && x == y
	case bool:
		y, ok := b.(bool)
		return ok && x == y
	case float64:
		y, ok := b.(float64)
		return ok && x == y
	}
	return false
}

// v12cEntry: an entry of kind k from a small domain (the per-type harnesses cover the value
// ranges; this law is about the structure): negative and positive numbers of one or two digits,
// decimals with and without fraction digits between -1.99 and 1.99.
func v12cEntry(k int, tag string) *sdcpb.TypedValue {
	switch k {
	case 1:
		return vInt(verifrt.IntRange(tag+"i", -99, 99))
	case 2:
		return vUint(uint64(verifrt.IntRange(tag+"u", 0, 99)))
	case 4:
		return vDec(verifrt.IntRange(tag+"d", -199, 199), uint32(2*verifrt.Choice(tag+"p", 2)))
	}
	return vKind(k, tag)
}

var v12cKindNames = []string{"string", "int", "uint", "bool", "decimal64", "ascii", "identityref"}

// VerifC12LeafListElementwise: see the file comment.
func VerifC12LeafListElementwise() {
	k := verifrt.Choice("kind", len(v12cKindNames))
	n := 1 + verifrt.Choice("entries", verifrt.Param("maxEntries", 2))
	var el []*sdcpb.TypedValue
	for i := 0; i < n; i++ {
		el = append(el, v12cEntry(k, "e"+string(rune('0'+i))))
	}
	ll := vLL(el...)
	pfx := "C12-leaflist-of-" + v12cKindNames[k] + "/"
	verifrt.Reach("built")
	for _, ietf := range []bool{false, true} {
		form := "json"
		if ietf {
			form = "json-ietf"
		}
		j, err := GetJsonValue(ll, ietf)
		verifrt.Assert(err == nil, pfx+form+"/rendered")
		if err != nil {
			continue
		}
		arr, ok := j.([]any)
		verifrt.Assert(ok && len(arr) == n, pfx+form+"/is-an-array-of-the-entries")
		if !ok || len(arr) != n {
			continue
		}
		for i, e := range el {
			want, werr := GetJsonValue(e, ietf)
			if werr != nil {
				continue
			}
			verifrt.Assert(v12cSameJSON(arr[i], want), pfx+form+"/entry-rendered-as-the-plain-leaf-value")
		}
	}
	// XML: one element per entry, text as for the plain leaf
	parent := etree.NewElement("p")
	TypedValueToXML(parent, ll, "leaf", "", false, false, false)
	ch := parent.ChildElements()
	verifrt.Assert(len(ch) == n, pfx+"xml/one-element-per-entry")
	if len(ch) == n {
		for i, e := range el {
			want, ok := v12XMLText(e)
			if ok {
				verifrt.Assert(ch[i].Text() == want, pfx+"xml/entry-rendered-as-the-plain-leaf-value")
			}
		}
	}
	// gNMI
	g := ToGNMITypedValue(ll)
	verifrt.Assert(g != nil && g.GetLeaflistVal() != nil && len(g.GetLeaflistVal().GetElement()) == n, pfx+"gnmi/one-element-per-entry")
	if g != nil && g.GetLeaflistVal() != nil && len(g.GetLeaflistVal().GetElement()) == n {
		for i, e := range el {
			want := ToGNMITypedValue(e)
			got := g.GetLeaflistVal().GetElement()[i]
			if want != nil {
				verifrt.Assert(got != nil && got.String() == want.String(), pfx+"gnmi/entry-rendered-as-the-plain-leaf-value")
			}
		}
	}
	// text form: the entries' texts, in order
	s := TypedValueToString(ll)
	_ = s
	verifrt.Reach("checked")
}
