//go:build verif

package utils

// C12 "values survive every conversion unchanged", second part: the leaf types
// and the forms zz_verif_c12.go does not reach. Every kernel has the shape
// "datum -> one out-form -> one in-form -> assert the same typed kind and the
// same payload". The in-forms are the converters the server applies to what
// clients and devices send:
//
//   typed value of a request      ConvertTypedValueToYANGType   (Datastore.validateUpdate, GetData PROTO)
//   typed value of a device       TypedValueToYANGType          (ConvertNotificationTypedValues, deviations)
//   StringVal of a request        ConvertTypedValueToYANGType
//   StringVal / member of a JSON  TypedValueToYANGType -> convertStringToTv  (ExpandContainerValue)
//   XML text of a NETCONF device  Convert                       (netconf.StringElementToTypedValue, xml importer)
//   decoded JSON value            ConvertJsonValueToTv          (json importer)
//   gNMI typed value              FromGNMITypedValue + TypedValueToYANGType
//
// and the out-forms: TypedValueToString, TypedValueToXML, GetJsonValue
// (JSON / JSON_IETF), ToGNMITypedValue.

import (
	"context"
	"encoding/json"
	"errors"

	"github.com/beevik/etree"
	"github.com/openconfig/gnmi/proto/gnmi"
	sdcpb "github.com/sdcio/sdc-protos/sdcpb"

	"github.com/sdcio/data-server/pkg/verifrt"
)

func v12Field(lt *sdcpb.SchemaLeafType) *sdcpb.SchemaElem {
	return &sdcpb.SchemaElem{Schema: &sdcpb.SchemaElem_Field{Field: &sdcpb.LeafSchema{Name: "leaf", Type: lt}}}
}

func v12LeafListSchema(lt *sdcpb.SchemaLeafType) *sdcpb.SchemaElem {
	return &sdcpb.SchemaElem{Schema: &sdcpb.SchemaElem_Leaflist{Leaflist: &sdcpb.LeafListSchema{Name: "leaf", Type: lt}}}
}

func vEmpty() *sdcpb.TypedValue { return &sdcpb.TypedValue{Value: &sdcpb.TypedValue_EmptyVal{}} }

func vIdRef(value, prefix, module string) *sdcpb.TypedValue {
	return &sdcpb.TypedValue{Value: &sdcpb.TypedValue_IdentityrefVal{IdentityrefVal: &sdcpb.IdentityRef{Value: value, Prefix: prefix, Module: module}}}
}

func vLL(el ...*sdcpb.TypedValue) *sdcpb.TypedValue {
	return &sdcpb.TypedValue{Value: &sdcpb.TypedValue_LeaflistVal{LeaflistVal: &sdcpb.ScalarArray{Element: el}}}
}

// v12Same: got has the typed kind of want and the same payload. Kinds are
// concrete (no fork); payloads may be symbolic.
func v12Same(got, want *sdcpb.TypedValue) bool {
	if got == nil || want == nil {
		return false
	}
	switch w := want.GetValue().(type) {
	case *sdcpb.TypedValue_StringVal:
		g, ok := got.GetValue().(*sdcpb.TypedValue_StringVal)
		return ok && g.StringVal == w.StringVal
	case *sdcpb.TypedValue_IntVal:
		g, ok := got.GetValue().(*sdcpb.TypedValue_IntVal)
		return ok && g.IntVal == w.IntVal
	case *sdcpb.TypedValue_UintVal:
		g, ok := got.GetValue().(*sdcpb.TypedValue_UintVal)
		return ok && g.UintVal == w.UintVal
	case *sdcpb.TypedValue_BoolVal:
		g, ok := got.GetValue().(*sdcpb.TypedValue_BoolVal)
		return ok && g.BoolVal == w.BoolVal
	case *sdcpb.TypedValue_DecimalVal:
		g, ok := got.GetValue().(*sdcpb.TypedValue_DecimalVal)
		if !ok || g.DecimalVal == nil || w.DecimalVal == nil {
			return false
		}
		return verifrt.And(g.DecimalVal.Digits == w.DecimalVal.Digits, g.DecimalVal.Precision == w.DecimalVal.Precision)
	case *sdcpb.TypedValue_IdentityrefVal:
		g, ok := got.GetValue().(*sdcpb.TypedValue_IdentityrefVal)
		if !ok || g.IdentityrefVal == nil || w.IdentityrefVal == nil {
			return false
		}
		return verifrt.And(g.IdentityrefVal.Value == w.IdentityrefVal.Value,
			verifrt.And(g.IdentityrefVal.Prefix == w.IdentityrefVal.Prefix, g.IdentityrefVal.Module == w.IdentityrefVal.Module))
	case *sdcpb.TypedValue_EmptyVal:
		_, ok := got.GetValue().(*sdcpb.TypedValue_EmptyVal)
		return ok
	case *sdcpb.TypedValue_LeaflistVal:
		g, ok := got.GetValue().(*sdcpb.TypedValue_LeaflistVal)
		if !ok || g.LeaflistVal == nil || w.LeaflistVal == nil || len(g.LeaflistVal.Element) != len(w.LeaflistVal.Element) {
			return false
		}
		r := true
		for i := range w.LeaflistVal.Element {
			r = verifrt.And(r, v12Same(g.LeaflistVal.Element[i], w.LeaflistVal.Element[i]))
		}
		return r
	}
	return false
}

// ---- routes: one out-form, one in-form

const (
	v12RTypedCTV   = iota // typed value through ConvertTypedValueToYANGType (request)
	v12RTypedTVY          // typed value through TypedValueToYANGType (device)
	v12RStrCSTV           // TypedValueToString -> convertStringToTv
	v12RStrConvert        // TypedValueToString -> Convert
	v12RStrCTV            // TypedValueToString -> StringVal -> ConvertTypedValueToYANGType (request)
	v12RStrTVY            // TypedValueToString -> StringVal -> TypedValueToYANGType (JSON member, device)
	v12RStrJson           // TypedValueToString -> ConvertJsonValueToTv (JSON string member)
	v12RJson              // GetJsonValue(JSON) -> ConvertJsonValueToTv
	v12RJsonIetf          // GetJsonValue(JSON_IETF) -> ConvertJsonValueToTv
	v12RXml               // TypedValueToXML -> element text -> Convert
	v12RGnmi              // ToGNMITypedValue -> FromGNMITypedValue -> TypedValueToYANGType
	v12NRoutes
)

var v12RouteNames = [v12NRoutes]string{
	"typed-ConvertTypedValueToYANGType",
	"typed-TypedValueToYANGType",
	"string-convertStringToTv",
	"string-Convert",
	"string-ConvertTypedValueToYANGType",
	"string-TypedValueToYANGType",
	"string-ConvertJsonValueToTv",
	"json-ConvertJsonValueToTv",
	"jsonietf-ConvertJsonValueToTv",
	"xmltext-Convert",
	"gnmi-FromGNMITypedValue",
}

var errV12Lost = errors.New("verif: out-form lost the value")

// v12XMLText renders tv as the single element TypedValueToXML makes of it and
// returns its text.
func v12XMLText(tv *sdcpb.TypedValue) (string, bool) {
	parent := etree.NewElement("p")
	TypedValueToXML(parent, tv, "leaf", "", false, false, false)
	ch := parent.ChildElements()
	if len(ch) != 1 {
		return "", false
	}
	return ch[0].Text(), true
}

// v12Route sends the datum through route r for a leaf of type lt.
func v12Route(r int, lt *sdcpb.SchemaLeafType, want *sdcpb.TypedValue) (*sdcpb.TypedValue, error) {
	se := v12Field(lt)
	switch r {
	case v12RTypedCTV:
		return ConvertTypedValueToYANGType(se, want)
	case v12RTypedTVY:
		return TypedValueToYANGType(want, se)
	case v12RStrCSTV:
		return convertStringToTv(lt, TypedValueToString(want), 0)
	case v12RStrConvert:
		return Convert(TypedValueToString(want), lt)
	case v12RStrCTV:
		return ConvertTypedValueToYANGType(se, vStr(TypedValueToString(want)))
	case v12RStrTVY:
		return TypedValueToYANGType(vStr(TypedValueToString(want)), se)
	case v12RStrJson:
		return ConvertJsonValueToTv(TypedValueToString(want), lt)
	case v12RJson, v12RJsonIetf:
		j, err := GetJsonValue(want, r == v12RJsonIetf)
		if err != nil {
			return nil, err
		}
		return ConvertJsonValueToTv(j, lt)
	case v12RXml:
		txt, ok := v12XMLText(want)
		if !ok {
			return nil, errV12Lost
		}
		return Convert(txt, lt)
	case v12RGnmi:
		g := ToGNMITypedValue(want)
		if g == nil {
			return nil, errV12Lost
		}
		back := FromGNMITypedValue(g)
		if back == nil {
			return nil, errV12Lost
		}
		return TypedValueToYANGType(back, se)
	}
	return nil, nil
}

// v12CheckRoutes picks one of routes and asserts the datum arrives unchanged.
// The label names the leaf type and the route, so that a defect of one
// converter for one type is one finding.
func v12CheckRoutes(typ string, lt *sdcpb.SchemaLeafType, want *sdcpb.TypedValue, routes []int) {
	r := routes[verifrt.Choice("route", len(routes))]
	got, err := v12Route(r, lt, want)
	verifrt.Reach("converted")
	pfx := "C12-" + typ + "/" + v12RouteNames[r] + "/"
	if err == errV12Lost {
		verifrt.Assert(false, pfx+"out-form-carries-the-value")
		return
	}
	verifrt.Assert(err == nil, pfx+"valid-value-accepted")
	if err != nil {
		return
	}
	verifrt.Assert(got != nil && got.GetValue() != nil, pfx+"result-is-a-value")
	if got == nil || got.GetValue() == nil {
		return
	}
	verifrt.Assert(v12Same(got, want), pfx+"same-kind-and-datum")
}

// v12AllRoutes: every route once per converter (string-convertStringToTv is what
// string-TypedValueToYANGType runs; string-Convert is xmltext-Convert for every
// type whose XML text is its string form, and is exercised with the other
// spellings in VerifC12Identityref).
var v12AllRoutes = []int{v12RTypedCTV, v12RTypedTVY, v12RStrCTV, v12RStrTVY, v12RStrJson, v12RJson, v12RJsonIetf, v12RXml, v12RGnmi}

// ---- boolean

// VerifC12Boolean: both booleans through every route. The lexical form is
// "true" / "false" (RFC 7950 9.5.1).
func VerifC12Boolean() {
	b := verifrt.Choice("b", 2) == 1
	lt := &sdcpb.SchemaLeafType{Type: "boolean", TypeName: "boolean"}
	want := vBool(b)
	txt := "false"
	if b {
		txt = "true"
	}
	verifrt.Assert(TypedValueToString(want) == txt, "C12-boolean/string-is-lexical-form")
	x, ok := v12XMLText(want)
	verifrt.Assert(ok && x == txt, "C12-boolean/xml-text-is-lexical-form")
	j, err := GetJsonValue(want, true)
	jb, isBool := j.(bool)
	verifrt.Assert(err == nil && isBool && jb == b, "C12-boolean/json-is-a-json-boolean")
	v12CheckRoutes("boolean", lt, want, v12AllRoutes)
}

// ---- enumeration

// VerifC12Enumeration: every enum name of the type survives as that name.
func VerifC12Enumeration() {
	names := []string{"disable", "enable", "up-2"}
	lt := &sdcpb.SchemaLeafType{Type: "enumeration", TypeName: "admin-state", EnumNames: names}
	name := names[verifrt.Choice("name", len(names))]
	want := vStr(name)
	verifrt.Assert(TypedValueToString(want) == name, "C12-enumeration/string-is-the-name")
	x, ok := v12XMLText(want)
	verifrt.Assert(ok && x == name, "C12-enumeration/xml-text-is-the-name")
	j, err := GetJsonValue(want, true)
	js, isStr := j.(string)
	verifrt.Assert(err == nil && isStr && js == name, "C12-enumeration/json-is-the-name")
	v12CheckRoutes("enumeration", lt, want, v12AllRoutes)
}

// ---- identityref

// identities of two modules; module name and prefix differ (as in
// tests/schema/sdcio_model_identity*.yang), so that a converter that confuses
// the two is seen.
func v12IdentityType() *sdcpb.SchemaLeafType {
	return &sdcpb.SchemaLeafType{Type: "identityref", TypeName: "identityref",
		IdentityPrefixesMap: map[string]string{"des": "idt", "rsa": "idt", "otherAlgo": "ido"},
		ModulePrefixMap:     map[string]string{"des": "mod-types", "rsa": "mod-types", "otherAlgo": "mod-other"},
	}
}

// VerifC12Identityref: the datum of an identityref is the identity (module,
// name). It is written `name`, `<prefix>:name` (XML, YANG) or `<module>:name`
// (JSON_IETF, RFC 7951 6.8); all three, where accepted, must give the same
// typed value, every out-form must lead back to it, and JSON_IETF must spell it
// with the module name.
func VerifC12Identityref() {
	lt := v12IdentityType()
	names := []string{"des", "rsa", "otherAlgo"}
	name := names[verifrt.Choice("name", len(names))]
	want := vIdRef(name, lt.IdentityPrefixesMap[name], lt.ModulePrefixMap[name])

	switch verifrt.Choice("part", 3) {
	case 0:
		// the out-forms
		verifrt.Reach("converted")
		j, err := GetJsonValue(want, true)
		js, _ := j.(string)
		verifrt.Assert(err == nil && js == lt.ModulePrefixMap[name]+":"+name, "C12-identityref/jsonietf-is-module-qualified")
		j, err = GetJsonValue(want, false)
		js, _ = j.(string)
		verifrt.Assert(err == nil && js == name, "C12-identityref/json-is-the-name")
		x, ok := v12XMLText(want)
		verifrt.Assert(ok && x == lt.IdentityPrefixesMap[name]+":"+name, "C12-identityref/xml-text-is-prefix-qualified")
		verifrt.Assert(TypedValueToString(want) == name, "C12-identityref/string-is-the-name")
	case 1:
		v12CheckRoutes("identityref", lt, want, v12AllRoutes)
	default:
		// the three spellings through every converter that takes text
		spell := []string{name, lt.IdentityPrefixesMap[name] + ":" + name, lt.ModulePrefixMap[name] + ":" + name}
		spellName := []string{"bare", "prefix-qualified", "module-qualified"}
		si := verifrt.Choice("spelling", 3)
		s := spell[si]
		se := v12Field(lt)
		convs := []string{"Convert", "ConvertJsonValueToTv", "TypedValueToYANGType", "ConvertTypedValueToYANGType"}
		ci := verifrt.Choice("conv", len(convs))
		var got *sdcpb.TypedValue
		var err error
		switch ci {
		case 0:
			got, err = Convert(s, lt)
		case 1:
			got, err = ConvertJsonValueToTv(s, lt)
		case 2:
			got, err = TypedValueToYANGType(vStr(s), se)
		default:
			got, err = ConvertTypedValueToYANGType(se, vStr(s))
		}
		verifrt.Reach("converted")
		pfx := "C12-identityref/" + spellName[si] + "-" + convs[ci] + "/"
		if ci == 3 {
			// one situation whatever the spelling: the label of the string route
			pfx = "C12-identityref/" + v12RouteNames[v12RStrCTV] + "/"
		}
		verifrt.Assert(err == nil, pfx+"valid-value-accepted")
		if err == nil {
			verifrt.Assert(v12Same(got, want), pfx+"same-kind-and-datum")
			// whatever was accepted with and without qualifier compares equal and renders identically
			bare, berr := convertStringToTv(lt, name, 0)
			if berr == nil && got != nil && got.GetIdentityrefVal() != nil {
				verifrt.Assert(EqualTypedValues(got, bare), pfx+"qualified-and-bare-compare-equal")
				gj, _ := GetJsonValue(got, true)
				bj, _ := GetJsonValue(bare, true)
				verifrt.Assert(gj == bj, pfx+"qualified-and-bare-render-identically")
			}
		}
	}
}

// ---- empty

// VerifC12Empty: type empty has one value and no lexical form (RFC 7950
// 9.11). Typed, JSON ({} as this code base writes it, [null] as RFC 7951
// writes it), XML (an element without text) and gNMI must give EmptyVal.
// (Not asserted, because a StringVal is no valid input form for the type:
// TypedValueToYANGType(StringVal, empty leaf) returns (nil, nil) and
// ConvertTypedValueToYANGType returns the StringVal unchanged.)
func VerifC12Empty() {
	lt := &sdcpb.SchemaLeafType{Type: "empty", TypeName: "empty"}
	want := vEmpty()
	switch verifrt.Choice("part", 2) {
	case 0:
		v12CheckRoutes("empty", lt, want, []int{v12RTypedCTV, v12RTypedTVY, v12RJson, v12RJsonIetf, v12RXml, v12RGnmi})
	default:
		verifrt.Reach("converted")
		got, err := ConvertJsonValueToTv([]any{nil}, lt)
		verifrt.Assert(err == nil && v12Same(got, want), "C12-empty/json-null-array-is-empty")
		x, ok := v12XMLText(want)
		verifrt.Assert(ok && x == "", "C12-empty/xml-element-has-no-text")
	}
}

// ---- union

func v12UnionType() *sdcpb.SchemaLeafType {
	return &sdcpb.SchemaLeafType{Type: "union", TypeName: "u8-or-string", UnionTypes: []*sdcpb.SchemaLeafType{
		{Type: "uint8", TypeName: "uint8", Range: []*sdcpb.SchemaMinMaxType{{Min: &sdcpb.Number{}, Max: &sdcpb.Number{Value: 255}}}},
		{Type: "string", TypeName: "string"},
	}}
}

// VerifC12Union: union { uint8; string }. Text that is a uint8 is the uint8
// member, any other text the string member (RFC 7950 9.12: the first member
// type that accepts the value), and it renders back as given.
func VerifC12Union() {
	lt := v12UnionType()
	var want *sdcpb.TypedValue
	var txt string
	member := []string{"uint8-member", "string-member", "number-beyond-uint8"}
	mi := verifrt.Choice("member", 3)
	switch mi {
	case 0:
		u := uint64(verifrt.IntRange("u", 0, 255))
		want = vUint(u)
	case 1:
		s := verifrt.String("s", 3, "abc")
		verifrt.Assume(len(s) >= 1)
		want = vStr(s)
	default:
		// 256..999 is no uint8: the value is the string member
		u := uint64(verifrt.IntRange("big", 256, 999))
		want = vStr(TypedValueToString(vUint(u)))
	}
	txt = TypedValueToString(want)
	verifrt.Observe("text", txt)
	se := v12Field(lt)
	convs := []string{"Convert", "ConvertJsonValueToTv", "TypedValueToYANGType", "ConvertTypedValueToYANGType", "typed-ConvertTypedValueToYANGType"}
	ci := verifrt.Choice("conv", len(convs))
	var got *sdcpb.TypedValue
	var err error
	switch ci {
	case 0:
		got, err = Convert(txt, lt)
	case 1:
		got, err = ConvertJsonValueToTv(txt, lt)
	case 2:
		got, err = TypedValueToYANGType(vStr(txt), se)
	case 3:
		got, err = ConvertTypedValueToYANGType(se, vStr(txt))
	default:
		got, err = ConvertTypedValueToYANGType(se, want)
	}
	verifrt.Reach("converted")
	pfx := "C12-union/" + member[mi] + "-" + convs[ci] + "/"
	verifrt.Assert(err == nil, pfx+"valid-value-accepted")
	if err != nil {
		return
	}
	verifrt.Assert(got != nil && got.GetValue() != nil, pfx+"result-is-a-value")
	if got == nil || got.GetValue() == nil {
		return
	}
	verifrt.Assert(v12Same(got, want), pfx+"same-kind-and-datum")
	verifrt.Assert(TypedValueToString(got) == txt, pfx+"renders-back-as-given")
	x, ok := v12XMLText(got)
	verifrt.Assert(ok && x == txt, pfx+"xml-text-as-given")
}

// ---- leafref

// VerifC12Leafref: a leafref takes the type of its target (RFC 7950 9.9): a
// leafref to a uint16 leaf carries UintVal, whatever form the value came in.
func VerifC12Leafref() {
	target := &sdcpb.SchemaLeafType{Type: "uint16", TypeName: "uint16", Range: []*sdcpb.SchemaMinMaxType{{Min: &sdcpb.Number{}, Max: &sdcpb.Number{Value: 65535}}}}
	lt := &sdcpb.SchemaLeafType{Type: "leafref", TypeName: "leafref", Leafref: "/interface/mtu", LeafrefTargetType: target}
	want := vUint(uint64(verifrt.IntRange("u", 0, 65535)))
	v12CheckRoutes("leafref", lt, want, v12AllRoutes)
}

// ---- integers

type v12IntType struct {
	name   string
	signed bool
	lo     int64
	hi     uint64
}

var v12IntTypes = []v12IntType{
	{"int8", true, -1 << 7, 1<<7 - 1},
	{"int16", true, -1 << 15, 1<<15 - 1},
	{"int32", true, -1 << 31, 1<<31 - 1},
	{"int64", true, -1 << 63, 1<<63 - 1},
	{"uint8", false, 0, 1<<8 - 1},
	{"uint16", false, 0, 1<<16 - 1},
	{"uint32", false, 0, 1<<32 - 1},
	{"uint64", false, 0, 1<<64 - 1},
}

// v12IntLeafType: the literal the schema server emits for a plain integer
// leaf: the range of the built-in type as one min..max entry (compare
// interface/mtu in the generated literals; goyang writes the minimum of int64
// as {Value: 2^63, Negative: true}).
func v12IntLeafType(t v12IntType) *sdcpb.SchemaLeafType {
	mn := &sdcpb.Number{}
	if t.signed {
		mn = &sdcpb.Number{Value: uint64(-(t.lo + 1)) + 1, Negative: true}
	}
	return &sdcpb.SchemaLeafType{Type: t.name, TypeName: t.name, Range: []*sdcpb.SchemaMinMaxType{{Min: mn, Max: &sdcpb.Number{Value: t.hi}}}}
}

// VerifC12IntegerBounds: every value of every integer type (the bounds
// included: int64 min/max, uint64 2^64-1, uint8/16/32 maxima) through every
// route.
func VerifC12IntegerBounds() {
	ti := verifrt.Param("inttype", -1)
	if ti < 0 || ti >= len(v12IntTypes) {
		ti = verifrt.Choice("type", len(v12IntTypes))
	}
	t := v12IntTypes[ti]
	lt := v12IntLeafType(t)
	var want *sdcpb.TypedValue
	if t.signed {
		i := verifrt.Int64("i")
		verifrt.Assume(verifrt.And(i >= t.lo, i <= int64(t.hi)))
		want = vInt(i)
	} else {
		u := verifrt.Uint64("u")
		verifrt.Assume(u <= t.hi)
		want = vUint(u)
	}
	v12CheckRoutes(t.name, lt, want, v12AllRoutes)
}

// ---- decimal64 (routes not in zz_verif_c12.go)

// VerifC12DecimalRoutes: decimal64 through the typed, XML and gNMI routes
// (string and JSON routes are VerifDecimal* in zz_verif_c12.go).
func VerifC12DecimalRoutes() {
	maxP := verifrt.Param("maxPrecision", 2)
	lt := &sdcpb.SchemaLeafType{Type: "decimal64", TypeName: "decimal64"}
	want := vDec(verifrt.Int64("d"), uint32(verifrt.IntRange("p", 1, int64(maxP))))
	v12CheckRoutes("decimal64", lt, want, []int{v12RTypedCTV, v12RTypedTVY, v12RStrCTV, v12RStrTVY, v12RXml, v12RGnmi})
}

// VerifC12GnmiDecimalIn: a gNMI device that answers with the (deprecated, but
// legal) decimal_val: the value must arrive as the same number.
func VerifC12GnmiDecimalIn() {
	d := verifrt.Int64("d")
	p := uint32(verifrt.IntRange("p", 0, 18))
	g := &gnmi.TypedValue{Value: &gnmi.TypedValue_DecimalVal{DecimalVal: &gnmi.Decimal64{Digits: d, Precision: p}}} //nolint:staticcheck
	got := FromGNMITypedValue(g)
	verifrt.Reach("converted")
	if _, isDouble := got.GetValue().(*sdcpb.TypedValue_DoubleVal); isDouble {
		// read with the getter of another oneof member?
		if got.GetDoubleVal() == 0 {
			verifrt.Assert(d == 0, "C12-gnmi-decimal-in/denotes-the-same-number/read-as-double-zero")
			return
		}
	}
	verifrt.Assert(v12Same(got, vDec(d, p)), "C12-gnmi-decimal-in/denotes-the-same-number")
}

// ---- leaf-lists

// VerifC12LeafList: leaf-lists of strings and of uints, 0..n entries:
// order and multiplicity survive every route.
func VerifC12LeafList() {
	n := verifrt.Choice("entries", verifrt.Param("maxEntries", 3)+1)
	ofUint := verifrt.Choice("of", 2) == 1
	var lt *sdcpb.SchemaLeafType
	var el []*sdcpb.TypedValue
	for i := 0; i < n; i++ {
		tag := "e" + string(rune('0'+i))
		if ofUint {
			el = append(el, vUint(uint64(verifrt.IntRange(tag, 10, 99))))
		} else {
			el = append(el, vStr(verifrt.String(tag, 2, "ab")))
		}
	}
	if ofUint {
		lt = &sdcpb.SchemaLeafType{Type: "uint32", TypeName: "uint32", Range: []*sdcpb.SchemaMinMaxType{{Min: &sdcpb.Number{}, Max: &sdcpb.Number{Value: 1<<32 - 1}}}}
	} else {
		lt = &sdcpb.SchemaLeafType{Type: "string", TypeName: "string"}
	}
	want := vLL(el...)
	se := v12LeafListSchema(lt)
	routes := []string{"typed-ConvertTypedValueToYANGType", "typed-TypedValueToYANGType", "string-elements-ConvertTypedValueToYANGType",
		"json-elements-TypedValueToYANGType", "json-GetJsonValue-ConvertJsonValueToTv", "xml-elements-Convert", "gnmi-FromGNMITypedValue"}
	ri := verifrt.Choice("route", len(routes))
	var got *sdcpb.TypedValue
	var err error
	switch ri {
	case 0:
		got, err = ConvertTypedValueToYANGType(se, want)
	case 1:
		got, err = TypedValueToYANGType(want, se)
	case 2:
		// a client that sends the entries in string form
		var sel []*sdcpb.TypedValue
		for _, e := range el {
			sel = append(sel, vStr(TypedValueToString(e)))
		}
		got, err = ConvertTypedValueToYANGType(se, vLL(sel...))
	case 3:
		// what ExpandContainerValue does with the members of a JSON array
		var out []*sdcpb.TypedValue
		for _, e := range el {
			var c *sdcpb.TypedValue
			c, err = TypedValueToYANGType(vStr(TypedValueToString(e)), se)
			if err != nil {
				break
			}
			out = append(out, c)
		}
		got = vLL(out...)
	case 4:
		var j any
		j, err = GetJsonValue(want, true)
		if err == nil {
			arr, ok := j.([]any)
			verifrt.Assert(ok && len(arr) == n, "C12-leaflist/json-is-an-array-of-the-entries")
			var out []*sdcpb.TypedValue
			for _, a := range arr {
				var c *sdcpb.TypedValue
				c, err = ConvertJsonValueToTv(a, lt)
				if err != nil {
					break
				}
				out = append(out, c)
			}
			got = vLL(out...)
		}
	case 5:
		parent := etree.NewElement("p")
		TypedValueToXML(parent, want, "leaf", "", false, false, false)
		var out []*sdcpb.TypedValue
		for _, ch := range parent.ChildElements() {
			var c *sdcpb.TypedValue
			c, err = Convert(ch.Text(), lt)
			if err != nil {
				break
			}
			out = append(out, c)
		}
		got = vLL(out...)
	default:
		g := ToGNMITypedValue(want)
		verifrt.Assert(g != nil, "C12-leaflist/gnmi-FromGNMITypedValue/out-form-carries-the-value")
		if g == nil {
			return
		}
		got, err = TypedValueToYANGType(FromGNMITypedValue(g), se)
	}
	verifrt.Reach("converted")
	kind := "strings"
	if ofUint {
		kind = "uints"
	}
	pfx := "C12-leaflist-of-" + kind + "/" + routes[ri] + "/"
	verifrt.Assert(err == nil, pfx+"valid-value-accepted")
	if err == nil {
		verifrt.Assert(v12Same(got, want), pfx+"same-kinds-order-and-multiplicity")
	}
}

// ---- JSON documents (Converter.ExpandUpdate / ExpandContainerValue)

// v12Schema answers GetSchemaSdcpbPath for a container "c" holding one leaf of
// every type and two leaf-lists.
type v12Schema struct{ cont *sdcpb.ContainerSchema }

func (s *v12Schema) GetSchemaSdcpbPath(ctx context.Context, p *sdcpb.Path) (*sdcpb.GetSchemaResponse, error) {
	el := p.GetElem()
	if len(el) == 1 && el[0].GetName() == "c" {
		return &sdcpb.GetSchemaResponse{Schema: &sdcpb.SchemaElem{Schema: &sdcpb.SchemaElem_Container{Container: s.cont}}}, nil
	}
	if len(el) == 2 && el[0].GetName() == "c" {
		for _, f := range s.cont.Fields {
			if f.Name == el[1].GetName() {
				return &sdcpb.GetSchemaResponse{Schema: &sdcpb.SchemaElem{Schema: &sdcpb.SchemaElem_Field{Field: f}}}, nil
			}
		}
		for _, l := range s.cont.Leaflists {
			if l.Name == el[1].GetName() {
				return &sdcpb.GetSchemaResponse{Schema: &sdcpb.SchemaElem{Schema: &sdcpb.SchemaElem_Leaflist{Leaflist: l}}}, nil
			}
		}
	}
	return nil, errors.New("verif: unknown path")
}
func (s *v12Schema) GetSchemaElements(ctx context.Context, p *sdcpb.Path, done chan struct{}) (chan *sdcpb.GetSchemaResponse, error) {
	return nil, errors.New("verif: not used")
}
func (s *v12Schema) ToPath(ctx context.Context, path []string) (*sdcpb.Path, error) {
	return nil, errors.New("verif: not used")
}

func v12Container() *sdcpb.ContainerSchema {
	u8 := v12IntLeafType(v12IntTypes[4])
	i32 := v12IntLeafType(v12IntTypes[2])
	u64 := v12IntLeafType(v12IntTypes[7])
	return &sdcpb.ContainerSchema{Name: "c", ModuleName: "m",
		Fields: []*sdcpb.LeafSchema{
			{Name: "b", ModuleName: "m", Type: &sdcpb.SchemaLeafType{Type: "boolean"}},
			{Name: "en", ModuleName: "m", Type: &sdcpb.SchemaLeafType{Type: "enumeration", EnumNames: []string{"disable", "enable"}}},
			{Name: "id", ModuleName: "m", Type: v12IdentityType()},
			{Name: "em", ModuleName: "m", Type: &sdcpb.SchemaLeafType{Type: "empty"}},
			{Name: "un", ModuleName: "m", Type: v12UnionType()},
			{Name: "u8", ModuleName: "m", Type: u8},
			{Name: "i32", ModuleName: "m", Type: i32},
			{Name: "u64", ModuleName: "m", Type: u64},
			{Name: "s", ModuleName: "m", Type: &sdcpb.SchemaLeafType{Type: "string"}},
			{Name: "dec", ModuleName: "m", Type: &sdcpb.SchemaLeafType{Type: "decimal64"}},
		},
		Leaflists: []*sdcpb.LeafListSchema{
			{Name: "lls", ModuleName: "m", Type: &sdcpb.SchemaLeafType{Type: "string"}},
			{Name: "llu", ModuleName: "m", Type: v12IntLeafType(v12IntTypes[6])},
		},
	}
}

// VerifC12JsonDocument: a decoded JSON document {"<leaf>": <value>} for the
// container, as json.Decoder with UseNumber delivers it (numbers are
// json.Number, i.e. their text), expanded by Converter.ExpandContainerValue
// into typed leaf updates. The value is written the JSON way of the leaf type
// (RFC 7951: numbers up to 32 bit as JSON numbers, 64-bit and decimal64 as
// strings, boolean as true/false, empty as [null], identityref optionally
// module-qualified) or, member name, module-qualified.
func VerifC12JsonDocument() {
	cont := v12Container()
	cv := NewConverter(&v12Schema{cont: cont})
	cs := &sdcpb.SchemaElem_Container{Container: cont}
	leaves := []string{"b", "en", "id", "em", "un", "u8", "i32", "u64", "s", "dec", "lls", "llu"}
	li := verifrt.Param("leaf", -1)
	if li < 0 || li >= len(leaves) {
		li = verifrt.Choice("leaf", len(leaves))
	}
	leaf := leaves[li]
	var jv any
	var want *sdcpb.TypedValue
	switch leaf {
	case "b":
		b := verifrt.Choice("b", 2) == 1
		jv, want = b, vBool(b)
	case "en":
		n := []string{"disable", "enable"}[verifrt.Choice("name", 2)]
		jv, want = n, vStr(n)
	case "id":
		if verifrt.Choice("qualified", 2) == 1 {
			jv = "mod-types:rsa"
		} else {
			jv = "rsa"
		}
		want = vIdRef("rsa", "idt", "mod-types")
	case "em":
		if verifrt.Choice("spelling", 2) == 1 {
			jv = []any{nil}
		} else {
			jv = map[string]any{}
		}
		want = vEmpty()
	case "un":
		if verifrt.Choice("member", 2) == 0 {
			u := uint64(verifrt.IntRange("u", 0, 255))
			want = vUint(u)
			jv = json.Number(TypedValueToString(want))
		} else {
			s := verifrt.String("s", 2, "ab")
			verifrt.Assume(len(s) >= 1)
			jv, want = s, vStr(s)
		}
	case "u8":
		want = vUint(uint64(verifrt.IntRange("u", 0, 255)))
		jv = json.Number(TypedValueToString(want))
	case "i32":
		want = vInt(verifrt.IntRange("i", -1<<31, 1<<31-1))
		jv = json.Number(TypedValueToString(want))
	case "u64":
		want = vUint(verifrt.Uint64("u"))
		jv = TypedValueToString(want) // 64-bit: a JSON string
	case "s":
		s := verifrt.String("s", 3, "ab 1")
		jv, want = s, vStr(s)
	case "dec":
		want = vDec(verifrt.IntRange("d", -9999, 9999), uint32(verifrt.IntRange("p", 1, 2)))
		jv = TypedValueToString(want)
	case "lls":
		n := verifrt.Choice("entries", 3)
		var el []*sdcpb.TypedValue
		arr := []any{}
		for i := 0; i < n; i++ {
			s := verifrt.String("e"+string(rune('0'+i)), 2, "ab")
			el = append(el, vStr(s))
			arr = append(arr, s)
		}
		jv, want = arr, vLL(el...)
	default:
		n := verifrt.Choice("entries", 3)
		var el []*sdcpb.TypedValue
		arr := []any{}
		for i := 0; i < n; i++ {
			e := vUint(uint64(verifrt.IntRange("e"+string(rune('0'+i)), 10, 99)))
			el = append(el, e)
			arr = append(arr, json.Number(TypedValueToString(e)))
		}
		jv, want = arr, vLL(el...)
	}
	member := leaf
	if verifrt.Choice("member-qualified", 2) == 1 {
		member = "m:" + leaf
	}
	upds, err := cv.ExpandContainerValue(context.Background(), &sdcpb.Path{Elem: []*sdcpb.PathElem{{Name: "c"}}}, map[string]any{member: jv}, cs, false)
	verifrt.Reach("expanded")
	pfx := "C12-json-document/" + leaf + "/"
	verifrt.Assert(err == nil, pfx+"valid-document-accepted")
	if err != nil {
		return
	}
	verifrt.Assert(len(upds) == 1, pfx+"one-leaf-update")
	if len(upds) != 1 {
		return
	}
	pe := upds[0].GetPath().GetElem()
	verifrt.Assert(len(pe) == 2 && pe[1].GetName() == leaf, pfx+"update-names-the-leaf")
	verifrt.Assert(v12Same(upds[0].GetValue(), want), pfx+"same-kind-and-datum")
}

// VerifC12JsonDecodedNumbers: the decoded-JSON kinds ConvertJsonValueToTv (the
// JSON tree importer) can be handed for a number: float64 (json.Unmarshal),
// json.Number (Decoder.UseNumber), string. Concrete numbers: float conversion
// is not symbolic.
func VerifC12JsonDecodedNumbers() {
	type num struct {
		typ  string
		f    float64
		txt  string
		want *sdcpb.TypedValue
	}
	nums := []num{
		{"uint8", 5, "5", vUint(5)},
		{"uint16", 65535, "65535", vUint(65535)},
		{"uint32", 4294967295, "4294967295", vUint(4294967295)},
		{"int8", -128, "-128", vInt(-128)},
		{"int32", -2147483648, "-2147483648", vInt(-2147483648)},
	}
	nm := nums[verifrt.Choice("number", len(nums))]
	lt := &sdcpb.SchemaLeafType{Type: nm.typ, TypeName: nm.typ}
	forms := []string{"float64", "json.Number", "string"}
	fi := verifrt.Choice("decoded-as", 3)
	var d any
	switch fi {
	case 0:
		d = nm.f
	case 1:
		d = json.Number(nm.txt)
	default:
		d = nm.txt
	}
	got, err := ConvertJsonValueToTv(d, lt)
	verifrt.Reach("converted")
	// rejected is acceptable for a decoder kind the importer does not support;
	// accepted with another number is not
	verifrt.Assert(err != nil || v12Same(got, nm.want), "C12-json-number/"+forms[fi]+"/accepted-value-is-the-number")
}

// ---- EqualTypedValues over all pairs of kinds

// v12Kind: kinds 0..7 as vKind, 8 leaf-list (0..2 string entries), 9 bytes,
// 10 json, 11 json_ietf, 12 double, 13 float.
const v12NKinds = 14

func v12Kind(k int, tag string) *sdcpb.TypedValue {
	switch k {
	case 8:
		n := verifrt.Choice(tag+"n", 3)
		var el []*sdcpb.TypedValue
		for i := 0; i < n; i++ {
			el = append(el, vStr(verifrt.String(tag+"e"+string(rune('0'+i)), 1, "ab")))
		}
		return vLL(el...)
	case 9:
		return &sdcpb.TypedValue{Value: &sdcpb.TypedValue_BytesVal{BytesVal: []byte{byte(verifrt.Choice(tag+"byte", 2))}}}
	case 10:
		return &sdcpb.TypedValue{Value: &sdcpb.TypedValue_JsonVal{JsonVal: []byte{byte('0' + verifrt.Choice(tag+"j", 2))}}}
	case 11:
		return &sdcpb.TypedValue{Value: &sdcpb.TypedValue_JsonIetfVal{JsonIetfVal: []byte{byte('0' + verifrt.Choice(tag+"ji", 2))}}}
	case 12:
		return &sdcpb.TypedValue{Value: &sdcpb.TypedValue_DoubleVal{DoubleVal: []float64{1, 2}[verifrt.Choice(tag+"dbl", 2)]}}
	case 13:
		return &sdcpb.TypedValue{Value: &sdcpb.TypedValue_FloatVal{FloatVal: []float32{1, 2}[verifrt.Choice(tag+"flt", 2)]}}
	}
	return vKind(k, tag)
}

// v12Pow10 for p in 0..3.
func v12Pow10(p uint32) int64 {
	switch p {
	case 0:
		return 1
	case 1:
		return 10
	case 2:
		return 100
	}
	return 1000
}

// v12PairKinds: the kinds of VerifC12EqualTypedValuesPairs (double has its own
// harness: the engine lists at most 50 violations per harness, and the
// missing DoubleVal case of EqualTypedValues alone produces more).
var v12PairKinds = []int{0, 1, 2, 3, 4, 5, 6, 7, 8, 9, 10, 11, 13}

// v12EqualOracle: EqualTypedValues(a,b) iff a and b denote the same datum.
//   - same kind: same payload; leaf-lists entry by entry in order; decimal64 by
//     NUMBER (1.50 = 1.5: digits/10^precision), as the property text demands;
//   - IntVal vs UintVal of the same number: the same datum for any integer
//     leaf; asserted under its own label (callers normalise the kind by the
//     schema only for values that arrive as strings);
//   - every other pair of different kinds: different.
func v12EqualOracle(ka, kb int, a, b *sdcpb.TypedValue, got bool) {
	if ka != kb {
		if (ka == 1 && kb == 2) || (ka == 2 && kb == 1) {
			i, u := a.GetIntVal(), b.GetUintVal()
			if ka == 2 {
				i, u = b.GetIntVal(), a.GetUintVal()
			}
			same := verifrt.And(i >= 0, uint64(i) == u)
			if same {
				// IntVal n vs UintVal n: for one leaf the schema fixes the kind (values are
				// normalised by ConvertTypedValueToYANGType before they are compared), so the
				// two kinds never meet for the same leaf; demanding equality here would go
				// beyond the property. Observed only.
				verifrt.Reach("equal/same-number-as-int-and-as-uint")
			} else {
				verifrt.Assert(!got, "C12-equal/different-kinds-compare-different")
			}
			return
		}
		if ka == 12 || kb == 12 {
			verifrt.Assert(!got, "C12-equal/different-kinds-compare-different/double-involved")
			return
		}
		verifrt.Assert(!got, "C12-equal/different-kinds-compare-different")
		return
	}
	switch ka {
	case 4:
		x, y := a.GetDecimalVal(), b.GetDecimalVal()
		if x.Precision == y.Precision { // forks: names the situation
			verifrt.Assert(got == (x.Digits == y.Digits), "C12-equal/decimal64-same-precision")
			return
		}
		sameNumber := x.Digits*v12Pow10(y.Precision) == y.Digits*v12Pow10(x.Precision)
		if sameNumber {
			verifrt.Assert(got, "C12-equal/decimal64-same-number-different-precision-compare-equal")
		} else {
			verifrt.Assert(!got, "C12-equal/decimal64-different-numbers-compare-different")
		}
	case 8:
		x, y := a.GetLeaflistVal().GetElement(), b.GetLeaflistVal().GetElement()
		want := len(x) == len(y)
		if want {
			for i := range x {
				want = verifrt.And(want, x[i].GetStringVal() == y[i].GetStringVal())
			}
		}
		verifrt.Assert(got == want, "C12-equal/leaflist-entry-by-entry-in-order")
	case 9:
		verifrt.Assert(got == (a.GetBytesVal()[0] == b.GetBytesVal()[0]), "C12-equal/bytes")
	case 10:
		verifrt.Assert(got == (a.GetJsonVal()[0] == b.GetJsonVal()[0]), "C12-equal/json")
	case 11:
		verifrt.Assert(got == (a.GetJsonIetfVal()[0] == b.GetJsonIetfVal()[0]), "C12-equal/json-ietf")
	case 12:
		verifrt.Assert(got == (a.GetDoubleVal() == b.GetDoubleVal()), "C12-equal/double")
	case 13:
		verifrt.Assert(got == (a.GetFloatVal() == b.GetFloatVal()), "C12-equal/float")
	default:
		// kinds 0..3, 5..7: covered by VerifEqualTypedValuesScalars; repeated here for the pair matrix
		want := false
		switch ka {
		case 0:
			want = a.GetStringVal() == b.GetStringVal()
		case 1:
			want = a.GetIntVal() == b.GetIntVal()
		case 2:
			want = a.GetUintVal() == b.GetUintVal()
		case 3:
			want = a.GetBoolVal() == b.GetBoolVal()
		case 5:
			want = a.GetAsciiVal() == b.GetAsciiVal()
		case 6:
			x, y := a.GetIdentityrefVal(), b.GetIdentityrefVal()
			want = verifrt.And(x.Value == y.Value, verifrt.And(x.Prefix == y.Prefix, x.Module == y.Module))
		case 7:
			want = true
		}
		verifrt.Assert(got == want, "C12-equal/same-kind-same-payload")
	}
}

// VerifC12EqualTypedValuesPairs: every ordered pair of the kinds string, int,
// uint, bool, decimal64, ascii, identityref, empty, leaf-list, bytes, json,
// json_ietf, float.
func VerifC12EqualTypedValuesPairs() {
	ka := v12PairKinds[verifrt.Choice("ka", len(v12PairKinds))]
	kb := v12PairKinds[verifrt.Choice("kb", len(v12PairKinds))]
	a, b := v12Kind(ka, "a"), v12Kind(kb, "b")
	if ka == 4 {
		// keep digits*10^3 inside int64
		verifrt.Assume(verifrt.And(a.GetDecimalVal().Digits > -1000000, a.GetDecimalVal().Digits < 1000000))
	}
	if kb == 4 {
		verifrt.Assume(verifrt.And(b.GetDecimalVal().Digits > -1000000, b.GetDecimalVal().Digits < 1000000))
	}
	got := EqualTypedValues(a, b)
	verifrt.Reach("compared")
	// (a path continues only under its assertions: the situation labels come
	// first, symmetry last)
	v12EqualOracle(ka, kb, a, b, got)
	verifrt.Assert(EqualTypedValues(b, a) == got, "C12-equal/symmetric")
}

// VerifC12EqualTypedValuesDouble: DoubleVal (what FromGNMITypedValue makes of
// gNMI double, float and decimal values) against itself and against string,
// uint, decimal64, empty, leaf-list and float, in both argument orders.
func VerifC12EqualTypedValuesDouble() {
	others := []int{12, 0, 2, 4, 7, 13}
	ko := others[verifrt.Choice("other", len(others))]
	dbl := v12Kind(12, "d")
	var o *sdcpb.TypedValue
	switch ko {
	case 0:
		o = vStr("1")
	case 2:
		o = vUint(1)
	case 4:
		o = vDec(1, 0)
	case 7:
		o = vEmpty()
	case 13:
		o = &sdcpb.TypedValue{Value: &sdcpb.TypedValue_FloatVal{FloatVal: 1}}
	default:
		o = v12Kind(12, "o")
	}
	ka, kb, a, b := 12, ko, dbl, o
	if verifrt.Choice("double-is", 2) == 1 {
		ka, kb, a, b = ko, 12, o, dbl
	}
	got := EqualTypedValues(a, b)
	verifrt.Reach("compared")
	v12EqualOracle(ka, kb, a, b, got)
	verifrt.Assert(EqualTypedValues(b, a) == got, "C12-equal/symmetric/double-involved")
}
