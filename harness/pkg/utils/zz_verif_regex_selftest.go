//go:build verif

package utils

import (
	"regexp"
	"strings"

	"github.com/sdcio/data-server/pkg/verifrt"
)

// VerifRegexModelSelfTest: translator validation for the RegLan model of
// regexp.MatchString (engine/interp/ext_regex.go) on the patterns of the test schema.
func VerifRegexModelSelfTest() {
	s := verifrt.String("s", 12, "")
	m1, err := regexp.MatchString("hallo [0-9a-fA-F]*", s)
	verifrt.Assert(err == nil, "regex-compiles")
	verifrt.Observe("m1", m1)
	verifrt.Assert(verifrt.Implies(m1, strings.Contains(s, "hallo ")), "regex-hallo-implies-contains")
	verifrt.Assert(verifrt.Implies(strings.Contains(s, "hallo "), m1), "regex-contains-implies-hallo")
	m2, _ := regexp.MatchString("^(lo(0|1[0-9][0-9]|2([0-4][0-9]|5[0-5])|[1-9][0-9]|[1-9])|lag(([1-9](\\d){0,2})|(1000)))$", s)
	verifrt.Observe("m2", m2)
	verifrt.Assert(verifrt.Implies(m2, verifrt.Or(strings.HasPrefix(s, "lo"), strings.HasPrefix(s, "lag"))), "regex-anchored-prefix")
	verifrt.Assert(verifrt.Implies(m2, len(s) <= 7), "regex-anchored-length")
	verifrt.Assert(verifrt.Implies(s == "lo255", m2), "regex-lo255")
	verifrt.Assert(verifrt.Implies(s == "lo256", !m2), "regex-lo256")
	if m2 {
		verifrt.Reach("anchored-match")
	} else {
		verifrt.Reach("anchored-nomatch")
	}
}

// VerifStringsModelSelfTest: translator validation for string models added late (LastIndex).
func VerifStringsModelSelfTest() {
	s := verifrt.String("s", 5, "a=b")
	k := strings.LastIndex(s, "=")
	verifrt.Observe("k", k)
	verifrt.Assert(verifrt.Implies(k < 0, !strings.Contains(s, "=")), "lastindex-none")
	verifrt.Assert(verifrt.Implies(k >= 0, strings.Index(s, "=") <= k), "lastindex-after-first")
	verifrt.Assert(verifrt.Implies(s == "a=b=a", k == 3), "lastindex-example")
	if k >= 0 {
		verifrt.Assert(strings.HasPrefix(s[k:], "="), "lastindex-points-at-needle")
		verifrt.Assert(!strings.Contains(s[k+1:], "="), "lastindex-is-last")
		verifrt.Reach("found")
	} else {
		verifrt.Reach("not-found")
	}
}

// VerifRegexSeqSelfTest: the program-simulation model of regexp.MatchString on
// character sequences (verifrt.Chars) against the same facts as VerifRegexModelSelfTest,
// for every length 0..9.
func VerifRegexSeqSelfTest() {
	n := verifrt.Choice("len", 10)
	s := verifrt.Chars("s", n, "halo 1Fgx")
	m1, err := regexp.MatchString("hallo [0-9a-fA-F]*", s)
	verifrt.Assert(err == nil, "regexseq-compiles")
	verifrt.Observe("m1", m1)
	verifrt.Assert(m1 == strings.Contains(s, "hallo "), "regexseq-unanchored-is-contains")
	m2, _ := regexp.MatchString("^(?:hallo [0-9a-fA-F]*)$", s)
	verifrt.Observe("m2", m2)
	verifrt.Assert(verifrt.Implies(m2, strings.HasPrefix(s, "hallo ")), "regexseq-anchored-prefix")
	verifrt.Assert(verifrt.Implies(m2, !strings.Contains(s, "g")), "regexseq-anchored-no-g")
	verifrt.Assert(verifrt.Implies(m2, !strings.Contains(s, "x")), "regexseq-anchored-no-x")
	verifrt.Assert(verifrt.Implies(s == "hallo 1F", m2), "regexseq-example")
	verifrt.Assert(verifrt.Implies(s == "hallo 1g", !m2), "regexseq-counterexample")
	verifrt.Assert(verifrt.Implies(m2, m1), "regexseq-anchored-implies-search")
	m3, _ := regexp.MatchString("^(lo(0|1[0-9][0-9]|2([0-4][0-9]|5[0-5])|[1-9][0-9]|[1-9]))$", s)
	verifrt.Assert(verifrt.Implies(m3, strings.HasPrefix(s, "lo")), "regexseq-lo-prefix")
	verifrt.Assert(verifrt.Implies(s == "lo1", m3), "regexseq-lo1")
	verifrt.Assert(verifrt.Implies(s == "lo", !m3), "regexseq-lo-alone")
	if m2 {
		verifrt.Reach("seq-match")
	} else {
		verifrt.Reach("seq-nomatch")
	}
}

// VerifCaseModelSelfTest: the models of strings.ToLower / ToUpper on a symbolic string embedded in
// constant text.
func VerifCaseModelSelfTest() {
	s := verifrt.String("s", 3, "EOFeof")
	if verifrt.Param("chars", 0) == 1 {
		s = verifrt.Chars("s", 3, "EOFeof")
	}
	msg := "full output: '" + s + "' end"
	low := strings.ToLower(msg)
	up := strings.ToUpper(msg)
	verifrt.Observe("low", low)
	verifrt.Assert(verifrt.Implies(s == "EOF", strings.Contains(low, "eof")), "tolower-example")
	verifrt.Assert(verifrt.Implies(s == "EoF", strings.Contains(low, "eof")), "tolower-mixed")
	verifrt.Assert(verifrt.Implies(s == "eo", !strings.Contains(low, "eof")), "tolower-counterexample")
	verifrt.Assert(verifrt.Implies(strings.Contains(msg, "EOF"), strings.Contains(low, "eof")), "tolower-monotone")
	verifrt.Assert(verifrt.Implies(strings.Contains(low, "eof"), strings.Contains(up, "EOF")), "lower-upper-agree")
	verifrt.Assert(len(low) == len(msg), "tolower-keeps-length")
	if strings.Contains(low, "eof") {
		verifrt.Reach("has-eof")
	} else {
		verifrt.Reach("no-eof")
	}
}
