//go:build verif

package utils

import (
	"github.com/beevik/etree"
	sdcpb "github.com/sdcio/sdc-protos/sdcpb"

	"github.com/sdcio/data-server/pkg/verifrt"
)

// v10Attr returns the value of the attribute space:key of e and how often it occurs.
func v10Attr(e *etree.Element, space, key string) (string, int) {
	val, n := "", 0
	for _, a := range e.Attr {
		if a.Space == space && a.Key == key {
			val = a.Value
			n++
		}
	}
	return val, n
}

// v10HasOperation: e carries an operation attribute in any spelling.
func v10HasOperation(e *etree.Element) bool {
	for _, a := range e.Attr {
		if a.Key == "operation" {
			return true
		}
	}
	return false
}

// VerifAddXMLOperation: truth table of AddXMLOperation.
// A deletion (requested as delete or as remove) is spelled "remove" iff
// useOperationRemove, else "delete"; replace stays replace. The attribute is
// nc:operation plus the xmlns:nc declaration iff operationWithNamespace, else
// plain operation; nothing else is added.
func VerifAddXMLOperation() {
	ops := []XMLOperation{XMLOperationDelete, XMLOperationRemove, XMLOperationReplace}
	oi := verifrt.Choice("op", 3)
	withNS := verifrt.Choice("withNS", 2) == 1
	useRemove := verifrt.Choice("useRemove", 2) == 1
	preNS := verifrt.Choice("preexistingAttr", 2) == 1

	e := etree.NewElement("x")
	if preNS {
		e.CreateAttr("xmlns", "urn:x")
	}
	base := len(e.Attr)
	AddXMLOperation(e, ops[oi], withNS, useRemove)
	verifrt.Reach("added")

	want := "replace"
	if ops[oi] != XMLOperationReplace {
		want = "delete"
		if useRemove {
			want = "remove"
		}
	}
	if withNS {
		v, n := v10Attr(e, "nc", "operation")
		verifrt.Assert(n == 1, "prefixed-operation-present-once")
		verifrt.Assert(v == want, "operation-value")
		d, dn := v10Attr(e, "xmlns", "nc")
		verifrt.Assert(dn == 1 && d == "urn:ietf:params:xml:ns:netconf:base:1.0", "nc-prefix-declared")
		_, pn := v10Attr(e, "", "operation")
		verifrt.Assert(pn == 0, "no-unprefixed-operation")
		verifrt.Assert(len(e.Attr) == base+2, "nothing-else-added")
	} else {
		v, n := v10Attr(e, "", "operation")
		verifrt.Assert(n == 1, "plain-operation-present-once")
		verifrt.Assert(v == want, "operation-value")
		_, pn := v10Attr(e, "nc", "operation")
		_, dn := v10Attr(e, "xmlns", "nc")
		verifrt.Assert(pn == 0 && dn == 0, "no-nc-prefix-without-operationWithNamespace")
		verifrt.Assert(len(e.Attr) == base+1, "nothing-else-added")
	}
	if preNS {
		v, n := v10Attr(e, "", "xmlns")
		verifrt.Assert(n == 1 && v == "urn:x", "existing-attributes-kept")
	}
	// serialised form (what goes on the wire)
	doc := etree.NewDocument()
	doc.AddChild(e)
	s, err := doc.WriteToString()
	verifrt.Assert(err == nil, "serialises")
	pre := ""
	if preNS {
		pre = ` xmlns="urn:x"`
	}
	if withNS {
		verifrt.Assert(s == `<x`+pre+` xmlns:nc="urn:ietf:params:xml:ns:netconf:base:1.0" nc:operation="`+want+`"/>`, "wire-form")
	} else {
		verifrt.Assert(s == `<x`+pre+` operation="`+want+`"/>`, "wire-form")
	}
}

// v10XMLText is the XML lexical form of a scalar typed value: the same string
// the other encodings are built from, except identityref, which XML spells
// <prefix>:<identity> (RFC 7950 9.10.3).
func v10XMLText(tv *sdcpb.TypedValue) string {
	if ir := tv.GetIdentityrefVal(); ir != nil {
		return ir.Prefix + ":" + ir.Value
	}
	return TypedValueToString(tv)
}

// v10CheckLeafElem: e is <leaf [xmlns=ns]>text</leaf> without any operation.
func v10CheckLeafElem(e *etree.Element, ns string, tv *sdcpb.TypedValue) {
	verifrt.Assert(e.Tag == "leaf" && e.Space == "", "element-named-after-the-leaf")
	if ns != "" {
		v, n := v10Attr(e, "", "xmlns")
		verifrt.Assert(n == 1 && v == ns, "namespace-declared-on-element")
		verifrt.Assert(len(e.Attr) == 1, "no-other-attribute")
	} else {
		verifrt.Assert(len(e.Attr) == 0, "no-attribute-without-namespace")
	}
	verifrt.Assert(len(e.ChildElements()) == 0, "leaf-has-no-child-elements")
	if _, ok := tv.Value.(*sdcpb.TypedValue_EmptyVal); ok {
		verifrt.Assert(len(e.Child) == 0, "empty-is-an-empty-element")
	} else {
		verifrt.Assert(e.Text() == v10XMLText(tv), "text-is-the-value-string")
	}
}

// v10SmallKind: a typed value of scalar kind k (numbering of vKind). Strings and
// bools are arbitrary; numbers are taken from small ranges, because the
// number-to-string mapping over the full range is C12's subject and every
// digit count is a fork.
func v10SmallKind(k int, tag string) *sdcpb.TypedValue {
	switch k {
	case 1:
		return vInt(verifrt.IntRange(tag+"i", -10, 10))
	case 2:
		return vUint(uint64(verifrt.IntRange(tag+"u", 0, 10)))
	case 4:
		return vDec(verifrt.IntRange(tag+"d", -10, 10), uint32(verifrt.IntRange(tag+"p", 0, 1)))
	}
	return vKind(k, tag)
}

// VerifTypedValueToXMLScalar: every scalar kind (string, int, uint, bool,
// decimal64, ascii, identityref, empty).
func VerifTypedValueToXMLScalar() {
	k := verifrt.Choice("kind", 8)
	tv := v10SmallKind(k, "v")
	ns := ""
	if verifrt.Choice("ns", 2) == 1 {
		ns = "urn:other"
	}
	parent := etree.NewElement("p")
	TypedValueToXML(parent, tv, "leaf", ns, verifrt.Bool("onlyNew"), verifrt.Bool("withNS"), verifrt.Bool("useRemove"))
	verifrt.Reach("rendered")
	verifrt.Assert(len(parent.Attr) == 0, "parent-attributes-untouched")
	verifrt.Assert(len(parent.Child) == 1 && len(parent.ChildElements()) == 1, "exactly-one-element")
	if len(parent.ChildElements()) == 1 {
		v10CheckLeafElem(parent.ChildElements()[0], ns, tv)
	}
}

func v10LeafList(n int) (*sdcpb.TypedValue, []*sdcpb.TypedValue) {
	var el []*sdcpb.TypedValue
	for i := 0; i < n; i++ {
		tag := "e" + string(rune('0'+i))
		if verifrt.Choice("entrykind", 2) == 0 {
			el = append(el, vStr(verifrt.String(tag+"s", 2, "ab")))
		} else {
			el = append(el, vUint(uint64(verifrt.IntRange(tag+"u", 0, 10))))
		}
	}
	return &sdcpb.TypedValue{Value: &sdcpb.TypedValue_LeaflistVal{LeaflistVal: &sdcpb.ScalarArray{Element: el}}}, el
}

// VerifTypedValueToXMLLeafList: a leaf-list value of 0..n entries gives one
// element per entry, in order, each rendered like a scalar leaf.
func VerifTypedValueToXMLLeafList() {
	n := verifrt.Choice("entries", verifrt.Param("maxEntries", 2)+1)
	tv, el := v10LeafList(n)
	ns := ""
	if verifrt.Choice("ns", 2) == 1 {
		ns = "urn:other"
	}
	onlyNew := verifrt.Choice("onlyNew", 2) == 1
	withNS := verifrt.Choice("withNS", 2) == 1
	useRemove := verifrt.Choice("useRemove", 2) == 1
	parent := etree.NewElement("p")
	TypedValueToXML(parent, tv, "leaf", ns, onlyNew, withNS, useRemove)
	verifrt.Reach("rendered")
	ch := parent.ChildElements()
	verifrt.Assert(len(ch) == n && len(parent.Child) == n, "one-element-per-entry")
	if len(ch) == n {
		for i := range ch {
			v10CheckLeafElem(ch[i], ns, el[i])
		}
	}
	if !onlyNew {
		verifrt.Assert(len(parent.Attr) == 0, "full-rendering-leaves-parent-untouched")
	}
}

// VerifLeafListXMLOperationScope: rendering a changed leaf-list (onlyNewOrUpdated)
// must describe a change of the leaf-list only. An operation attribute on the
// enclosing element would make the edit act on the whole container, i.e. on
// sibling leaves that are not part of the change (and, being unchanged, are
// not in the document).
func VerifLeafListXMLOperationScope() {
	tv := &sdcpb.TypedValue{Value: &sdcpb.TypedValue_LeaflistVal{LeaflistVal: &sdcpb.ScalarArray{Element: []*sdcpb.TypedValue{vStr("a"), vStr("c")}}}}
	withNS := verifrt.Choice("withNS", 2) == 1
	useRemove := verifrt.Choice("useRemove", 2) == 1
	parent := etree.NewElement("container")
	TypedValueToXML(parent, tv, "leaf", "", true, withNS, useRemove)
	verifrt.Reach("rendered")
	verifrt.Assert(!v10HasOperation(parent), "leaflist-change-puts-no-operation-on-the-enclosing-container")
}
