//go:build verif

package utils

import (
	sdcpb "github.com/sdcio/sdc-protos/sdcpb"

	"github.com/sdcio/data-server/pkg/verifrt"
)

func vLeafType(t string) *sdcpb.SchemaLeafType { return &sdcpb.SchemaLeafType{Type: t} }

func vUint(u uint64) *sdcpb.TypedValue {
	return &sdcpb.TypedValue{Value: &sdcpb.TypedValue_UintVal{UintVal: u}}
}
func vInt(i int64) *sdcpb.TypedValue {
	return &sdcpb.TypedValue{Value: &sdcpb.TypedValue_IntVal{IntVal: i}}
}
func vStr(s string) *sdcpb.TypedValue {
	return &sdcpb.TypedValue{Value: &sdcpb.TypedValue_StringVal{StringVal: s}}
}
func vBool(b bool) *sdcpb.TypedValue {
	return &sdcpb.TypedValue{Value: &sdcpb.TypedValue_BoolVal{BoolVal: b}}
}
func vDec(d int64, p uint32) *sdcpb.TypedValue {
	return &sdcpb.TypedValue{Value: &sdcpb.TypedValue_DecimalVal{DecimalVal: &sdcpb.Decimal64{Digits: d, Precision: p}}}
}

// VerifUintStringRoundTrip: for every uint64 u, the string form of UintVal(u)
// converts back (as a uint64 leaf) to UintVal(u).
func VerifUintStringRoundTrip() {
	u := verifrt.Uint64("u")
	s := TypedValueToString(vUint(u))
	verifrt.Observe("s", s)
	tv, err := convertStringToTv(vLeafType("uint64"), s, 0)
	verifrt.Reach("converted")
	verifrt.Assert(err == nil, "uint-string-parses-back")
	if err == nil {
		verifrt.Assert(tv.GetUintVal() == u, "uint-string-roundtrip")
	}
}

// VerifIntStringRoundTrip: same for every int64.
func VerifIntStringRoundTrip() {
	i := verifrt.Int64("i")
	s := TypedValueToString(vInt(i))
	verifrt.Observe("s", s)
	tv, err := convertStringToTv(vLeafType("int64"), s, 0)
	verifrt.Reach("converted")
	verifrt.Assert(err == nil, "int-string-parses-back")
	if err == nil {
		verifrt.Assert(tv.GetIntVal() == i, "int-string-roundtrip")
	}
}

// VerifUintYANGTypeRoundTrip: ConvertTypedValueToYANGType on a uint64 leaf
// keeps every uint64 (input given as typed value or as its string form).
func VerifUintYANGTypeRoundTrip() {
	u := verifrt.Uint64("u")
	se := &sdcpb.SchemaElem{Schema: &sdcpb.SchemaElem_Field{Field: &sdcpb.LeafSchema{Name: "big", Type: vLeafType("uint64")}}}
	out, err := ConvertTypedValueToYANGType(se, vUint(u))
	verifrt.Reach("converted")
	verifrt.Assert(err == nil, "uint-yangtype-accepts")
	if err == nil {
		verifrt.Assert(out.GetUintVal() == u, "uint-yangtype-roundtrip")
	}
}

// VerifIntYANGTypeRoundTrip: same for int64 leaves.
func VerifIntYANGTypeRoundTrip() {
	i := verifrt.Int64("i")
	se := &sdcpb.SchemaElem{Schema: &sdcpb.SchemaElem_Field{Field: &sdcpb.LeafSchema{Name: "neg", Type: vLeafType("int64")}}}
	out, err := ConvertTypedValueToYANGType(se, vInt(i))
	verifrt.Reach("converted")
	verifrt.Assert(err == nil, "int-yangtype-accepts")
	if err == nil {
		verifrt.Assert(out.GetIntVal() == i, "int-yangtype-roundtrip")
	}
}

func vDecInput() (int64, uint32, string) {
	maxP := verifrt.Param("maxPrecision", 3)
	d := verifrt.Int64("d")
	p := uint32(verifrt.IntRange("p", 1, int64(maxP)))
	s := TypedValueToString(vDec(d, p))
	verifrt.Observe("s", s)
	verifrt.Reach("rendered")
	return d, p, s
}

// VerifDecimalParseDecimal64: the string form of a decimal64 (digits d,
// fraction-digits p) parses back to the same (d, p) through ParseDecimal64
// (used by Convert and ConvertTypedValueToYANGType).
func VerifDecimalParseDecimal64() {
	d, p, s := vDecInput()
	d64, err := ParseDecimal64(s)
	verifrt.Assert(err == nil && d64 != nil, "decimal-ParseDecimal64-accepts")
	if err == nil && d64 != nil {
		verifrt.Assert(d64.Digits == d && d64.Precision == p, "decimal-ParseDecimal64-roundtrip")
	}
}

// VerifDecimalConvertStringToTv: same through convertStringToTv (string typed
// values from clients and devices, defaults).
func VerifDecimalConvertStringToTv() {
	d, p, s := vDecInput()
	tv, err := convertStringToTv(vLeafType("decimal64"), s, 0)
	verifrt.Assert(err == nil && tv != nil, "decimal-convertStringToTv-accepts")
	if err == nil && tv != nil {
		verifrt.Assert(tv.GetDecimalVal().GetDigits() == d && tv.GetDecimalVal().GetPrecision() == p, "decimal-convertStringToTv-roundtrip")
	}
}

// VerifDecimalJson: same through ConvertJsonValueToTv (JSON documents) and
// back out through GetJsonValue.
func VerifDecimalJson() {
	d, p, s := vDecInput()
	tvj, err := ConvertJsonValueToTv(s, vLeafType("decimal64"))
	verifrt.Assert(err == nil && tvj != nil, "decimal-json-accepts")
	if err == nil && tvj != nil {
		verifrt.Assert(tvj.GetDecimalVal().GetDigits() == d && tvj.GetDecimalVal().GetPrecision() == p, "decimal-json-roundtrip")
		out, err := GetJsonValue(tvj, true)
		verifrt.Assert(err == nil, "decimal-json-out-ok")
		os, ok := out.(string)
		verifrt.Assert(ok, "decimal-json-out-is-string")
		if ok {
			back, err := ParseDecimal64(os)
			verifrt.Assert(err == nil && back != nil && back.Digits == d && back.Precision == p, "decimal-json-out-denotes-same")
		}
	}
}

// VerifDecimalConvert: utils.Convert (string input against the leaf type).
func VerifDecimalConvert() {
	d, p, s := vDecInput()
	tv, err := Convert(s, vLeafType("decimal64"))
	verifrt.Assert(err == nil && tv != nil, "decimal-Convert-accepts")
	if err == nil && tv != nil {
		verifrt.Assert(tv.GetDecimalVal().GetDigits() == d && tv.GetDecimalVal().GetPrecision() == p, "decimal-Convert-roundtrip")
	}
}

// vKind builds a typed value of one of the scalar kinds with symbolic payload.
func vKind(k int, tag string) *sdcpb.TypedValue {
	switch k {
	case 0:
		return vStr(verifrt.String(tag+"s", 2, "ab"))
	case 1:
		return vInt(verifrt.Int64(tag + "i"))
	case 2:
		return vUint(verifrt.Uint64(tag + "u"))
	case 3:
		return vBool(verifrt.Bool(tag + "b"))
	case 4:
		return vDec(verifrt.Int64(tag+"d"), uint32(verifrt.IntRange(tag+"p", 0, 3)))
	case 5:
		return &sdcpb.TypedValue{Value: &sdcpb.TypedValue_AsciiVal{AsciiVal: verifrt.String(tag+"a", 2, "ab")}}
	case 6:
		return &sdcpb.TypedValue{Value: &sdcpb.TypedValue_IdentityrefVal{IdentityrefVal: &sdcpb.IdentityRef{
			Value: verifrt.String(tag+"iv", 1, "ab"), Prefix: verifrt.String(tag+"ip", 1, "ab"), Module: verifrt.String(tag+"im", 1, "ab")}}}
	case 7:
		return &sdcpb.TypedValue{Value: &sdcpb.TypedValue_EmptyVal{}}
	}
	return nil
}

func vPow10(n int) int64 {
	r := int64(1)
	for i := 0; i < n; i++ {
		r *= 10
	}
	return r
}

// VerifEqualTypedValuesScalars: EqualTypedValues(a,b) <=> same kind and same payload,
// for the kinds string/int/uint/bool/decimal/ascii/identityref/empty.
func VerifEqualTypedValuesScalars() {
	ka := verifrt.Choice("ka", 8)
	kb := verifrt.Choice("kb", 8)
	a, b := vKind(ka, "a"), vKind(kb, "b")
	got := EqualTypedValues(a, b)
	verifrt.Reach("compared")
	want := false
	if ka == kb {
		switch ka {
		case 0:
			want = a.GetStringVal() == b.GetStringVal()
		case 1:
			want = a.GetIntVal() == b.GetIntVal()
		case 2:
			want = a.GetUintVal() == b.GetUintVal()
		case 3:
			want = a.GetBoolVal() == b.GetBoolVal()
		case 4:
			// same NUMBER (digits / 10^precision), whatever the representation: the digits are
			// kept small here so that scaling to the common precision 3 cannot overflow
			da, db := a.GetDecimalVal(), b.GetDecimalVal()
			verifrt.Assume(verifrt.And(da.Digits > -1000000, da.Digits < 1000000))
			verifrt.Assume(verifrt.And(db.Digits > -1000000, db.Digits < 1000000))
			want = da.Digits*vPow10(3-int(da.Precision)) == db.Digits*vPow10(3-int(db.Precision))
		case 5:
			want = a.GetAsciiVal() == b.GetAsciiVal()
		case 6:
			x, y := a.GetIdentityrefVal(), b.GetIdentityrefVal()
			want = verifrt.And(x.Value == y.Value, verifrt.And(x.Prefix == y.Prefix, x.Module == y.Module))
		case 7:
			want = true
		}
	}
	verifrt.Assert(got == want, "equal-iff-same-kind-and-payload")
	verifrt.Assert(EqualTypedValues(b, a) == got, "equal-symmetric")
}
