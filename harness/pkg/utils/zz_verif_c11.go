//go:build verif

package utils

import (
	"strings"

	sdcpb "github.com/sdcio/sdc-protos/sdcpb"

	"github.com/sdcio/data-server/pkg/verifrt"
)

// C11 - path representations are lossless and collision-free.
//
// Schema used by all harnesses (names are concrete identifiers, key VALUES are
// arbitrary non-empty strings over vc11Alphabet):
//
//   container c
//   list l  { key "k";   leaf k; leaf c; leaf c_c; list m {...} }
//   list m  { key "c a"; leaf c; leaf a }              <- keys NOT declared alphabetically
//
// (all names are spelled with letters of vc11Alphabet so that a key value can
// imitate them)
//
// Instance path shapes (vc11Path):
//   0  /c
//   1  /l[k=v0]
//   2  /l[k=v0]/c
//   3  /m[c=v0][a=v1]
//   4  /m[c=v0][a=v1]/c
//   5  /l[k=v0]/m[c=v1][a=v2]
//   6  /l[k=v0]/c_c

const vc11Alphabet = "ac/_:=[] "

const vc11Shapes = 7

func vc11Val(name string) string {
	v := verifrt.String(name, verifrt.Param("valLen", 2), vc11Alphabet)
	// YANG allows the empty string as a key value but no textual form in the
	// code base can carry it; the property speaks about values "containing"
	// special characters, so the empty value is left out.
	verifrt.Assume(len(v) > 0)
	return v
}

func vc11Path(tag string, shape int) *sdcpb.Path {
	l := func() *sdcpb.PathElem {
		return &sdcpb.PathElem{Name: "l", Key: map[string]string{"k": vc11Val(tag + "lk")}}
	}
	m := func() *sdcpb.PathElem {
		return &sdcpb.PathElem{Name: "m", Key: map[string]string{"c": vc11Val(tag + "mc"), "a": vc11Val(tag + "ma")}}
	}
	c := &sdcpb.PathElem{Name: "c"}
	switch shape {
	case 0:
		return &sdcpb.Path{Elem: []*sdcpb.PathElem{c}}
	case 1:
		return &sdcpb.Path{Elem: []*sdcpb.PathElem{l()}}
	case 2:
		return &sdcpb.Path{Elem: []*sdcpb.PathElem{l(), c}}
	case 3:
		return &sdcpb.Path{Elem: []*sdcpb.PathElem{m()}}
	case 4:
		return &sdcpb.Path{Elem: []*sdcpb.PathElem{m(), c}}
	case 5:
		return &sdcpb.Path{Elem: []*sdcpb.PathElem{l(), m()}}
	default:
		return &sdcpb.Path{Elem: []*sdcpb.PathElem{l(), {Name: "c_c"}}}
	}
}

// vc11KeyStmtOrder: the key statement of each list of the harness schema, i.e.
// the order in which the schema server returns ContainerSchema.Keys and in
// which SchemaClientBoundImpl.ToPath and the tree's getKeyName consume values.
func vc11KeyStmtOrder(list string) []string {
	switch list {
	case "l":
		return []string{"k"}
	case "m":
		return []string{"c", "a"}
	}
	return nil
}

// vc11Same: element-wise equality of two paths (the specification of "the same
// instance path"). Forks on symbolic comparisons; usable on parser output whose
// shape is not known beforehand.
func vc11Same(p, q *sdcpb.Path) bool {
	if p == nil || q == nil {
		return p == nil && q == nil
	}
	if len(p.Elem) != len(q.Elem) {
		return false
	}
	for i, a := range p.Elem {
		b := q.Elem[i]
		if a.GetName() != b.GetName() {
			return false
		}
		if len(a.GetKey()) != len(b.GetKey()) {
			return false
		}
		for k, v := range a.GetKey() {
			w, ok := b.GetKey()[k]
			if !ok {
				return false
			}
			if w != v {
				return false
			}
		}
	}
	return true
}

// vc11SameBuilt: the same relation for two paths built by vc11Path (names and
// key names concrete); does not fork, the result is one symbolic bool.
func vc11SameBuilt(p, q *sdcpb.Path) bool {
	if len(p.Elem) != len(q.Elem) {
		return false
	}
	r := true
	for i, a := range p.Elem {
		b := q.Elem[i]
		if a.Name != b.Name || len(a.Key) != len(b.Key) {
			return false
		}
		for _, k := range vc11KeyStmtOrder(a.Name) {
			r = verifrt.And(r, a.Key[k] == b.Key[k])
		}
	}
	return r
}

// vc11IsPrefixBuilt: p is an ancestor-or-self of q (element-wise: q starts with
// the elements of p, keys included).
func vc11IsPrefixBuilt(p, q *sdcpb.Path) bool {
	if len(p.Elem) > len(q.Elem) {
		return false
	}
	return vc11SameBuilt(p, &sdcpb.Path{Elem: q.Elem[:len(p.Elem)]})
}

func vc11SeqEq(a, b []string) bool {
	if len(a) != len(b) {
		return false
	}
	r := true
	for i := range a {
		r = verifrt.And(r, a[i] == b[i])
	}
	return r
}

// ---------------------------------------------------------------------------
// request path text <-> element sequence

// VerifXPathRoundTrip: printing an instance path with ToXPath and parsing the
// text with ParsePath yields the original path. abs=1 parses "/"+text (what
// StripPathElemPrefix produces and what clients send), abs=0 the bare text.
func VerifXPathRoundTrip() {
	// shapes are ordered by text length; the tier chooses how many are covered
	// (shape 6 adds nothing over 2 here)
	shape := verifrt.Choice("shape", verifrt.Param("shapes", 4))
	abs := verifrt.Choice("abs", 2)
	p := vc11Path("p", shape)
	s := ToXPath(p, false)
	verifrt.Observe("xpath", s)
	if abs == 1 {
		s = "/" + s
	}
	q, err := ParsePath(s)
	verifrt.Reach("parsed")
	if abs == 1 {
		verifrt.Assert(err == nil, "abs-xpath-parses-back")
	} else {
		verifrt.Assert(err == nil, "rel-xpath-parses-back")
	}
	if err != nil {
		return
	}
	same := vc11Same(p, q)
	if abs == 1 {
		verifrt.Assert(same, "abs-xpath-roundtrip")
		verifrt.Assert(q.GetOrigin() == "", "abs-xpath-no-origin-invented")
	} else {
		verifrt.Assert(same, "rel-xpath-roundtrip")
		verifrt.Assert(q.GetOrigin() == "", "rel-xpath-no-origin-invented")
	}
	// the repository's own comparison must agree with element-wise equality
	verifrt.Assert(PathsEqual(q, p) == same, "PathsEqual-agrees")
}

// VerifXPathEscapedRoundTrip: same, but the text is written the way the parser
// documents it: '[' and ']' inside a value are escaped with a backslash. This is
// the most a client can do; the round trip must then hold for every value.
func VerifXPathEscapedRoundTrip() {
	shape := 1 + verifrt.Choice("shape", verifrt.Param("shapes", 4)-1)
	p := vc11Path("p", shape)
	sb := strings.Builder{}
	for _, pe := range p.Elem {
		sb.WriteString("/")
		sb.WriteString(pe.Name)
		for _, k := range vc11KeyStmtOrder(pe.Name) {
			v := pe.Key[k]
			v = strings.ReplaceAll(v, "[", `\[`)
			v = strings.ReplaceAll(v, "]", `\]`)
			sb.WriteString("[" + k + "=" + v + "]")
		}
	}
	s := sb.String()
	verifrt.Observe("xpath", s)
	q, err := ParsePath(s)
	verifrt.Reach("parsed")
	verifrt.Assert(err == nil, "escaped-xpath-parses")
	if err != nil {
		return
	}
	verifrt.Assert(vc11Same(p, q), "escaped-xpath-roundtrip")
}

// VerifCompletePathFromString: the two routes from request text to the cache
// index sequence agree: CompletePathFromString(text) == ToStrings(ParsePath(text)),
// and for a printed instance path both equal ToStrings of the original.
func VerifCompletePathFromString() {
	shape := verifrt.Choice("shape", verifrt.Param("shapes", 4))
	p := vc11Path("p", shape)
	s := "/" + ToXPath(p, false)
	want := ToStrings(p, false, false)
	got, err := CompletePathFromString(s)
	verifrt.Reach("completed")
	verifrt.Assert(err == nil, "complete-accepts-printed-path")
	if err != nil {
		return
	}
	verifrt.Assert(vc11SeqEq(got, want), "complete-equals-ToStrings-of-original")
	q, err2 := ParsePath(s)
	verifrt.Assert(err2 == nil, "parse-accepts-what-complete-accepts")
	if err2 == nil {
		verifrt.Assert(vc11SeqEq(got, ToStrings(q, false, false)), "complete-equals-ToStrings-of-parse")
	}
}

// ---------------------------------------------------------------------------
// element sequence <-> cache / tree index sequence

// VerifToStringsKeyOrder: the index sequence carries key values without their
// names; its inverse (SchemaClientBoundImpl.ToPath, sharedEntryAttributes.
// getKeyName / SdcpbPath) hands the values out in key-STATEMENT order. So the
// representation is lossless only if ToStrings emits them in that order.
// The inverse is applied here exactly as ToPath does it (values consumed in
// vc11KeyStmtOrder), and the result must be the original path.
func VerifToStringsKeyOrder() {
	shape := 1 + verifrt.Choice("shape", 5)
	p := vc11Path("p", shape)
	ts := ToStrings(p, false, false)
	verifrt.Observe("strings", ts)
	verifrt.Reach("indexed")

	// inverse, schema-directed, key-statement order
	q := &sdcpb.Path{}
	i := 0
	ok := true
	for i < len(ts) {
		pe := &sdcpb.PathElem{Name: ts[i]}
		i++
		q.Elem = append(q.Elem, pe)
		// pe.Name is concrete for the harness schema (names are not symbolic)
		if ks := vc11KeyStmtOrder(pe.Name); ks != nil {
			pe.Key = map[string]string{}
			for _, k := range ks {
				if i >= len(ts) {
					ok = false
					break
				}
				pe.Key[k] = ts[i]
				i++
			}
		}
	}
	verifrt.Assert(ok, "index-sequence-has-all-key-values")
	if ok {
		verifrt.Assert(vc11SameBuilt(p, q), "ToStrings-then-ToPath-is-identity")
	}
	// the no-keys form is the schema path
	nk := ToStrings(p, false, true)
	verifrt.Assert(len(nk) == len(p.Elem), "nokeys-one-string-per-elem")
}

// VerifToStringsInjective: two instance paths of the same schema have the same
// index sequence only if they are the same path (reads, deletes and existence
// checks address the cache by this sequence).
func VerifToStringsInjective() {
	sp := verifrt.Choice("shapeP", vc11Shapes)
	sq := verifrt.Choice("shapeQ", vc11Shapes)
	p, q := vc11Path("p", sp), vc11Path("q", sq)
	a, b := ToStrings(p, false, false), ToStrings(q, false, false)
	verifrt.Reach("indexed")
	verifrt.Assert(verifrt.Implies(vc11SeqEq(a, b), vc11SameBuilt(p, q)), "same-index-sequence-only-if-same-path")
}

// VerifXPathInjective: ToXPath text is used as a map key (leaf-list grouping in
// convertUpdateTypedValue, deviation bookkeeping in runDeviationUpdate): two
// different instance paths must not print the same.
func VerifXPathInjective() {
	sp := verifrt.Choice("shapeP", vc11Shapes)
	sq := verifrt.Choice("shapeQ", vc11Shapes)
	if sq < sp {
		return // symmetric
	}
	p, q := vc11Path("p", sp), vc11Path("q", sq)
	a, b := ToXPath(p, false), ToXPath(q, false)
	verifrt.Reach("printed")
	verifrt.Assert(verifrt.Implies(a == b, vc11SameBuilt(p, q)), "same-xpath-text-only-if-same-path")
}

// VerifIndexKeyCollision: pkg/tree addresses its store indexes by
// strings.Join(indexSequence, "_") (tree.KeysIndexSep): TreeCacheClientImpl.
// IntendedPathExists, ReadRunningPath, readStoreKeysMeta, PathSet.AddPath.
// Two different instance paths must not get the same joined key.
func VerifIndexKeyCollision() {
	sp := verifrt.Choice("shapeP", vc11Shapes)
	sq := verifrt.Choice("shapeQ", vc11Shapes)
	if sq < sp {
		return // symmetric
	}
	p, q := vc11Path("p", sp), vc11Path("q", sq)
	a := strings.Join(ToStrings(p, false, false), "_")
	b := strings.Join(ToStrings(q, false, false), "_")
	verifrt.Reach("joined")
	verifrt.Assert(verifrt.Implies(a == b, vc11SameBuilt(p, q)), "same-joined-key-only-if-same-path")
}

// VerifIndexKeyPrefix: TreeCacheClientImpl.GetBranchesHighesPrecedence treats a
// stored path q as lying below branch p iff HasPrefix(join(q), join(p)). That
// must coincide with p being an element-wise ancestor-or-self of q.
func VerifIndexKeyPrefix() {
	sp := verifrt.Choice("shapeP", vc11Shapes)
	sq := verifrt.Choice("shapeQ", vc11Shapes)
	p, q := vc11Path("p", sp), vc11Path("q", sq)
	a := strings.Join(ToStrings(p, false, false), "_")
	b := strings.Join(ToStrings(q, false, false), "_")
	verifrt.Reach("joined")
	isAnc := vc11IsPrefixBuilt(p, q)
	verifrt.Assert(verifrt.Implies(strings.HasPrefix(b, a), isAnc), "joined-key-prefix-only-if-ancestor")
	verifrt.Assert(verifrt.Implies(isAnc, strings.HasPrefix(b, a)), "ancestor-implies-joined-key-prefix")
}

// ---------------------------------------------------------------------------
// PathsEqual

// VerifPathsEqualIsEquality: PathsEqual is reflexive, symmetric and coincides
// with element-wise equality on instance paths.
func VerifPathsEqualIsEquality() {
	sp := verifrt.Choice("shapeP", vc11Shapes)
	sq := verifrt.Choice("shapeQ", vc11Shapes)
	p, q := vc11Path("p", sp), vc11Path("q", sq)
	want := vc11SameBuilt(p, q)
	got := PathsEqual(p, q)
	verifrt.Reach("compared")
	verifrt.Assert(got == want, "PathsEqual-iff-elementwise-equal")
	verifrt.Assert(PathsEqual(q, p) == got, "PathsEqual-symmetric")
	verifrt.Assert(PathsEqual(p, p), "PathsEqual-reflexive")
	verifrt.Assert(PathsEqual(p, CopyPath(p)), "CopyPath-equal")
}

// VerifStripPrefixKeepsKeys: StripPathElemPrefixPath only removes module
// prefixes ("mod:name"); on an instance path whose names carry no prefix and
// whose key values are not prefixed identifiers it must not change anything.
// A key value is data: a ':' inside it (an IPv6 address, a MAC, a time) is not a
// module prefix.
func VerifStripPrefixKeepsKeys() {
	shape := []int{1, 3}[verifrt.Choice("shape", 2)]
	p := vc11Path("p", shape)
	q := CopyPath(p)
	StripPathElemPrefixPath(q)
	verifrt.Reach("stripped")
	verifrt.Assert(vc11SameBuilt(p, q), "strip-prefix-keeps-instance-path")
}
