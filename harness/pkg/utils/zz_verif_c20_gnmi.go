//go:build verif

package utils

import (
	"github.com/openconfig/gnmi/proto/gnmi"
	"google.golang.org/protobuf/types/known/anypb"

	"github.com/sdcio/data-server/pkg/verifrt"
)

// C20 - device messages: the gNMI -> sdcpb translation used by gnmiTarget.Get
// and gnmiTarget.Sync (ToSchemaNotification, FromGNMIPath, FromGNMITypedValue)
// on notifications of arbitrary shape. The Datastore-level continuation
// (storeSyncMsg) is VerifNoPanic_GnmiNotification in package datastore.

func vc20GnmiBytes(tag string) []byte {
	return []byte(verifrt.String(tag, verifrt.Param("valLen", 3), "{}[]\":,1anul "))
}

// vc20GnmiTV: every gnmi.TypedValue kind, the oneof unset, the value absent,
// leaf-lists with an absent / unset / nested element, JSON with arbitrary
// small bytes.
func vc20GnmiTV(tag string, depth int) *gnmi.TypedValue {
	switch verifrt.Choice(tag+"gkind", 19) {
	case 0:
		return nil
	case 1:
		return &gnmi.TypedValue{}
	case 2:
		return &gnmi.TypedValue{Value: &gnmi.TypedValue_StringVal{StringVal: vc20ValueString(tag + "s")}}
	case 3:
		return &gnmi.TypedValue{Value: &gnmi.TypedValue_AsciiVal{AsciiVal: vc20ValueString(tag + "a")}}
	case 4:
		return &gnmi.TypedValue{Value: &gnmi.TypedValue_IntVal{IntVal: verifrt.Int64(tag + "i")}}
	case 5:
		return &gnmi.TypedValue{Value: &gnmi.TypedValue_UintVal{UintVal: verifrt.Uint64(tag + "u")}}
	case 6:
		return &gnmi.TypedValue{Value: &gnmi.TypedValue_BoolVal{BoolVal: verifrt.Bool(tag + "b")}}
	case 7:
		return &gnmi.TypedValue{Value: &gnmi.TypedValue_BytesVal{BytesVal: vc20GnmiBytes(tag + "bytes")}}
	case 8:
		return &gnmi.TypedValue{Value: &gnmi.TypedValue_FloatVal{FloatVal: 1.5}}
	case 9:
		return &gnmi.TypedValue{Value: &gnmi.TypedValue_DoubleVal{DoubleVal: 1.5}}
	case 10:
		return &gnmi.TypedValue{Value: &gnmi.TypedValue_DecimalVal{DecimalVal: &gnmi.Decimal64{
			Digits: verifrt.Int64(tag + "d"), Precision: uint32(verifrt.IntRange(tag+"p", 0, 20))}}}
	case 11:
		return &gnmi.TypedValue{Value: &gnmi.TypedValue_DecimalVal{}} // member nil: only a Go caller can build it
	case 12:
		return &gnmi.TypedValue{Value: &gnmi.TypedValue_LeaflistVal{}} // member nil
	case 13:
		if depth == 0 {
			return &gnmi.TypedValue{Value: &gnmi.TypedValue_LeaflistVal{LeaflistVal: &gnmi.ScalarArray{}}}
		}
		return &gnmi.TypedValue{Value: &gnmi.TypedValue_LeaflistVal{LeaflistVal: &gnmi.ScalarArray{Element: []*gnmi.TypedValue{
			nil, vc20GnmiTV(tag+"e", depth-1)}}}}
	case 14:
		return &gnmi.TypedValue{Value: &gnmi.TypedValue_AnyVal{AnyVal: &anypb.Any{}}}
	case 15:
		return &gnmi.TypedValue{Value: &gnmi.TypedValue_AnyVal{}}
	case 16:
		return &gnmi.TypedValue{Value: &gnmi.TypedValue_ProtoBytes{ProtoBytes: vc20GnmiBytes(tag + "pb")}}
	case 17:
		return &gnmi.TypedValue{Value: &gnmi.TypedValue_JsonVal{JsonVal: vc20GnmiBytes(tag + "json")}}
	default:
		return &gnmi.TypedValue{Value: &gnmi.TypedValue_JsonIetfVal{JsonIetfVal: vc20GnmiBytes(tag + "jsonietf")}}
	}
}

// vc20GnmiPath: sym=false gives the same shapes with concrete, module-prefixed
// names. (Prefix AND path with symbolic key names and values - six symbolic
// strings through StripPathElemPrefixPath and ToXPath - do not terminate in the
// engine: z3 does not come back within its time limit. Reported as an engine
// gap; the prefix is therefore concrete.)
func vc20GnmiPath(tag string, sym bool) *gnmi.Path {
	const alpha = ":/a"
	n := verifrt.Param("strLen", 2)
	if !sym {
		switch verifrt.Choice(tag+"shape", 4) {
		case 0:
			return nil
		case 1:
			return &gnmi.Path{}
		case 2:
			return &gnmi.Path{Origin: "o", Target: "t", Elem: []*gnmi.PathElem{{Name: "m:x"}}}
		default:
			return &gnmi.Path{Elem: []*gnmi.PathElem{{Name: ":x", Key: map[string]string{"m:k": "m:v/n:w", "j": ""}}}}
		}
	}
	switch verifrt.Choice(tag+"shape", 5) {
	case 0:
		return nil
	case 1:
		return &gnmi.Path{}
	case 2:
		return &gnmi.Path{Origin: "o", Target: "t", Elem: []*gnmi.PathElem{{Name: verifrt.String(tag+"n0", n, alpha)}}}
	case 3:
		return &gnmi.Path{Elem: []*gnmi.PathElem{{Name: verifrt.String(tag+"n0", n, alpha),
			Key: map[string]string{verifrt.String(tag+"k0", n, alpha): verifrt.String(tag+"v0", n, alpha)}}}}
	default:
		// deprecated string elements only (gNMI < 0.4), no Elem
		return &gnmi.Path{Element: []string{"a", "b"}} //nolint:staticcheck
	}
}

// VerifNoPanic_ToSchemaNotification: the translation, then what the sync path
// applies to every translated path (prefix stripping, printing).
func VerifNoPanic_ToSchemaNotification() {
	var n *gnmi.Notification
	switch verifrt.Choice("msg", 5) {
	case 0: // nil
	case 1:
		n = &gnmi.Notification{}
	case 2:
		// either the update path or the value is symbolic (both together, with
		// the strings of the value, send z3 into queries it does not return from)
		if verifrt.Choice("vary", 2) == 0 {
			n = &gnmi.Notification{Timestamp: 1, Prefix: vc20GnmiPath("pre.", false),
				Update: []*gnmi.Update{{Path: vc20GnmiPath("p.", true), Val: &gnmi.TypedValue{Value: &gnmi.TypedValue_StringVal{StringVal: "m:v"}}}}}
		} else {
			n = &gnmi.Notification{Timestamp: -1, Prefix: vc20GnmiPath("pre.", false),
				Update: []*gnmi.Update{{Path: vc20GnmiPath("p.", false), Val: vc20GnmiTV("", 1)}}}
		}
	case 3:
		n = &gnmi.Notification{Prefix: vc20GnmiPath("pre.", false), Delete: []*gnmi.Path{vc20GnmiPath("p.", true), nil}}
	default:
		// the deprecated Update.value field instead of val; duplicates count
		n = &gnmi.Notification{Update: []*gnmi.Update{
			{Path: vc20GnmiPath("p.", true), Value: &gnmi.Value{Value: []byte("1")}, Duplicates: 2}, //nolint:staticcheck
			{}}}
	}
	verifrt.Reach("built")
	sn := ToSchemaNotification(n)
	verifrt.Reach("translated")
	for _, u := range sn.GetUpdate() {
		StripPathElemPrefixPath(u.GetPath())
		_ = ToXPath(u.GetPath(), false)
		_ = ToStrings(u.GetPath(), false, false)
	}
	for _, d := range sn.GetDelete() {
		_ = ToStrings(d, false, false)
	}
	verifrt.Reach("returned")
}
