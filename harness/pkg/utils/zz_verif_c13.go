//go:build verif

package utils

// C13 kernel: Converter.ConvertNotificationTypedValues on a device notification that reports
// leaf-list entries in the "leaf-list as key" form (one update per entry, no value, the entry
// in a key of the last path element). The entries have to be grouped per leaf-list INSTANCE:
// the test schema of the repository has no leaf-list below a list, so this kernel uses a small
// hand-written schema: list l (key k) with the leaf-lists tag and tags (a sibling whose name
// extends the other's).

import (
	"context"
	"errors"

	"github.com/sdcio/data-server/pkg/verifrt"
	sdcpb "github.com/sdcio/sdc-protos/sdcpb"
)

type v13Schema struct{}

func (s *v13Schema) GetSchemaSdcpbPath(ctx context.Context, p *sdcpb.Path) (*sdcpb.GetSchemaResponse, error) {
	el := p.GetElem()
	if len(el) == 2 && el[0].GetName() == "l" && (el[1].GetName() == "tag" || el[1].GetName() == "tags") {
		return &sdcpb.GetSchemaResponse{Schema: &sdcpb.SchemaElem{Schema: &sdcpb.SchemaElem_Leaflist{Leaflist: &sdcpb.LeafListSchema{
			Name: el[1].GetName(), ModuleName: "m", Type: &sdcpb.SchemaLeafType{Type: "string"}}}}}, nil
	}
	return nil, errors.New("verif: unknown path")
}
func (s *v13Schema) GetSchemaElements(ctx context.Context, p *sdcpb.Path, done chan struct{}) (chan *sdcpb.GetSchemaResponse, error) {
	return nil, errors.New("verif: not used")
}
func (s *v13Schema) ToPath(ctx context.Context, path []string) (*sdcpb.Path, error) {
	return nil, errors.New("verif: not used")
}

// VerifC13LeafListAsKeys: Param("updates") updates, each for an arbitrary (list entry, leaf-list,
// value) out of 2 x 2 x 2: the converted notification has exactly one leaf-list update per
// (entry, leaf-list) that was reported, carrying the reported values of that instance in the
// order they were reported, under the path of that instance.
func VerifC13LeafListAsKeys() {
	n := verifrt.Param("updates", 3)
	entries := []string{"e1", "e2"}
	lls := []string{"tag", "tags"}
	vals := []string{"red", "blue"}
	type rep struct{ e, l, v int }
	var reps []rep
	notif := &sdcpb.Notification{}
	for i := 0; i < n; i++ {
		tag := "u" + string(rune('0'+i))
		r := rep{verifrt.Choice(tag+".entry", 2), verifrt.Choice(tag+".ll", 2), verifrt.Choice(tag+".val", 2)}
		reps = append(reps, r)
		notif.Update = append(notif.Update, &sdcpb.Update{Path: &sdcpb.Path{Elem: []*sdcpb.PathElem{
			{Name: "l", Key: map[string]string{"k": entries[r.e]}},
			{Name: lls[r.l], Key: map[string]string{lls[r.l]: vals[r.v]}},
		}}})
	}
	cv := NewConverter(&v13Schema{})
	out, err := cv.ConvertNotificationTypedValues(context.Background(), notif)
	verifrt.Reach("converted")
	verifrt.Assert(err == nil, "C13-leaflist-as-keys/accepted")
	if err != nil {
		return
	}
	seen := map[string]int{}
	for _, u := range out.GetUpdate() {
		el := u.GetPath().GetElem()
		ok := len(el) == 2 && el[0].GetName() == "l" && len(el[1].GetKey()) == 0 && u.GetValue().GetLeaflistVal() != nil
		verifrt.Assert(ok, "C13-leaflist-as-keys/one-leaflist-update-per-instance")
		if !ok {
			continue
		}
		id := el[0].GetKey()["k"] + "/" + el[1].GetName()
		seen[id]++
		var want []string
		for _, r := range reps {
			if entries[r.e]+"/"+lls[r.l] == id {
				want = append(want, vals[r.v])
			}
		}
		got := u.GetValue().GetLeaflistVal().GetElement()
		verifrt.Assert(len(want) > 0, "C13-leaflist-as-keys/only-reported-instances")
		verifrt.Assert(len(got) == len(want), "C13-leaflist-as-keys/instance-carries-exactly-its-reported-entries")
		if len(got) == len(want) {
			for i := range got {
				verifrt.Assert(got[i].GetStringVal() == want[i], "C13-leaflist-as-keys/instance-carries-exactly-its-reported-entries")
			}
		}
	}
	for _, r := range reps {
		verifrt.Assert(seen[entries[r.e]+"/"+lls[r.l]] == 1, "C13-leaflist-as-keys/one-leaflist-update-per-instance")
	}
	verifrt.Reach("checked")
}
