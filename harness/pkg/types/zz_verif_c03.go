//go:build verif

package types

import (
	"errors"

	"github.com/sdcio/data-server/pkg/verifrt"
)

// VerifJoinErrors: for every set of validation results over <= 2 intents with
// <= 2 errors and <= 2 warnings each, HasErrors() implies JoinErrors() != nil
// (a failing intent is surfaced to the caller, never as success), and the
// converse.
func VerifJoinErrors() {
	v := ValidationResults{}
	names := []string{"intentA", "intentB"}
	nIntents := verifrt.Choice("nIntents", 3)
	totalErr, totalWarn := 0, 0
	for i := 0; i < nIntents; i++ {
		v.AddIntent(names[i])
		nErr := verifrt.Choice("nErr", 3)
		nWarn := verifrt.Choice("nWarn", 3)
		for k := 0; k < nErr; k++ {
			_ = v.AddEntry(NewValidationResultEntry(names[i], errors.New("e"), ValidationResultEntryTypeError))
			totalErr++
		}
		for k := 0; k < nWarn; k++ {
			_ = v.AddEntry(NewValidationResultEntry(names[i], errors.New("w"), ValidationResultEntryTypeWarning))
			totalWarn++
		}
	}
	verifrt.Reach("built")
	verifrt.Observe("totalErr", totalErr)
	verifrt.Observe("hasErrors", v.HasErrors())
	verifrt.Assert(v.HasErrors() == (totalErr > 0), "HasErrors-exact")
	verifrt.Assert(v.HasWarnings() == (totalWarn > 0), "HasWarnings-exact")
	verifrt.Assert(len(v.ErrorsStr()) == totalErr, "ErrorsStr-count")
	joined := v.JoinErrors()
	verifrt.Assert(!v.HasErrors() || joined != nil, "JoinErrors-nonnil-when-errors")
	verifrt.Assert(v.HasErrors() || joined == nil, "JoinErrors-nil-when-no-errors")
}
