//go:build verif

package datastore

// C06: exclusive, id-scoped transactions that never wedge the datastore.
// A sequence of operations against the reference automaton open ∈ {none, id}.

import (
	"context"
	"errors"
	"time"

	"github.com/sdcio/data-server/pkg/datastore/types"
	"github.com/sdcio/data-server/pkg/verifrt"
	sdcpb "github.com/sdcio/sdc-protos/sdcpb"
)

const v06Timeout = time.Second // short: native replay really sleeps; well above the 200ms registration retry step

func v06Intent(env *vEnv, valid bool, n int) []*types.TransactionIntent {
	var upd *sdcpb.Update
	if valid {
		upd = &sdcpb.Update{Path: vPath(vPE("interface", "name", "lo1"), vPE("mtu")), Value: vUintTV(uint64(1500 + n))}
	} else if verifrt.Choice("invalidClass", 2) == 0 {
		// out of range for uint32 "10..300 | 5000..5020 | 9999"
		upd = &sdcpb.Update{Path: vPath(vPE("rangetestunsigned")), Value: vUintTV(1000)}
	} else {
		// list entry without its mandatory leaf "mandato"
		upd = &sdcpb.Update{Path: vPath(vPE("doublekey", "key1", "k1", "key2", "k2"), vPE("cont"), vPE("value1")), Value: vStrTV("x")}
	}
	ti, err := env.ds.SdcpbTransactionIntentToInternalTI(context.Background(), &sdcpb.TransactionIntent{Intent: "A", Priority: 10, Update: []*sdcpb.Update{upd}})
	if err != nil {
		panic(err)
	}
	return []*types.TransactionIntent{ti}
}

// VerifTxnSequence explores every sequence of `ops` operations.
func VerifTxnSequence() {
	env := vNewEnv()
	n := verifrt.Param("ops", 2)
	// reference state
	open := ""         // id of the open (applied, unconfirmed) transaction
	undetermined := false // a Set ended without applying anything: may hold the datastore until the timeout at most
	cancelFailed := false // a Cancel of the open transaction failed because the device refused the rollback
	txn := 0
	for i := 0; i < n; i++ {
		op := verifrt.Choice("op", 12)
		setsBefore := env.tgt.Sets
		same := false
		reuseID := false
		deadCtx := false
		failRollback := false
		if op == 10 {
			// Set(valid) whose request context is ALREADY over when the datastore gets to it (the
			// client gave up while the request was queued): refused, nothing registered, nothing sent
			op, deadCtx = 0, true
		}
		if op == 11 {
			// Cancel while the device refuses the rollback: the cancel fails, the transaction is
			// still unresolved - it can be cancelled or confirmed again, and the timeout still
			// resolves it
			op, failRollback = 5, true
		}
		if op == 9 {
			// Set(valid) that REUSES the id of the open transaction (a client re-sending a
			// request whose answer it lost): refused like any other Set while one is open, and
			// without any effect on the open transaction
			op, reuseID = 0, true
		}
		if op == 8 {
			// Set(valid) with ALWAYS THE SAME content: once it has been kept, submitting it
			// again is a successful transaction whose diff towards the device is empty
			op, same = 0, true
		}
		switch op {
		case 0, 1, 2, 3: // Set: valid | invalid | dry-run | device-error
			txn++
			id := "t" + string(rune('0'+txn))
			if reuseID && open != "" {
				id = open
			}
			ctx, cancel := context.WithTimeout(context.Background(), 50*time.Millisecond)
			if deadCtx {
				cancel()
			}
			if op == 3 {
				env.tgt.FailSet = env.tgt.Sets + 1
			}
			content := txn
			if same {
				content = 0
			}
			rsp, err := env.ds.TransactionSet(ctx, id, v06Intent(env, op != 1, content), nil, v06Timeout, op == 2)
			cancel()
			env.tgt.FailSet = 0
			verifrt.Reach("set-returned")
			if deadCtx {
				verifrt.Assert(err != nil, "C06-set-with-ended-context-refused")
				verifrt.Assert(env.tgt.Sets == setsBefore, "C06-refused-set-sends-nothing")
				// no effect on the reference state: the final part checks that nothing stayed registered
				break
			}
			if open != "" {
				verifrt.Assert(errors.Is(err, ErrDatastoreLocked), "C06-set-refused-while-transaction-open")
				verifrt.Assert(env.tgt.Sets == setsBefore, "C06-refused-set-sends-nothing")
				break
			}
			if undetermined {
				// allowed to be refused until the timeout has passed; nothing to assert on acceptance
				if err == nil && op == 0 && !vHasErrors(rsp) {
					open, undetermined = id, false
				}
				break
			}
			switch op {
			case 0:
				verifrt.Assert(err == nil && !vHasErrors(rsp), "C06-valid-set-accepted-when-free")
				if err == nil && !vHasErrors(rsp) {
					open = id
				}
			case 1:
				verifrt.Assert(err == nil && vHasErrors(rsp), "C06-invalid-set-reports-intent-errors")
				undetermined = true
			case 2:
				verifrt.Assert(err == nil, "C06-dry-run-accepted")
				undetermined = true
			case 3:
				verifrt.Assert(err != nil, "C06-device-error-returned")
				undetermined = true
			}
		case 4, 5: // Confirm | Cancel, right or wrong id
			right := verifrt.Choice("id", 2) == 0
			id := "nope"
			if right && open != "" {
				id = open
			}
			var err error
			if failRollback {
				env.tgt.FailSet = env.tgt.Sets + 1
			}
			if op == 4 {
				err = env.ds.TransactionConfirm(context.Background(), id)
			} else {
				err = env.ds.TransactionCancel(context.Background(), id)
			}
			env.tgt.FailSet = 0
			verifrt.AwaitQuiescence()
			verifrt.Reach("confirm-cancel-returned")
			if open == "" || id != open {
				verifrt.Assert(err != nil, "C06-confirm-cancel-of-other-id-fails")
				verifrt.Assert(env.tgt.Sets == setsBefore, "C06-confirm-cancel-of-other-id-triggers-no-rollback")
				break
			}
			if failRollback {
				verifrt.Assert(err != nil, "C06-cancel-whose-rollback-failed-returns-the-error")
				verifrt.Assert(env.tgt.Sets == setsBefore+1, "C06-cancel-rolls-back-once")
				cancelFailed = true
				break // still open
			}
			verifrt.Assert(err == nil, "C06-confirm-cancel-of-open-id-succeeds")
			if op == 4 {
				verifrt.Assert(env.tgt.Sets == setsBefore, "C06-confirm-sends-nothing")
			} else {
				verifrt.Assert(env.tgt.Sets == setsBefore+1, "C06-cancel-rolls-back-once")
			}
			open, cancelFailed = "", false
		case 6, 7: // wait for the transaction timeout (7: the device is unreachable when the rollback is sent)
			verifrt.AwaitQuiescence()
			if op == 7 {
				env.tgt.FailSet = env.tgt.Sets + 1
			}
			verifrt.Advance(v06Timeout + 200*time.Millisecond)
			verifrt.AwaitQuiescence()
			env.tgt.FailSet = 0
			verifrt.Reach("waited")
			if open != "" && cancelFailed {
				if env.tgt.Sets != setsBefore+1 {
					verifrt.Assert(false, "C06-timeout-rolls-back-open-transaction-once/after-cancel-whose-rollback-failed")
				}
			} else if open != "" {
				verifrt.Assert(env.tgt.Sets == setsBefore+1, "C06-timeout-rolls-back-open-transaction-once")
			} else {
				verifrt.Assert(env.tgt.Sets == setsBefore, "C06-timeout-without-open-transaction-sends-nothing")
			}
			open, undetermined, cancelFailed = "", false, false
		}
	}
	// whatever happened: once the timeout has passed with the client doing nothing, a new transaction is accepted
	verifrt.AwaitQuiescence()
	setsBefore := env.tgt.Sets
	verifrt.Advance(v06Timeout + 200*time.Millisecond)
	verifrt.AwaitQuiescence()
	if open != "" && cancelFailed {
		if env.tgt.Sets != setsBefore+1 {
			verifrt.Assert(false, "C06-timeout-rolls-back-open-transaction-once/after-cancel-whose-rollback-failed")
		}
	} else if open != "" {
		verifrt.Assert(env.tgt.Sets == setsBefore+1, "C06-timeout-rolls-back-open-transaction-once")
	} else {
		verifrt.Assert(env.tgt.Sets == setsBefore, "C06-timeout-without-open-transaction-sends-nothing")
	}
	ctx, cancel := context.WithTimeout(context.Background(), 50*time.Millisecond)
	rsp, err := env.ds.TransactionSet(ctx, "final", v06Intent(env, true, 9), nil, v06Timeout, false)
	cancel()
	verifrt.Reach("final-set")
	if open != "" && cancelFailed {
		if !(err == nil && !vHasErrors(rsp)) {
			verifrt.Assert(false, "C06-never-wedged-new-transaction-accepted-after-timeout/after-cancel-whose-rollback-failed")
		}
		return
	}
	verifrt.Assert(err == nil && !vHasErrors(rsp), "C06-never-wedged-new-transaction-accepted-after-timeout")
}

// VerifTxnConfirmWhileSetWaits (C16): transaction t1 is open; a second
// TransactionSet is waiting for the datastore (its registration loop). A
// Confirm (which=0) or Cancel (which=1) for t1 must not be refused merely
// because of the waiting TransactionSet.
func VerifTxnConfirmWhileSetWaits() {
	env := vNewEnv()
	rsp, err := env.ds.TransactionSet(context.Background(), "t1", v06Intent(env, true, 1), nil, v06Timeout, false)
	verifrt.Assert(err == nil && !vHasErrors(rsp), "C16-first-set-accepted")
	var err2 error
	done2 := false
	go func() {
		ctx, cancel := context.WithTimeout(context.Background(), 50*time.Millisecond)
		defer cancel()
		_, err2 = env.ds.TransactionSet(ctx, "t2", v06Intent(env, true, 2), nil, v06Timeout, false)
		done2 = true
	}()
	verifrt.AwaitQuiescence() // t2 is now sleeping in its registration loop
	verifrt.Reach("second-set-waiting")
	var cerr error
	if verifrt.Choice("which", 2) == 0 {
		cerr = env.ds.TransactionConfirm(context.Background(), "t1")
	} else {
		cerr = env.ds.TransactionCancel(context.Background(), "t1")
	}
	verifrt.Assert(!errors.Is(cerr, ErrDatastoreLocked), "C16-confirm-cancel-not-refused-while-another-set-waits")
	verifrt.Advance(600 * time.Millisecond)
	verifrt.AwaitQuiescence()
	verifrt.Assert(done2, "C16-waiting-set-returns")
	_ = err2
}

// VerifTimeoutWhileSetWaits (C05/C16): transaction t1 is open; a second
// TransactionSet t2 waits for the datastore for longer than t1's timeout.
// When t1's timer expires during the wait, t1 must be rolled back (exactly
// once) before t2 is applied on top of it.
func VerifTimeoutWhileSetWaits() {
	env := vNewEnv()
	rsp, err := env.ds.TransactionSet(context.Background(), "t1", v06Intent(env, true, 1), nil, v06Timeout, false)
	verifrt.Assert(err == nil && !vHasErrors(rsp), "C16-first-set-accepted")
	verifrt.Assert(env.tgt.Sets == 1, "C16-first-set-applied")
	var err2 error
	done2 := false
	go func() {
		ctx, cancel := context.WithTimeout(context.Background(), 3*v06Timeout)
		defer cancel()
		_, err2 = env.ds.TransactionSet(ctx, "t2", v06Intent(env, true, 2), nil, v06Timeout, false)
		done2 = true
	}()
	verifrt.AwaitQuiescence() // t2 sleeps in its registration loop
	verifrt.Reach("second-set-waiting")
	verifrt.Advance(v06Timeout + 100*time.Millisecond) // t1 expires while t2 waits
	verifrt.AwaitQuiescence()
	verifrt.Advance(300 * time.Millisecond) // t2's next registration attempt
	verifrt.AwaitQuiescence()
	verifrt.Reach("after-expiry")
	verifrt.Assert(done2 && err2 == nil, "C16-waiting-set-proceeds-after-expiry")
	// t1's rollback must have been sent before t2's payload: three Set calls in total,
	// the second one removing what t1 created
	verifrt.Assert(env.tgt.Sets == 3, "C05-expired-transaction-rolled-back-before-next-is-applied")
}
