//go:build verif

package datastore

// C20 - no request or device message crashes the server, at Datastore level:
//
//   * VerifNoPanic_IntentConversion: a protobuf-valid TransactionIntent through
//     the real SdcpbTransactionIntentToInternalTI (expandAndConvertIntent,
//     Converter.ExpandUpdates, validateUpdate) over the real schema client;
//   * VerifNoPanic_GnmiNotification: a gNMI notification as the device sends it
//     through utils.ToSchemaNotification (FromGNMIPath, FromGNMITypedValue) and
//     the real storeSyncMsg (ConvertNotificationTypedValues,
//     ExpandUpdateKeysAsLeaf, cache write).
//
// Nothing is asserted: a panic or hang on any path is the violation.

import (
	"context"

	"github.com/openconfig/gnmi/proto/gnmi"
	sdcpb "github.com/sdcio/sdc-protos/sdcpb"
	"golang.org/x/sync/semaphore"
	"google.golang.org/protobuf/types/known/anypb"

	"github.com/sdcio/data-server/pkg/datastore/target"
	"github.com/sdcio/data-server/pkg/utils"
	"github.com/sdcio/data-server/pkg/verifrt"
)

const v20ValAlphabet = "019-.:ae"

func v20Str(tag string) string {
	return verifrt.String(tag, verifrt.Param("valLen", 3), v20ValAlphabet)
}

// ---------------------------------------------------------------------------
// paths over the schema

// v20Target: a schema node addressed by the update, with the list elements on
// the way (keys = the list's key names).
type v20PE struct {
	name string
	keys []string
}

var v20Targets = [][]v20PE{
	/* 0 uint16        */ {{"interface", []string{"name"}}, {"mtu", nil}},
	/* 1 string        */ {{"interface", []string{"name"}}, {"description", nil}},
	/* 2 enumeration   */ {{"interface", []string{"name"}}, {"admin-state", nil}},
	/* 3 identityref   */ {{"interface", []string{"name"}}, {"subinterface", []string{"index"}}, {"type", nil}},
	/* 4 key leaf      */ {{"interface", []string{"name"}}, {"name", nil}},
	/* 5 int32 + range */ {{"rangetestsigned", nil}},
	/* 6 empty         */ {{"emptyconf", nil}},
	/* 7 boolean       */ {{"choices", nil}, {"case1", nil}, {"log", nil}},
	/* 8 leaf-list str */ {{"leaflist", nil}, {"entry", nil}},
	/* 9 leaf-list u32 */ {{"rangetestLeaflist", nil}},
	/* 10 union        */ {{"network-instance", []string{"name"}}, {"protocol", nil}, {"bgp", nil}, {"router-id", nil}},
	/* 11 leafref      */ {{"network-instance", []string{"name"}}, {"interface", []string{"name"}}, {"interface-ref", nil}, {"interface", nil}},
	/* 12 presence     */ {{"choices", nil}, {"case1", nil}},
	/* 13 list         */ {{"interface", []string{"name"}}},
	/* 14 container    */ {{"choices", nil}},
	/* 15 root         */ {},
	/* 16 two keys     */ {{"doublekey", []string{"key1", "key2"}}, {"mandato", nil}},
	/* 17 two-key list */ {{"doublekey", []string{"key1", "key2"}}},
	/* 18 nested list  */ {{"interface", []string{"name"}}, {"subinterface", []string{"index"}}},
	/* 19 unknown      */ {{"nosuch", nil}},
	/* 20 unknown leaf */ {{"interface", []string{"name"}}, {"nosuch", nil}},
	/* 21 below a leaf */ {{"interface", []string{"name"}}, {"mtu", nil}, {"x", nil}},
	/* 22 empty name   */ {{"", nil}},
	/* 23 module name  */ {{"sdcio_model", nil}},
}

// v20KeyShapes: how the FIRST list element of the path carries its keys (the
// other list elements carry valid concrete keys).
const v20KeyShapes = 7

func v20Keys(tag string, shape int, names []string, symKeys, concreteChoice bool) map[string]string {
	full := func(sym bool) map[string]string {
		m := map[string]string{}
		for i, k := range names {
			if i == 0 && sym && !symKeys && !concreteChoice {
				m[k] = "1"
			} else if i == 0 && sym && !symKeys {
				// device side: a few concrete values (module-prefixed, empty, separators)
				m[k] = []string{"1", "a:b", "", ":", "a:b:c/d"}[verifrt.Choice(tag+".keyval", 5)]
			} else if i == 0 && sym {
				m[k] = v20Str(tag + ".keyval")
			} else {
				m[k] = "1"
			}
		}
		return m
	}
	switch shape {
	case 0: // all keys, first one with an arbitrary value
		return full(true)
	case 1: // no keys: nil map
		return nil
	case 2: // no keys: empty map
		return map[string]string{}
	case 3: // an extra key the list does not have
		m := full(false)
		m["nosuch"] = "x"
		return m
	case 4: // only a key the list does not have
		return map[string]string{"nosuch": "x"}
	case 5: // the last key missing (= no key for single-key lists)
		m := full(false)
		delete(m, names[len(names)-1])
		return m
	default: // a key with an empty name
		m := full(false)
		m[""] = "x"
		return m
	}
}

// v20Path builds the path to target t. keyShape applies to the first list
// element; nonListKey additionally puts a key on the last element when that is
// no list (mtu[name=x], choices[k=v]).
func v20Path(t int, keyShape int, nonListKey bool, symKeys, concreteChoice bool) *sdcpb.Path {
	p := &sdcpb.Path{}
	first := true
	tgt := v20Targets[t]
	for i, e := range tgt {
		pe := &sdcpb.PathElem{Name: e.name}
		switch {
		case len(e.keys) > 0 && first:
			pe.Key = v20Keys("path", keyShape, e.keys, symKeys, concreteChoice)
			first = false
		case len(e.keys) > 0:
			pe.Key = map[string]string{}
			for _, k := range e.keys {
				pe.Key[k] = "1"
			}
		case nonListKey && i == len(tgt)-1:
			pe.Key = map[string]string{"name": "x"}
		}
		p.Elem = append(p.Elem, pe)
	}
	return p
}

func v20HasList(t int) bool {
	for _, e := range v20Targets[t] {
		if len(e.keys) > 0 {
			return true
		}
	}
	return false
}

// ---------------------------------------------------------------------------
// values

// v20JSONDocs: JSON texts a client may put into json_val / json_ietf_val
// (encoding/json is executed on concrete text only, so the documents come from
// this list): scalars of every kind, objects and arrays over the schema with
// keys present / missing / doubled, leaf-lists as array / scalar / null,
// members unknown to the schema or module-prefixed, nested lists, presence
// containers, malformed and empty text.
var v20JSONDocs = []string{
	/* 0 */ `"x"`,
	/* 1 */ `"1500"`,
	/* 2 */ `1500`,
	/* 3 */ `-1.5`,
	/* 4 */ `null`,
	/* 5 */ `true`,
	/* 6 */ `{}`,
	/* 7 */ `[]`,
	/* 8 */ `[1,"a",null]`,
	/* 9 */ `{"a":1}`,
	/* 10 */ `{`,
	/* 11 */ ``,
	/* 12 */ `"\"quoted\""`,
	// entries of list interface
	/* 13 */ `{"name":"lo1","mtu":1500}`,
	/* 14 */ `{"mtu":1500}`,
	/* 15 */ `[{"name":"lo1"},{"mtu":1}]`,
	/* 16 */ `{"name":"lo1","nosuch":1}`,
	/* 17 */ `{"name":"lo1","sdcio_model_if:mtu":1,"x:description":"d"}`,
	/* 18 */ `{"name":"lo1","mtu":null,"description":{"a":1},"admin-state":[1]}`,
	/* 19 */ `{"name":{"a":1}}`,
	/* 20 */ `{"name":null}`,
	/* 21 */ `{"name":"lo1","subinterface":[{"index":1,"type":"routed"},{"description":"d"}]}`,
	/* 22 */ `{"name":"lo1","subinterface":{"index":1}}`,
	/* 23 */ `{"name":"lo1","subinterface":5}`,
	/* 24 */ `{"name":"lo1","subinterface":null}`,
	/* 25 */ `{"name":"lo1","subinterface":[null,1,"x",[{"index":1}]]}`,
	// below the root
	/* 26 */ `{"interface":[{"name":"lo1","mtu":1}]}`,
	/* 27 */ `{"interface":{"name":"lo1"}}`,
	/* 28 */ `{"sdcio_model_if:interface":[{"mtu":1}]}`,
	/* 29 */ `{"leaflist":{"entry":["a","b"]}}`,
	/* 30 */ `{"leaflist":{"entry":[]}}`,
	/* 31 */ `{"leaflist":{"entry":[[]]}}`,
	/* 32 */ `{"leaflist":{"entry":[null,{"a":1},[1]]}}`,
	/* 33 */ `{"rangetestLeaflist":[10,"x"]}`,
	/* 34 */ `{"emptyconf":{}}`,
	/* 35 */ `{"emptyconf":[null],"patterntest":5,"rangetestsigned":"x"}`,
	/* 36 */ `{"choices":{"case1":{}}}`,
	/* 37 */ `{"choices":{"case1":{"log":true,"case-elem":{"elem":"x"}},"case2":null}}`,
	/* 38 */ `{"choices":{"case1":5}}`,
	/* 39 */ `{"doublekey":[{"key1":"a"}]}`,
	/* 40 */ `{"doublekey":[{"key1":"a","key2":"b","mandato":"m","cont":{"value1":"x"}}]}`,
	/* 41 */ `{"nosuch":1}`,
	/* 42 */ `{"sdcio_model":{"interface":[]}}`,
	/* 43 */ `{"network-instance":[{"name":"default","type":"sdcio_model_ni:default","protocol":{"bgp":{"router-id":"1.1.1.1","autonomous-system":"x"}}}]}`,
	// entries of doublekey / subinterface / members of choices
	/* 44 */ `{"key1":"a","key2":"b","mandato":"m"}`,
	/* 45 */ `{"key2":"b"}`,
	/* 46 */ `{"index":1,"type":"sdcio_model_common:routed"}`,
	/* 47 */ `{"case1":{"log":"x"}}`,
}

// v20JSONLeaflistNotArrayDocs: a leaf-list member that holds something else
// than an array. ExpandContainerValue reports it with
// reflect.TypeOf(x).Name() (converter.go:312), which the engine cannot execute
// (reflect.TypeOf is modelled, a method call on its result is not): these
// documents are NOT part of VerifNoPanic_IntentConversion, see
// VerifNoPanic_IntentConversionLeaflistNotArray.
var v20JSONLeaflistNotArrayDocs = []string{
	/* 0 */ `{"leaflist":{"entry":null}}`,
	/* 1 */ `{"rangetestLeaflist":null}`,
	/* 2 */ `{"leaflist":{"entry":"a"}}`,
	/* 3 */ `{"leaflist":{"entry":{"a":1}}}`,
	/* 4 */ `{"rangetestLeaflist":5}`,
}

// v20ScalarKinds: the TypedValue kinds that are no JSON document. Only shapes
// the protobuf decoder can produce: a oneof member that is a message is never
// nil when set, repeated message elements are never nil; the oneof may be unset.
const v20ScalarKinds = 19

func v20ScalarTV(tag string, k int) *sdcpb.TypedValue {
	switch k {
	case 0:
		return &sdcpb.TypedValue{Value: &sdcpb.TypedValue_StringVal{StringVal: v20Str(tag + ".s")}}
	case 1:
		return &sdcpb.TypedValue{Value: &sdcpb.TypedValue_AsciiVal{AsciiVal: v20Str(tag + ".a")}}
	case 2:
		return &sdcpb.TypedValue{Value: &sdcpb.TypedValue_IntVal{IntVal: verifrt.Int64(tag + ".i")}}
	case 3:
		return &sdcpb.TypedValue{Value: &sdcpb.TypedValue_UintVal{UintVal: verifrt.Uint64(tag + ".u")}}
	case 4:
		return &sdcpb.TypedValue{Value: &sdcpb.TypedValue_BoolVal{BoolVal: verifrt.Bool(tag + ".b")}}
	case 5:
		return &sdcpb.TypedValue{Value: &sdcpb.TypedValue_DecimalVal{DecimalVal: &sdcpb.Decimal64{
			Digits: verifrt.Int64(tag + ".d"), Precision: uint32(verifrt.IntRange(tag+".p", 0, 20))}}}
	case 6:
		return &sdcpb.TypedValue{Value: &sdcpb.TypedValue_DecimalVal{DecimalVal: &sdcpb.Decimal64{}}}
	case 7:
		return &sdcpb.TypedValue{Value: &sdcpb.TypedValue_BytesVal{BytesVal: []byte("1")}}
	case 8:
		return &sdcpb.TypedValue{Value: &sdcpb.TypedValue_LeaflistVal{LeaflistVal: &sdcpb.ScalarArray{Element: []*sdcpb.TypedValue{
			{Value: &sdcpb.TypedValue_StringVal{StringVal: v20Str(tag + ".l")}}, {}}}}}
	case 9:
		return &sdcpb.TypedValue{Value: &sdcpb.TypedValue_LeaflistVal{LeaflistVal: &sdcpb.ScalarArray{}}}
	case 10:
		return &sdcpb.TypedValue{Value: &sdcpb.TypedValue_LeaflistVal{LeaflistVal: &sdcpb.ScalarArray{Element: []*sdcpb.TypedValue{
			{Value: &sdcpb.TypedValue_UintVal{UintVal: verifrt.Uint64(tag + ".lu")}},
			{Value: &sdcpb.TypedValue_LeaflistVal{LeaflistVal: &sdcpb.ScalarArray{}}},
			{Value: &sdcpb.TypedValue_JsonVal{JsonVal: []byte(`{"a":1}`)}}}}}}
	case 11:
		return &sdcpb.TypedValue{Value: &sdcpb.TypedValue_EmptyVal{}}
	case 12:
		return &sdcpb.TypedValue{Value: &sdcpb.TypedValue_IdentityrefVal{IdentityrefVal: &sdcpb.IdentityRef{}}}
	case 13:
		return &sdcpb.TypedValue{Value: &sdcpb.TypedValue_IdentityrefVal{IdentityrefVal: &sdcpb.IdentityRef{
			Value: v20Str(tag + ".idv"), Prefix: "sdcio_model_common", Module: "sdcio_model_common"}}}
	case 14:
		return &sdcpb.TypedValue{Value: &sdcpb.TypedValue_AnyVal{AnyVal: &anypb.Any{}}}
	case 15:
		return &sdcpb.TypedValue{} // oneof unset
	case 16:
		return &sdcpb.TypedValue{Value: &sdcpb.TypedValue_ProtoBytes{ProtoBytes: []byte{}}}
	case 17:
		return &sdcpb.TypedValue{Value: &sdcpb.TypedValue_DoubleVal{DoubleVal: 1.5}}
	default:
		return &sdcpb.TypedValue{Value: &sdcpb.TypedValue_FloatVal{FloatVal: 1.5}}
	}
}

// v20Value: "tvkind" 0 = a scalar kind, 1 = JSON document, 2 = the Update has
// no value at all. JSON documents are sent as json_val or json_ietf_val: with
// param ietf=1 both for every document, otherwise alternating by document
// number.
// reduced: only four representative values (used while the path shape varies).
func v20Value(tag string, reduced bool) *sdcpb.TypedValue {
	jsonTV := func(tag string, n int, b []byte) *sdcpb.TypedValue {
		ietf := n%2 == 1
		if verifrt.Param("ietf", 0) == 1 {
			ietf = verifrt.Choice(tag+"ietf", 2) == 1
		}
		if ietf {
			return &sdcpb.TypedValue{Value: &sdcpb.TypedValue_JsonIetfVal{JsonIetfVal: b}}
		}
		return &sdcpb.TypedValue{Value: &sdcpb.TypedValue_JsonVal{JsonVal: b}}
	}
	if reduced {
		switch verifrt.Choice(tag+"tvkind", 3) {
		case 0:
			return v20ScalarTV(tag, []int{0, 3}[verifrt.Choice(tag+"scalar", 2)])
		case 1:
			n := []int{13, 14, 44, 46}[verifrt.Choice(tag+"doc", 4)]
			return jsonTV(tag, n, []byte(v20JSONDocs[n]))
		default:
			return nil
		}
	}
	switch verifrt.Choice(tag+"tvkind", 3) {
	case 0:
		return v20ScalarTV(tag, verifrt.Choice(tag+"scalar", v20ScalarKinds))
	case 1:
		n := verifrt.Choice(tag+"doc", len(v20JSONDocs))
		return jsonTV(tag, n, []byte(v20JSONDocs[n]))
	default:
		return nil
	}
}

// v20ArbitraryPath: "path" 0 = over the schema, 1 = absent, 2 = origin / target
// set and an arbitrary element name. varyShape: key shapes of the first list
// element / a key on a non-list element vary; otherwise all keys are present
// (first one with an arbitrary value).
// The second result tells that the path carries a symbolic element name: the
// value is then taken from the reduced set (every value meets the same "unknown
// element" answer of the schema lookup).
func v20ArbitraryPath(varyShape bool, symKeys bool) (*sdcpb.Path, bool) {
	switch verifrt.Choice("path", 3) {
	case 0:
		t := verifrt.Choice("target", len(v20Targets))
		shape := 0
		nonListKey := false
		if varyShape {
			if v20HasList(t) {
				if symKeys {
					shape = 1 + verifrt.Choice("keyshape", v20KeyShapes-1) // shape 0 is what the other mode uses
				} else {
					shape = verifrt.Choice("keyshape", v20KeyShapes)
				}
			} else if len(v20Targets[t]) > 0 {
				nonListKey = true
			}
		}
		return v20Path(t, shape, nonListKey, symKeys, varyShape), false
	case 1:
		return nil, false
	default:
		name := "x:nosuch"
		if !varyShape {
			name = verifrt.String("elemname", 3, ":/ab")
		}
		return &sdcpb.Path{Origin: "o", Target: "t", Elem: []*sdcpb.PathElem{{Name: name}}}, !varyShape
	}
}

// v20Vary: with param wide=0 either the value varies over everything (path
// with all keys present) or the path shape varies (four representative
// values); with wide=1 both vary together. Returns (shape varies, value reduced).
func v20Vary() (bool, bool) {
	if verifrt.Param("wide", 0) == 1 {
		return verifrt.Choice("shapes", 2) == 1, false
	}
	if verifrt.Choice("vary", 2) == 0 {
		return false, false
	}
	return true, true
}

// ---------------------------------------------------------------------------

// VerifNoPanic_IntentConversion: TransactionIntent{intent, priority, flags,
// 1-2 updates} through SdcpbTransactionIntentToInternalTI.
func VerifNoPanic_IntentConversion() {
	env := vNewEnv()
	ctx := context.Background()

	req := &sdcpb.TransactionIntent{
		Intent:   verifrt.String("intent", 2, ""),
		Priority: verifrt.Int32("priority"),
	}
	if verifrt.Param("flags", 0) == 1 {
		f := verifrt.Choice("flags", 4)
		req.Delete, req.Orphan = f&1 != 0, f&2 != 0
	}

	varyShape, reduced := v20Vary()
	p, symName := v20ArbitraryPath(varyShape, true)
	upd := &sdcpb.Update{Path: p}
	upd.Value = v20Value("", reduced || symName)
	req.Update = []*sdcpb.Update{upd}
	if verifrt.Param("second", 0) == 1 && verifrt.Choice("second", 2) == 1 {
		// a second, valid update after the arbitrary one
		req.Update = append(req.Update, &sdcpb.Update{Path: vPath(vPE("interface", "name", "lo1"), vPE("mtu")), Value: vUintTV(1500)})
	}
	verifrt.Reach("built")
	ti, err := env.ds.SdcpbTransactionIntentToInternalTI(ctx, req)
	verifrt.Reach("returned")
	if err == nil {
		verifrt.Reach("converted")
		_ = ti.GetUpdates()
	}
}

// VerifNoPanic_IntentConversionLeaflistNotArray: an update on the root
// container whose JSON value holds a leaf-list member that is no array (null,
// string, object, number). Before fix b086e8f document 0
// ({"leaflist":{"entry":null}}) panicked in ExpandContainerValue
// (reflect.TypeOf(nil).Name()); the other documents return an error.
func VerifNoPanic_IntentConversionLeaflistNotArray() {
	env := vNewEnv()
	n := verifrt.Choice("doc", len(v20JSONLeaflistNotArrayDocs))
	req := &sdcpb.TransactionIntent{Intent: "i", Priority: 10, Update: []*sdcpb.Update{{
		Path:  &sdcpb.Path{},
		Value: &sdcpb.TypedValue{Value: &sdcpb.TypedValue_JsonVal{JsonVal: []byte(v20JSONLeaflistNotArrayDocs[n])}},
	}}}
	verifrt.Reach("built")
	_, _ = env.ds.SdcpbTransactionIntentToInternalTI(context.Background(), req)
	verifrt.Reach("returned")
}

// ---------------------------------------------------------------------------
// gNMI

const v20GnmiKinds = 16

func v20GnmiTV(tag string, k int) *gnmi.TypedValue {
	switch k {
	case 0:
		return &gnmi.TypedValue{Value: &gnmi.TypedValue_StringVal{StringVal: v20Str(tag + ".s")}}
	case 1:
		return &gnmi.TypedValue{Value: &gnmi.TypedValue_AsciiVal{AsciiVal: v20Str(tag + ".a")}}
	case 2:
		return &gnmi.TypedValue{Value: &gnmi.TypedValue_IntVal{IntVal: verifrt.Int64(tag + ".i")}}
	case 3:
		return &gnmi.TypedValue{Value: &gnmi.TypedValue_UintVal{UintVal: verifrt.Uint64(tag + ".u")}}
	case 4:
		return &gnmi.TypedValue{Value: &gnmi.TypedValue_BoolVal{BoolVal: verifrt.Bool(tag + ".b")}}
	case 5:
		return &gnmi.TypedValue{Value: &gnmi.TypedValue_BytesVal{BytesVal: []byte("1")}}
	case 6:
		return &gnmi.TypedValue{Value: &gnmi.TypedValue_FloatVal{FloatVal: 1.5}}
	case 7:
		return &gnmi.TypedValue{Value: &gnmi.TypedValue_DoubleVal{DoubleVal: 1.5}}
	case 8:
		return &gnmi.TypedValue{Value: &gnmi.TypedValue_DecimalVal{DecimalVal: &gnmi.Decimal64{
			Digits: verifrt.Int64(tag + ".d"), Precision: uint32(verifrt.IntRange(tag+".p", 0, 20))}}}
	case 9:
		return &gnmi.TypedValue{Value: &gnmi.TypedValue_DecimalVal{DecimalVal: &gnmi.Decimal64{}}}
	case 10:
		return &gnmi.TypedValue{Value: &gnmi.TypedValue_LeaflistVal{LeaflistVal: &gnmi.ScalarArray{Element: []*gnmi.TypedValue{
			{Value: &gnmi.TypedValue_StringVal{StringVal: v20Str(tag + ".l")}}, {Value: &gnmi.TypedValue_UintVal{UintVal: 10}}}}}}
	case 11:
		return &gnmi.TypedValue{Value: &gnmi.TypedValue_LeaflistVal{LeaflistVal: &gnmi.ScalarArray{}}}
	case 12:
		// an element with the oneof unset
		return &gnmi.TypedValue{Value: &gnmi.TypedValue_LeaflistVal{LeaflistVal: &gnmi.ScalarArray{Element: []*gnmi.TypedValue{
			{}, {Value: &gnmi.TypedValue_UintVal{UintVal: 10}}}}}}
	case 13:
		return &gnmi.TypedValue{Value: &gnmi.TypedValue_AnyVal{AnyVal: &anypb.Any{}}}
	case 14:
		return &gnmi.TypedValue{Value: &gnmi.TypedValue_ProtoBytes{ProtoBytes: []byte{}}}
	default:
		// a JSON document, as json_val / json_ietf_val like v20Value does
		n := verifrt.Choice(tag+"doc", len(v20JSONDocs))
		ietf := n%2 == 0
		if verifrt.Param("ietf", 0) == 1 {
			ietf = verifrt.Choice(tag+"ietf", 2) == 1
		}
		if ietf {
			return &gnmi.TypedValue{Value: &gnmi.TypedValue_JsonIetfVal{JsonIetfVal: []byte(v20JSONDocs[n])}}
		}
		return &gnmi.TypedValue{Value: &gnmi.TypedValue_JsonVal{JsonVal: []byte(v20JSONDocs[n])}}
	}
}

func v20ToGnmiPath(p *sdcpb.Path, prefixed bool) *gnmi.Path {
	if p == nil {
		return nil
	}
	g := &gnmi.Path{Origin: p.Origin, Target: p.Target}
	for _, e := range p.Elem {
		n := e.Name
		if prefixed {
			n = "sdcio_model:" + n // devices send module-prefixed element names
		}
		g.Elem = append(g.Elem, &gnmi.PathElem{Name: n, Key: e.Key})
	}
	return g
}

// VerifNoPanic_GnmiNotification: one notification (Get response or Subscribe
// update) with an arbitrary prefix / update path / value / delete path.
func VerifNoPanic_GnmiNotification() {
	env := vNewEnv()
	ctx := context.Background()

	n := &gnmi.Notification{Timestamp: verifrt.Int64("ts")}
	varyShape, reduced := v20Vary()
	full, symName := v20ArbitraryPath(varyShape, false)
	reduced = reduced || symName
	// element names with a module prefix; the path split between prefix and
	// update path in every way - while the path shape varies
	prefixed, split, msg := false, 0, 0
	if varyShape {
		if verifrt.Param("wide", 0) == 1 {
			prefixed = verifrt.Choice("prefixed", 2) == 1
			split = verifrt.Choice("split", 3)
		} else {
			// plain; module-prefixed names; all in the prefix; prefixed names with the first element in the prefix
			c := verifrt.Choice("prefixsplit", 4)
			prefixed = c == 1 || c == 3
			split = []int{0, 0, 1, 2}[c]
		}
		if verifrt.Param("wide", 0) == 1 {
			msg = verifrt.Choice("msg", 3)
		} else {
			msg = verifrt.Choice("msg", 2)
		}
	}
	gp := v20ToGnmiPath(full, prefixed)
	var updPath *gnmi.Path
	switch split {
	case 0: // no prefix
		updPath = gp
	case 1: // everything in the prefix, update path empty but present
		n.Prefix = gp
		updPath = &gnmi.Path{}
	default: // first element in the prefix
		if gp != nil && len(gp.Elem) > 0 {
			n.Prefix = &gnmi.Path{Origin: gp.Origin, Target: gp.Target, Elem: gp.Elem[:1]}
			updPath = &gnmi.Path{Elem: gp.Elem[1:]}
		} else {
			n.Prefix = &gnmi.Path{}
			updPath = gp
		}
	}
	// "val": 0 = one of the kinds, 1 = the Update carries no val, 2 = val with
	// the oneof unset
	var val *gnmi.TypedValue
	if msg != 1 {
		nval := 3
		if reduced {
			nval = 2 // absent value and unset oneof behave alike (FromGNMITypedValue returns nil for both)
		}
		switch verifrt.Choice("val", nval) {
		case 1:
		case 2:
			val = &gnmi.TypedValue{}
		default:
			switch {
			case !reduced:
				val = v20GnmiTV("", verifrt.Choice("gkind", v20GnmiKinds))
			case verifrt.Param("wide", 0) == 1 && verifrt.Choice("gkindReduced", 2) == 1:
				val = &gnmi.TypedValue{Value: &gnmi.TypedValue_JsonIetfVal{JsonIetfVal: []byte(v20JSONDocs[13])}}
			default:
				val = v20GnmiTV("", 0)
			}
		}
	}
	switch msg {
	case 0:
		n.Update = []*gnmi.Update{{Path: updPath, Val: val}}
	case 1:
		n.Delete = []*gnmi.Path{updPath}
	default:
		n.Update = []*gnmi.Update{{Path: updPath, Val: val}}
		n.Delete = []*gnmi.Path{updPath}
	}
	verifrt.Reach("built")

	sn := utils.ToSchemaNotification(n)
	verifrt.Reach("translated")

	sem := semaphore.NewWeighted(1)
	_ = sem.Acquire(ctx, 1)
	env.ds.storeSyncMsg(ctx, &target.SyncUpdate{Update: sn}, sem)
	verifrt.Reach("stored")
	// whatever the message was (stored, rejected by the converter, ...): the write-worker slot
	// Datastore.Sync acquired for it is free again, otherwise the sync loop stops for good
	// once as many messages as there are workers have been rejected
	verifrt.Assert(sem.TryAcquire(1), "C20-sync-worker-slot-released")
}
