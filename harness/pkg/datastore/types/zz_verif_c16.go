//go:build verif

package types

import (
	"context"
	"time"

	sdcpb "github.com/sdcio/sdc-protos/sdcpb"

	"github.com/sdcio/data-server/pkg/verifrt"
)

type vRollbacker struct {
	rollbacks int
}

func (r *vRollbacker) TransactionRollback(ctx context.Context, t *Transaction, dryRun bool) (*sdcpb.TransactionSetResponse, error) {
	r.rollbacks++
	return &sdcpb.TransactionSetResponse{}, nil
}

// vOpenTransaction registers transaction "t1" with a 1s rollback timer and
// starts the timer, as Datastore.TransactionSet does on success.
func vOpenTransaction() (*TransactionManager, *vRollbacker, *Transaction) {
	rb := &vRollbacker{}
	tm := NewTransactionManager(rb)
	tr := NewTransaction("t1", tm)
	tr.SetTimeout(time.Second)
	guard, err := tm.RegisterTransaction(context.Background(), tr)
	verifrt.Assert(err == nil, "register-ok")
	guard.Success()
	guard.Done()
	_ = tr.StartRollbackTimer()
	verifrt.AwaitQuiescence() // the timer goroutine is parked in its select
	return tm, rb, tr
}

// VerifTxnSequentialIds: sequential, id-scoped behaviour of Confirm/Cancel.
// op sequence of length 2 over {Confirm(id), Cancel(id)} with id in {"t1","other"}.
func VerifTxnSequentialIds() {
	tm, rb, _ := vOpenTransaction()
	open := true
	n := verifrt.Param("ops", 2)
	for i := 0; i < n; i++ {
		isConfirm := verifrt.Choice("op", 2) == 0
		right := verifrt.Choice("id", 2) == 0
		id := "other"
		if right {
			id = "t1"
		}
		before := rb.rollbacks
		var err error
		if isConfirm {
			err = tm.Confirm(id)
		} else {
			err = tm.Cancel(context.Background(), id)
		}
		verifrt.AwaitQuiescence() // let the timer goroutine react before the next call
		verifrt.Reach("op-done")
		if !open {
			verifrt.Assert(err != nil, "no-open-transaction-is-an-error")
			verifrt.Assert(rb.rollbacks == before, "no-open-transaction-no-rollback")
			continue
		}
		if !right {
			verifrt.Assert(err != nil, "wrong-id-fails")
			verifrt.Assert(rb.rollbacks == before, "wrong-id-no-rollback")
			_, gerr := tm.GetTransaction("t1")
			verifrt.Assert(gerr == nil, "wrong-id-leaves-transaction-open")
			continue
		}
		verifrt.Assert(err == nil, "right-id-succeeds")
		if isConfirm {
			verifrt.Assert(rb.rollbacks == before, "confirm-does-not-roll-back")
		} else {
			verifrt.Assert(rb.rollbacks == before+1, "cancel-rolls-back-once")
		}
		open = false
	}
	// after the timeout nothing further happens to a resolved transaction;
	// an unresolved one is rolled back exactly once and the manager is free.
	before := rb.rollbacks
	verifrt.Advance(2 * time.Second)
	verifrt.AwaitQuiescence()
	if open {
		verifrt.Assert(rb.rollbacks == before+1, "timeout-rolls-back-open-transaction-once")
	} else {
		verifrt.Assert(rb.rollbacks == before, "timeout-after-resolution-does-nothing")
	}
	tr2 := NewTransaction("t2", tm)
	_, err := tm.RegisterTransaction(context.Background(), tr2)
	verifrt.Assert(err == nil, "manager-free-after-timeout")
}

// VerifTxnTimerVsConfirm: the rollback timer expires while Confirm("t1") is
// issued concurrently. Every interleaving: no panic, no deadlock, at most one
// rollback, and a Confirm that returned nil is never followed by a rollback.
func VerifTxnTimerVsConfirm() {
	tm, rb, _ := vOpenTransaction()
	verifrt.Advance(2 * time.Second) // the timer is due from here on
	var cerr error
	done := false
	go func() {
		cerr = tm.Confirm("t1")
		done = true
	}()
	verifrt.AwaitQuiescence()
	verifrt.Reach("quiescent")
	verifrt.Assert(done, "confirm-returned")
	verifrt.Assert(rb.rollbacks <= 1, "at-most-one-rollback")
	if cerr == nil {
		verifrt.Assert(rb.rollbacks == 0, "confirmed-transaction-not-rolled-back")
	}
}

// VerifTxnTimerVsCancel: the timer expires while Cancel("t1") is issued.
func VerifTxnTimerVsCancel() {
	tm, rb, _ := vOpenTransaction()
	verifrt.Advance(2 * time.Second)
	var cerr error
	done := false
	go func() {
		cerr = tm.Cancel(context.Background(), "t1")
		done = true
	}()
	verifrt.AwaitQuiescence()
	verifrt.Reach("quiescent")
	verifrt.Assert(done, "cancel-returned")
	verifrt.Assert(rb.rollbacks <= 1, "at-most-one-rollback")
	if cerr == nil {
		verifrt.Assert(rb.rollbacks == 1, "cancelled-transaction-rolled-back-once")
	}
}

// VerifTxnConfirmVsCancel: Confirm and Cancel race on the open transaction (timer not due).
func VerifTxnConfirmVsCancel() {
	tm, rb, _ := vOpenTransaction()
	var e1, e2 error
	d1, d2 := false, false
	go func() { e1 = tm.Confirm("t1"); d1 = true }()
	go func() { e2 = tm.Cancel(context.Background(), "t1"); d2 = true }()
	verifrt.AwaitQuiescence()
	verifrt.Reach("quiescent")
	verifrt.Assert(d1 && d2, "both-returned")
	verifrt.Assert(rb.rollbacks <= 1, "at-most-one-rollback")
	verifrt.Assert(!(e1 == nil && e2 == nil), "not-both-succeed")
	if e1 == nil {
		verifrt.Assert(rb.rollbacks == 0, "confirmed-transaction-not-rolled-back")
	}
	if e2 == nil {
		verifrt.Assert(rb.rollbacks == 1, "cancelled-transaction-rolled-back-once")
	}
}

// VerifTxnThreeWay: the rollback timer of t1 expires while Confirm("t1") (kind 0) or
// Cancel("t1") (kind 1) is issued AND a competing TransactionSet keeps trying to register
// t2 (the retry loop of Datastore.TransactionSet). Every interleaving: t1 ends kept or
// rolled back exactly once in agreement with the answer the client got; a rollback is never
// executed for t1 after t2 took its place; t2, once registered, stays the open transaction
// (its own Confirm is accepted) - a stale expiry of t1 must not touch it.
func VerifTxnThreeWay() {
	tm, rb, _ := vOpenTransaction()
	kind := verifrt.Param("kind", 0)
	verifrt.Advance(2 * time.Second) // t1's timer is due from here on
	var cerr error
	cdone, rdone := false, false
	registered := false
	rollbacksAtRegistration := -1
	go func() {
		if kind == 0 {
			cerr = tm.Confirm("t1")
		} else {
			cerr = tm.Cancel(context.Background(), "t1")
		}
		cdone = true
	}()
	go func() {
		// the competing set: retries until the manager is free (bounded: 3 attempts)
		tr2 := NewTransaction("t2", tm)
		tr2.SetTimeout(time.Hour)
		for i := 0; i < 3 && !registered; i++ {
			guard, err := tm.RegisterTransaction(context.Background(), tr2)
			if err == nil {
				guard.Success()
				guard.Done()
				registered = true
				rollbacksAtRegistration = rb.rollbacks
			} else {
				verifrt.Yield("retry")
			}
		}
		rdone = true
	}()
	verifrt.AwaitQuiescence()
	verifrt.Reach("quiescent")
	verifrt.Assert(cdone && rdone, "all-returned")
	verifrt.Assert(rb.rollbacks <= 1, "at-most-one-rollback")
	if cerr == nil {
		if kind == 0 {
			verifrt.Assert(rb.rollbacks == 0, "confirmed-transaction-not-rolled-back")
		} else {
			verifrt.Assert(rb.rollbacks == 1, "cancelled-transaction-rolled-back-once")
		}
	} else {
		// refused: the timer got there first, t1 was rolled back by it
		verifrt.Assert(rb.rollbacks == 1, "refused-means-timer-rolled-back")
	}
	if registered {
		verifrt.Reach("t2-registered")
		verifrt.Assert(rb.rollbacks == rollbacksAtRegistration, "no-rollback-of-t1-after-t2-took-over")
		_, gerr := tm.GetTransaction("t2")
		verifrt.Assert(gerr == nil, "t2-stays-the-open-transaction")
		verifrt.Assert(tm.Confirm("t2") == nil, "t2-confirm-accepted")
	}
}

// VerifTxnShortTimeout: a transaction whose timeout is zero, negative or one nanosecond
// (protobuf-valid request values) is applied; the client then does nothing (op 0), confirms
// (op 1) or cancels (op 2) right away, racing with the timer that is due at once. Whatever
// happens: no panic, the transaction ends kept or rolled back exactly once in agreement with
// the client's answer, and the manager is free for the next transaction afterwards.
func VerifTxnShortTimeout() {
	rb := &vRollbacker{}
	tm := NewTransactionManager(rb)
	tr := NewTransaction("t1", tm)
	tr.SetTimeout([]time.Duration{0, -time.Second, time.Nanosecond}[verifrt.Choice("timeout", 3)])
	guard, err := tm.RegisterTransaction(context.Background(), tr)
	verifrt.Assert(err == nil, "register-ok")
	guard.Success()
	guard.Done()
	_ = tr.StartRollbackTimer()
	op := verifrt.Choice("op", 3)
	var cerr error
	done := op == 0
	if op != 0 {
		go func() {
			if op == 1 {
				cerr = tm.Confirm("t1")
			} else {
				cerr = tm.Cancel(context.Background(), "t1")
			}
			done = true
		}()
	}
	verifrt.AwaitQuiescence()
	verifrt.Advance(time.Second)
	verifrt.AwaitQuiescence()
	verifrt.Reach("quiescent")
	verifrt.Assert(done, "client-call-returned")
	verifrt.Assert(rb.rollbacks <= 1, "at-most-one-rollback")
	switch {
	case op == 1 && cerr == nil:
		verifrt.Assert(rb.rollbacks == 0, "confirmed-transaction-not-rolled-back")
	default:
		// nothing done, cancelled, or Confirm refused because the timer was first: rolled back once
		verifrt.Assert(rb.rollbacks == 1, "unconfirmed-transaction-rolled-back-once")
	}
	tr2 := NewTransaction("t2", tm)
	_, err = tm.RegisterTransaction(context.Background(), tr2)
	verifrt.Assert(err == nil, "manager-free-afterwards")
}
