//go:build verif

package netconf

// C20 - no device message crashes the server: the NETCONF <get-config> reply.
// ncTarget.Get hands the parsed reply (root element <data>) to
// XML2sdcpbConfigAdapter.Transform. The harness builds <data> documents of
// arbitrary shape over the test schema and runs the real Transform over the
// real SchemaClientBoundImpl. Nothing is asserted: a panic is the violation.

import (
	"context"

	"github.com/beevik/etree"
	sdcpb "github.com/sdcio/sdc-protos/sdcpb"

	schemaClient "github.com/sdcio/data-server/pkg/datastore/clients/schema"
	"github.com/sdcio/data-server/pkg/verifrt"
	"github.com/sdcio/data-server/pkg/verifschema"
)

const vc20ValAlphabet = "019-.:ae"

func vc20Str(tag string) string {
	return verifrt.String(tag, verifrt.Param("valLen", 3), vc20ValAlphabet)
}

// vc20xLeaf adds <name>text</name>: empty, arbitrary short text, text with
// surrounding white space, with attributes / namespace declaration, with a
// namespace prefix, or with element content where text is expected.
func vc20xLeaf(tag string, parent *etree.Element, name string) {
	switch verifrt.Choice(tag+".text", 6) {
	case 0: // <name/>
		parent.CreateElement(name)
	case 1:
		parent.CreateElement(name).SetText(vc20Str(tag + ".s"))
	case 2:
		parent.CreateElement(name).SetText(" " + vc20Str(tag+".s") + "\n")
	case 3:
		e := parent.CreateElement(name)
		e.CreateAttr("nc:operation", "delete")
		e.CreateAttr("xmlns", "urn:x")
		e.SetText(vc20Str(tag + ".s"))
	case 4:
		e := parent.CreateElement("p:" + name) // Space p, Tag name
		e.CreateAttr("xmlns:p", "urn:sdcio/model")
		e.SetText(vc20Str(tag + ".s"))
	default:
		e := parent.CreateElement(name)
		e.CreateElement("a").SetText("b")
		e.CreateText(vc20Str(tag + ".s"))
	}
}

// vc20Vary: as in the importer harnesses - with wide=0 either the key elements
// or the body of a list entry vary, with wide=1 both.
func vc20Vary(tag string) (bool, bool) {
	if verifrt.Param("wide", 0) == 1 {
		return true, true
	}
	if verifrt.Choice(tag+".vary", 2) == 0 {
		return true, false
	}
	return false, true
}

// vc20xKey adds the key child element: with text, empty, twice, with a
// namespace prefix, with element content. The ABSENT key child is a separate
// input class (see vc20xKeyAbsent).
func vc20xKey(tag string, vary bool, entry *etree.Element, key string) {
	if !vary {
		entry.CreateElement(key).SetText("lo1")
		return
	}
	switch verifrt.Choice(tag+".key", 5) {
	case 0:
		entry.CreateElement(key).SetText(vc20Str(tag + ".keyval"))
	case 1:
		entry.CreateElement(key) // <key/>
	case 2:
		entry.CreateElement(key).SetText(vc20Str(tag + ".keyval"))
		entry.CreateElement(key).SetText("lo2")
	case 3:
		entry.CreateElement("p:" + key).SetText(vc20Str(tag + ".keyval"))
	default:
		entry.CreateElement(key).CreateElement("a").SetText("lo1")
	}
}

func vc20xInterface(tag string, parent *etree.Element) {
	e := parent.CreateElement("interface")
	vk, vb := vc20Vary(tag)
	body := 6
	if vb {
		body = verifrt.Choice(tag+".body", 7)
	}
	if body == 6 {
		// key after the other children
		e.CreateElement("mtu").SetText("1500")
	}
	vc20xKey(tag, vk, e, "name")
	switch body {
	case 1:
		vc20xLeaf(tag+".mtu", e, "mtu")
	case 2:
		vc20xLeaf(tag+".description", e, "description")
		vc20xLeaf(tag+".admin-state", e, "admin-state")
	case 3:
		s := e.CreateElement("subinterface")
		svk, svb := vc20Vary(tag + ".sub")
		vc20xKey(tag+".sub", svk, s, "index")
		if svb {
			vc20xLeaf(tag+".sub.type", s, "type")
		}
	case 4:
		vc20xLeaf(tag+".nosuch", e, "nosuch")
	case 5:
		e.CreateText("text in a list entry")
		e.CreateComment("c")
	}
}

// vc20xData fills <data>.
func vc20xData(data *etree.Element) {
	switch verifrt.Choice("focus", 8) {
	case 0: // <data/>
	case 1:
		vc20xInterface("if.e0", data)
	case 2:
		data.CreateElement("interface").CreateElement("name").SetText("lo1")
		vc20xInterface("if.e0", data)
	case 3:
		e := data.CreateElement("doublekey")
		vk, vb := vc20Vary("dk")
		vc20xKey("dk.k1", vk, e, "key1")
		vc20xKey("dk.k2", vk, e, "key2")
		if !vb {
			break
		}
		switch verifrt.Choice("dk.body", 3) {
		case 1:
			vc20xLeaf("dk.mandato", e, "mandato")
		case 2:
			vc20xLeaf("dk.cont", e, "cont") // container with text
		}
	case 4: // leaf-list below a container
		ll := data.CreateElement("leaflist")
		switch verifrt.Choice("ll", 3) {
		case 0:
		case 1:
			vc20xLeaf("ll.e0", ll, "entry")
		default:
			vc20xLeaf("ll.e0", ll, "entry")
			vc20xLeaf("ll.e1", ll, "entry")
		}
	case 5:
		c := data.CreateElement("choices")
		switch verifrt.Choice("ch", 4) {
		case 0:
			c.CreateElement("case1") // presence
		case 1:
			vc20xLeaf("ch.case1", c, "case1")
		case 2:
			vc20xLeaf("ch.elem", c.CreateElement("case1").CreateElement("case-elem"), "elem")
		default:
			vc20xLeaf("ch.log1", c.CreateElement("case1"), "log")
			vc20xLeaf("ch.log2", c.CreateElement("case2"), "log")
		}
	case 6: // top-level leaves; names the schema does not know; a module name
		names := []string{"emptyconf", "patterntest", "rangetestsigned", "rangetestunsigned", "nosuch", "sdcio_model", ""}
		vc20xLeaf("leaf", data, names[verifrt.Choice("leaf", len(names))])
	default: // identityref, nested containers, leafref
		ni := data.CreateElement("network-instance")
		vk, vb := vc20Vary("ni")
		vc20xKey("ni", vk, ni, "name")
		if !vb {
			break
		}
		switch verifrt.Choice("ni.body", 5) {
		case 0:
			vc20xLeaf("ni.type", ni, "type")
		case 1:
			vc20xLeaf("ni.bgp", ni.CreateElement("protocol"), "bgp")
		case 2:
			vc20xLeaf("ni.protocol", ni, "protocol")
		case 3:
			i := ni.CreateElement("interface")
			i.CreateElement("name").SetText("lo1.0")
			r := i.CreateElement("interface-ref")
			vc20xLeaf("ni.ref.if", r, "interface")     // leafref
			vc20xLeaf("ni.ref.sub", r, "subinterface") // leafref
		default:
			bgp := ni.CreateElement("protocol").CreateElement("bgp")
			vc20xLeaf("ni.as", bgp, "autonomous-system")
			vc20xLeaf("ni.rid", bgp, "router-id")
		}
	}
}

func vc20Adapter() *XML2sdcpbConfigAdapter {
	scb := schemaClient.NewSchemaClientBound(&sdcpb.Schema{Name: "testschema", Vendor: "sdcio", Version: "v0.0.0"}, &verifschema.Client{})
	return NewXML2sdcpbConfigAdapter(scb)
}

// VerifNoPanic_NetconfTransform: Transform on <data> documents over the schema
// in which every list entry carries its key child element(s) in some form and
// leaf-lists appear below containers.
func VerifNoPanic_NetconfTransform() {
	doc := etree.NewDocument()
	if verifrt.Choice("doc", 2) == 1 {
		vc20xData(doc.CreateElement("data"))
	} // else: no root element at all
	verifrt.Reach("built")
	_, _ = vc20Adapter().Transform(context.Background(), doc)
	verifrt.Reach("returned")
}

// VerifNoPanic_NetconfTransformKeyAbsent: a list entry WITHOUT one of its key
// child elements (what a device answers to a filter that selects a non-key
// leaf only, or simply an incomplete entry).
func VerifNoPanic_NetconfTransformKeyAbsent() {
	doc := etree.NewDocument()
	data := doc.CreateElement("data")
	switch verifrt.Choice("list", 4) {
	case 0: // <interface><mtu>1500</mtu></interface>
		data.CreateElement("interface").CreateElement("mtu").SetText("1500")
	case 1: // <interface/>
		data.CreateElement("interface")
	case 2: // nested list entry without its key
		i := data.CreateElement("interface")
		i.CreateElement("name").SetText("lo1")
		i.CreateElement("subinterface").CreateElement("description").SetText("d")
	default: // second key missing
		e := data.CreateElement("doublekey")
		e.CreateElement("key1").SetText("a")
		e.CreateElement("mandato").SetText("m")
	}
	verifrt.Reach("built")
	_, _ = vc20Adapter().Transform(context.Background(), doc)
	verifrt.Reach("returned")
}

// VerifNoPanic_NetconfTransformTopLevelLeafList: a leaf-list that is a direct
// child of <data> (rangetestLeaflist is a top-level leaf-list of the schema).
func VerifNoPanic_NetconfTransformTopLevelLeafList() {
	doc := etree.NewDocument()
	data := doc.CreateElement("data")
	switch verifrt.Choice("shape", 4) {
	case 0: // <rangetestLeaflist>10</rangetestLeaflist>
		data.CreateElement("rangetestLeaflist").SetText("10")
	case 1: // two entries
		data.CreateElement("rangetestLeaflist").SetText("10")
		data.CreateElement("rangetestLeaflist").SetText("11")
	case 2: // <rangetestLeaflist/>
		data.CreateElement("rangetestLeaflist")
	default: // after a container
		data.CreateElement("leaflist").CreateElement("entry").SetText("a")
		data.CreateElement("rangetestLeaflist").SetText(vc20Str("text"))
	}
	verifrt.Reach("built")
	_, _ = vc20Adapter().Transform(context.Background(), doc)
	verifrt.Reach("returned")
}
