//go:build verif

package netconf

// C12 - the XML text of a NETCONF device becomes a typed value in
// XML2sdcpbConfigAdapter.Transform: leaves through transformField ->
// StringElementToTypedValue -> utils.Convert(text, leaf type); leaf-list
// entries through transformLeafList. The value must have the typed kind of the
// leaf's YANG type and denote what the text denotes - the same typed value the
// server makes of the same datum in a client's request (otherwise the device's
// value and the intended value of the same datum compare different).

import (
	"context"
	"strconv"

	"github.com/beevik/etree"
	sdcpb "github.com/sdcio/sdc-protos/sdcpb"

	"github.com/sdcio/data-server/pkg/verifrt"
)

func vc12Kind(tv *sdcpb.TypedValue) string {
	if tv == nil {
		return "no-value"
	}
	switch tv.GetValue().(type) {
	case *sdcpb.TypedValue_StringVal:
		return "StringVal"
	case *sdcpb.TypedValue_IntVal:
		return "IntVal"
	case *sdcpb.TypedValue_UintVal:
		return "UintVal"
	case *sdcpb.TypedValue_BoolVal:
		return "BoolVal"
	case *sdcpb.TypedValue_EmptyVal:
		return "EmptyVal"
	case *sdcpb.TypedValue_IdentityrefVal:
		return "IdentityrefVal"
	case *sdcpb.TypedValue_LeaflistVal:
		return "LeaflistVal"
	}
	return "other"
}

func vc12PathID(p *sdcpb.Path) string {
	s := ""
	for _, e := range p.GetElem() {
		s += "/" + e.GetName()
	}
	return s
}

// VerifC12NetconfXMLToValue: one leaf (or leaf-list) of the test schema in a
// <data> reply.
func VerifC12NetconfXMLToValue() {
	doc := etree.NewDocument()
	data := doc.CreateElement("data")
	leaves := []string{"uint16", "int32", "boolean", "empty", "enumeration", "identityref-qualified", "identityref-bare", "leaflist-of-strings", "leaflist-of-uints"}
	leaf := leaves[verifrt.Choice("leaf", len(leaves))]
	var id, kind string
	var payload func(tv *sdcpb.TypedValue) bool
	var entries []string // leaf-lists: texts in document order
	switch leaf {
	case "uint16":
		u := uint64(verifrt.IntRange("u", 1000, 9999))
		i := data.CreateElement("interface")
		i.CreateElement("name").SetText("lo1")
		i.CreateElement("mtu").SetText(strconv.FormatUint(u, 10))
		id, kind = "/interface/mtu", "UintVal"
		payload = func(tv *sdcpb.TypedValue) bool { return tv.GetUintVal() == u }
	case "int32":
		n := verifrt.IntRange("i", -3000, -1000)
		data.CreateElement("rangetestsigned").SetText(strconv.FormatInt(n, 10))
		id, kind = "/rangetestsigned", "IntVal"
		payload = func(tv *sdcpb.TypedValue) bool { return tv.GetIntVal() == n }
	case "boolean":
		b := verifrt.Choice("b", 2) == 1
		data.CreateElement("choices").CreateElement("case1").CreateElement("log").SetText(strconv.FormatBool(b))
		id, kind = "/choices/case1/log", "BoolVal"
		payload = func(tv *sdcpb.TypedValue) bool { return tv.GetBoolVal() == b }
	case "empty":
		data.CreateElement("emptyconf")
		id, kind = "/emptyconf", "EmptyVal"
		payload = func(tv *sdcpb.TypedValue) bool { return true }
	case "enumeration":
		s := []string{"enable", "disable"}[verifrt.Choice("name", 2)]
		i := data.CreateElement("interface")
		i.CreateElement("name").SetText("lo1")
		i.CreateElement("admin-state").SetText(s)
		id, kind = "/interface/admin-state", "StringVal"
		payload = func(tv *sdcpb.TypedValue) bool { return tv.GetStringVal() == s }
	case "identityref-qualified", "identityref-bare":
		s := []string{"routed", "bridged"}[verifrt.Choice("name", 2)]
		i := data.CreateElement("interface")
		i.CreateElement("name").SetText("ethernet-1/1")
		si := i.CreateElement("subinterface")
		si.CreateElement("index").SetText("5")
		t := si.CreateElement("type")
		if leaf == "identityref-qualified" {
			t.CreateAttr("xmlns:sdcio_model_common", "urn:sdcio/model_common")
			t.SetText("sdcio_model_common:" + s)
		} else {
			t.SetText(s)
		}
		id, kind = "/interface/subinterface/type", "IdentityrefVal"
		payload = func(tv *sdcpb.TypedValue) bool {
			r := tv.GetIdentityrefVal()
			return r.GetValue() == s && r.GetPrefix() == "sdcio_model_common" && r.GetModule() == "sdcio_model_common"
		}
	case "leaflist-of-strings":
		n := 2 + verifrt.Choice("entries", 2)
		c := data.CreateElement("leaflist")
		for k := 0; k < n; k++ {
			s := verifrt.String("e"+string(rune('0'+k)), 1, "ab")
			verifrt.Assume(len(s) == 1)
			c.CreateElement("entry").SetText(s)
			entries = append(entries, s)
		}
		id, kind = "/leaflist/entry", "StringVal"
	default:
		n := 1 + verifrt.Choice("entries", 2)
		for k := 0; k < n; k++ {
			s := strconv.FormatInt(verifrt.IntRange("e"+string(rune('0'+k)), 10, 99), 10)
			data.CreateElement("rangetestLeaflist").SetText(s)
			entries = append(entries, s)
		}
		id, kind = "/rangetestLeaflist", "UintVal"
	}
	verifrt.Reach("built")
	ns, err := vc20Adapter().Transform(context.Background(), doc)
	verifrt.Reach("transformed")
	pfx := "C12-netconf-xml-in/" + leaf + "/"
	verifrt.Assert(err == nil, pfx+"valid-value-accepted")
	if err != nil {
		return
	}
	var got *sdcpb.TypedValue
	cnt := 0
	for _, n := range ns {
		for _, u := range n.GetUpdate() {
			if vc12PathID(u.GetPath()) == id {
				got = u.GetValue()
				cnt++
			}
		}
	}
	verifrt.Assert(cnt == 1, pfx+"one-update-for-the-leaf")
	if cnt != 1 {
		return
	}
	if entries != nil {
		el := got.GetLeaflistVal().GetElement()
		verifrt.Assert(got.GetLeaflistVal() != nil && len(el) == len(entries), pfx+"one-entry-per-element")
		if len(el) != len(entries) {
			return
		}
		for _, e := range el {
			if vc12Kind(e) != kind {
				verifrt.Assert(false, pfx+"entry-has-the-kind-of-the-type/is-"+vc12Kind(e))
				return
			}
		}
		all := true
		for k, e := range el {
			if kind == "UintVal" {
				all = verifrt.And(all, strconv.FormatUint(e.GetUintVal(), 10) == entries[k])
			} else {
				all = verifrt.And(all, e.GetStringVal() == entries[k])
			}
		}
		verifrt.Assert(all, pfx+"entries-in-order")
		return
	}
	if vc12Kind(got) != kind {
		verifrt.Assert(false, pfx+"value-has-the-kind-of-the-type/is-"+vc12Kind(got))
		return
	}
	verifrt.Assert(payload(got), pfx+"same-datum")
}
