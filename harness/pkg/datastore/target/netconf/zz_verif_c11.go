//go:build verif

package netconf

import (
	"github.com/beevik/etree"
	sdcpb "github.com/sdcio/sdc-protos/sdcpb"

	"github.com/sdcio/data-server/pkg/verifrt"
)

// C11 - the NETCONF target addresses list entries in the device's XML document
// by the filter text pathElem2XPath builds from a path element.

const vc11Alphabet = "ac/_:=[] "

func vc11Val(name string) string {
	v := verifrt.String(name, verifrt.Param("valLen", 2), vc11Alphabet)
	verifrt.Assume(len(v) > 0)
	return v
}

func vc11Elem(tag string, keys int) *sdcpb.PathElem {
	switch keys {
	case 0:
		return &sdcpb.PathElem{Name: "c"}
	case 1:
		return &sdcpb.PathElem{Name: "l", Key: map[string]string{"k": vc11Val(tag + "k")}}
	}
	return &sdcpb.PathElem{Name: "m", Key: map[string]string{"c": vc11Val(tag + "c"), "a": vc11Val(tag + "a")}}
}

func vc11SameElem(a, b *sdcpb.PathElem) bool {
	if a.Name != b.Name || len(a.Key) != len(b.Key) {
		return false
	}
	r := true
	for k, v := range a.Key {
		r = verifrt.And(r, v == b.Key[k])
	}
	return r
}

// VerifPathElemXPathInjective: two different list entries never get the same
// filter text.
func VerifPathElemXPathInjective() {
	kp := verifrt.Choice("keysP", 3)
	kq := verifrt.Choice("keysQ", 3)
	p, q := vc11Elem("p", kp), vc11Elem("q", kq)
	a, errA := pathElem2XPath(p)
	b, errB := pathElem2XPath(q)
	verifrt.Reach("printed")
	verifrt.Assert(errA == nil && errB == nil, "xpath-built")
	verifrt.Assert(verifrt.Implies(a == b, vc11SameElem(p, q)), "same-filter-text-only-if-same-entry")
}

// VerifPathElemEtreePath: the filter text of every list entry is accepted by
// the XML library (otherwise the entry cannot be addressed on the device at
// all) - key values containing '/', ']' ... are legal YANG key values.
func VerifPathElemEtreePath() {
	p := vc11Elem("p", 1+verifrt.Choice("keys", 2))
	_, err := pathElem2EtreePath(p)
	verifrt.Observe("err", err != nil)
	verifrt.Reach("compiled")
	verifrt.Assert(err == nil, "filter-text-compiles")
}

// VerifPathElemSelects: XMLConfigBuilder.fastForward looks a list entry up with
// parent.FindElementPath(pathElem2EtreePath(pe)) and creates a new element
// (name + one child per key) when nothing is found. So, on a parent that holds
// exactly the element fastForward created for entry p, the lookup for entry q
// must find it iff q is the same entry - otherwise a second update to the same
// entry creates a duplicate list element, or an update to a different entry is
// written into p's element.
func VerifPathElemSelects() {
	keys := 1 + verifrt.Choice("keys", 2)
	p, q := vc11Elem("p", keys), vc11Elem("q", keys)
	parent := etree.NewElement("root")
	e := parent.CreateElement(p.Name)
	for _, k := range []string{"k", "c", "a"} {
		if v, ok := p.Key[k]; ok {
			e.CreateElement(k).CreateText(v)
		}
	}
	path, err := pathElem2EtreePath(q)
	if err != nil {
		return // covered by VerifPathElemEtreePath
	}
	verifrt.Reach("compiled")
	found := parent.FindElementPath(path)
	verifrt.Observe("found", found != nil)
	same := vc11SameElem(p, q)
	verifrt.Assert(verifrt.Implies(same, found != nil), "same-entry-is-found")
	verifrt.Assert(verifrt.Implies(found != nil, same), "other-entry-is-not-found")
}
