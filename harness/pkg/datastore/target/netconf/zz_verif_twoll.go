//go:build verif

package netconf

import (
	"context"

	"github.com/beevik/etree"
	schemaClient "github.com/sdcio/data-server/pkg/datastore/clients/schema"
	sdcpb "github.com/sdcio/sdc-protos/sdcpb"
	"google.golang.org/grpc"

	"github.com/sdcio/data-server/pkg/verifrt"
	"github.com/sdcio/data-server/pkg/verifschema"
)

// vcTwoLLSchema is the generated test schema with ONE addition: the container "leaflist" holds
// a second leaf-list "entry2" (a copy of "entry"). The test YANG has no container with two
// leaf-lists, and the adapter collects the leaf-lists of one container in one context.
type vcTwoLLSchema struct {
	*verifschema.Client
}

func (c *vcTwoLLSchema) GetSchema(ctx context.Context, in *sdcpb.GetSchemaRequest, opts ...grpc.CallOption) (*sdcpb.GetSchemaResponse, error) {
	es := in.GetPath().GetElem()
	if len(es) == 2 && es[0].GetName() == "leaflist" && es[1].GetName() == "entry2" {
		rsp := verifschema.Lookup("leaflist/entry")
		rsp.GetSchema().GetLeaflist().Name = "entry2"
		return rsp, nil
	}
	rsp, err := c.Client.GetSchema(ctx, in, opts...)
	if err != nil {
		return rsp, err
	}
	if len(es) == 1 && es[0].GetName() == "leaflist" {
		second := verifschema.Lookup("leaflist/entry").GetSchema().GetLeaflist()
		second.Name = "entry2"
		rsp.GetSchema().GetContainer().Leaflists = append(rsp.GetSchema().GetContainer().Leaflists, second)
	}
	return rsp, nil
}

// VerifNetconfTwoLeafLists: a <data> reply whose container holds elements of TWO leaf-lists, in
// any interleaving of 2..3 elements. The adapter must report every leaf-list once, under its own
// instance path, with its own values in document order (C11: a read never confuses two instance
// paths; C12: the value read is the value the device holds).
func VerifNetconfTwoLeafLists() {
	doc := etree.NewDocument()
	data := doc.CreateElement("data")
	c := data.CreateElement("leaflist")
	n := 2 + verifrt.Choice("elements", 2)
	want := map[string][]string{}
	for k := 0; k < n; k++ {
		name := []string{"entry", "entry2"}[verifrt.Choice("list"+string(rune('0'+k)), 2)]
		s := verifrt.String("e"+string(rune('0'+k)), 1, "ab")
		verifrt.Assume(len(s) == 1)
		c.CreateElement(name).SetText(s)
		want[name] = append(want[name], s)
	}
	verifrt.Reach("built")
	scb := schemaClient.NewSchemaClientBound(&sdcpb.Schema{Name: "testschema", Vendor: "sdcio", Version: "v0.0.0"}, &vcTwoLLSchema{&verifschema.Client{}})
	ns, err := NewXML2sdcpbConfigAdapter(scb).Transform(context.Background(), doc)
	verifrt.Reach("transformed")
	verifrt.Assert(err == nil, "C12-netconf-xml-in/two-leaflists/valid-value-accepted")
	if err != nil {
		return
	}
	got := map[string]*sdcpb.TypedValue{}
	cnt := map[string]int{}
	for _, no := range ns {
		for _, u := range no.GetUpdate() {
			id := vc12PathID(u.GetPath())
			cnt[id]++
			got[id] = u.GetValue()
		}
	}
	for _, name := range []string{"entry", "entry2"} {
		id := "/leaflist/" + name
		w := want[name]
		if len(w) == 0 {
			verifrt.Assert(cnt[id] == 0, "C11-netconf-read-no-update-for-an-absent-instance-path")
			continue
		}
		verifrt.Assert(cnt[id] >= 1, "C12-netconf-xml-in/two-leaflists/value-of-each-leaf-list-is-reported")
		verifrt.Assert(cnt[id] == 1, "C11-netconf-read-one-update-per-instance-path")
		if cnt[id] != 1 {
			continue
		}
		el := got[id].GetLeaflistVal().GetElement()
		verifrt.Assert(len(el) == len(w), "C11-netconf-read-values-stay-with-their-instance-path")
		verifrt.Assert(len(el) == len(w), "C12-netconf-xml-in/two-leaflists/one-entry-per-element")
		if len(el) != len(w) {
			continue
		}
		all := true
		for k, e := range el {
			all = verifrt.And(all, e.GetStringVal() == w[k])
		}
		verifrt.Assert(all, "C11-netconf-read-values-stay-with-their-instance-path")
		verifrt.Assert(all, "C12-netconf-xml-in/two-leaflists/entries-in-order")
	}
	for id := range cnt {
		verifrt.Assert(id == "/leaflist/entry" || id == "/leaflist/entry2", "C11-netconf-read-reports-only-paths-in-the-reply")
	}
}
