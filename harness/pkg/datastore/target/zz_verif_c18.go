//go:build verif

package target

import (
	"context"
	"errors"
	"strings"
	"sync"

	"github.com/beevik/etree"
	sdcpb "github.com/sdcio/sdc-protos/sdcpb"

	"github.com/sdcio/data-server/pkg/config"
	"github.com/sdcio/data-server/pkg/datastore/target/netconf/types"
	"github.com/sdcio/data-server/pkg/verifrt"
)

// ---- recording / fault-injecting netconf.Driver ----

const (
	vncOpEdit = iota + 1
	vncOpCommit
	vncOpDiscard
	vncOpClose
	vncOpOther // Get, GetConfig, Lock, Unlock, Validate: none is expected during Set
)

// outcomes of a driver rpc
const (
	vncOutOK      = iota // <rpc-reply><ok/></rpc-reply>, nil error
	vncOutWarning        // nil error, reply carries an rpc-error of severity "warning"
	vncOutEOF            // transport died: error text contains "EOF"
	vncOutError          // any other error (e.g. rpc-error of severity "error": the real driver turns it into an error)
)

type vncCall struct {
	op     int
	ds     string // datastore argument of EditConfig
	cfg    string // config argument of EditConfig
	failed bool
	eof    bool // failed with a dead transport
}

type vncDriver struct {
	// outcomes each rpc may have on this run (picked by Choice per call)
	editOuts, commitOuts, discardOuts []int

	calls  []vncCall
	closed bool
	// free text inside the error of a rejected rpc ("" = a fixed text)
	errText string

	// device model: content of the candidate datastore not yet committed, and
	// what every successful commit / direct edit made effective.
	pending   []string
	committed [][]string

	// hooks run while the rpc is "on the wire" (the requester's context ending meanwhile)
	duringEdit, duringCommit func()
}

func vncReply(warning bool) *types.NetconfResponse {
	doc := etree.NewDocument()
	r := doc.CreateElement("rpc-reply")
	if warning {
		e := r.CreateElement("rpc-error")
		e.CreateElement("error-type").SetText("application")
		e.CreateElement("error-tag").SetText("operation-failed")
		e.CreateElement("error-severity").SetText("warning")
		e.CreateElement("error-message").SetText("w")
	}
	r.CreateElement("ok")
	return types.NewNetconfResponse(doc)
}

func (d *vncDriver) err(out int) error {
	switch out {
	case vncOutEOF:
		return errors.New("read tcp: unexpected EOF")
	case vncOutError:
		if d.errText != "" {
			// the text of the real driver's error for a rejected rpc (scrapligo response.OperationError):
			// it quotes the rpc sent and the device's reply - free text the device / the operator chose
			return errors.New("operation error from input '<edit-config/>'. matched error sub-string 'rpc-error'. full output: '<rpc-error><error-message>" + d.errText + "</error-message></rpc-error>'")
		}
		return errors.New("operation failed: rpc-error")
	}
	return nil
}

func vncPick(name string, outs []int) int {
	if len(outs) == 1 {
		return outs[0]
	}
	return outs[verifrt.Choice(name, len(outs))]
}

func (d *vncDriver) rec(c vncCall) { d.calls = append(d.calls, c) }

func (d *vncDriver) EditConfig(target string, cfg string) (*types.NetconfResponse, error) {
	if d.duringEdit != nil {
		d.duringEdit()
	}
	out := vncPick("edit", d.editOuts)
	err := d.err(out)
	d.rec(vncCall{op: vncOpEdit, ds: target, cfg: cfg, failed: err != nil, eof: out == vncOutEOF})
	if target == "candidate" {
		// a failing edit-config may have been applied in part (RFC 6241
		// default error-option stop-on-error): the candidate is dirty either way
		d.pending = append(d.pending, cfg)
	} else if err == nil {
		d.committed = append(d.committed, []string{cfg})
	}
	if err != nil {
		return nil, err
	}
	return vncReply(out == vncOutWarning), nil
}

func (d *vncDriver) Commit() error {
	if d.duringCommit != nil {
		d.duringCommit()
	}
	out := vncPick("commit", d.commitOuts)
	err := d.err(out)
	d.rec(vncCall{op: vncOpCommit, failed: err != nil, eof: out == vncOutEOF})
	if err == nil {
		d.committed = append(d.committed, d.pending)
		d.pending = nil
	}
	return err
}

func (d *vncDriver) Discard() error {
	out := vncPick("discard", d.discardOuts)
	err := d.err(out)
	d.rec(vncCall{op: vncOpDiscard, failed: err != nil, eof: out == vncOutEOF})
	if err == nil {
		d.pending = nil
	}
	return err
}

func (d *vncDriver) Close() error {
	d.rec(vncCall{op: vncOpClose})
	d.closed = true
	return nil
}

func (d *vncDriver) IsAlive() bool { return !d.closed }

func (d *vncDriver) other() (*types.NetconfResponse, error) {
	d.rec(vncCall{op: vncOpOther})
	return vncReply(false), nil
}
func (d *vncDriver) Get(filter string) (*types.NetconfResponse, error) { return d.other() }
func (d *vncDriver) GetConfig(source string, filter string) (*types.NetconfResponse, error) {
	return d.other()
}
func (d *vncDriver) Lock(target string) (*types.NetconfResponse, error)     { return d.other() }
func (d *vncDriver) Unlock(target string) (*types.NetconfResponse, error)   { return d.other() }
func (d *vncDriver) Validate(source string) (*types.NetconfResponse, error) { return d.other() }

// ---- TargetSource stub ----

const (
	vncDocEmpty = iota // no change
	vncDocA            // one element
	vncDocFail         // ToXML fails
	vncDocB            // another one-element change
)

type vncSource struct {
	kind    int
	xmlArgs [4]bool
	xmlCall int
}

func vncChangeDoc(kind int) *etree.Document {
	doc := etree.NewDocument()
	switch kind {
	case vncDocA:
		e := doc.CreateElement("interface")
		e.CreateElement("name").SetText("e<1>")
		e.CreateElement("mtu").SetText("1500")
	case vncDocB:
		e := doc.CreateElement("system").CreateElement("name")
		e.CreateAttr("operation", "delete")
	}
	return doc
}

func (s *vncSource) ToJson(onlyNewOrUpdated bool) (any, error)     { return nil, errors.New("unused") }
func (s *vncSource) ToJsonIETF(onlyNewOrUpdated bool) (any, error) { return nil, errors.New("unused") }
func (s *vncSource) ToProtoUpdates(ctx context.Context, onlyNewOrUpdated bool) ([]*sdcpb.Update, error) {
	return nil, errors.New("unused")
}
func (s *vncSource) ToProtoDeletes(ctx context.Context) ([]*sdcpb.Path, error) {
	return nil, errors.New("unused")
}
func (s *vncSource) ToXML(onlyNewOrUpdated bool, honorNamespace bool, operationWithNamespace bool, useOperationRemove bool) (*etree.Document, error) {
	s.xmlCall++
	s.xmlArgs = [4]bool{onlyNewOrUpdated, honorNamespace, operationWithNamespace, useOperationRemove}
	if s.kind == vncDocFail {
		return nil, errors.New("tree cannot be rendered")
	}
	return vncChangeDoc(s.kind), nil
}

func vncTarget(drv *vncDriver, ds string, includeNS, opWithNS, useRemove bool) *ncTarget {
	t := &ncTarget{
		name:   "dev1",
		driver: drv,
		m:      new(sync.Mutex),
		sbiConfig: &config.SBI{
			Type:    "netconf",
			Address: "192.0.2.1",
			Port:    830,
			NetconfOptions: &config.SBINetconfOptions{
				IncludeNS:              includeNS,
				OperationWithNamespace: opWithNS,
				UseOperationRemove:     useRemove,
				CommitDatastore:        ds,
			},
		},
	}
	// The reconnect goroutine that Set spawns on a dead connection dials the
	// device through the real scrapligo driver; it is outside this property.
	// It first takes t.m, so holding t.m keeps it parked. Set itself never
	// takes t.m.
	t.m.Lock()
	return t
}

// vncFailedCall returns the first failing edit-config/commit.
func vncFailedCall(d *vncDriver) (vncCall, bool) {
	for _, c := range d.calls {
		if (c.op == vncOpEdit || c.op == vncOpCommit) && c.failed {
			return c, true
		}
	}
	return vncCall{}, false
}

// vncNetconfSet: one ncTarget.Set with every driver failure point.
func vncNetconfSet(editOuts []int) {
	candidate := verifrt.Choice("candidate", 2) == 1
	opts := verifrt.Choice("opts", 8)
	includeNS, opWithNS, useRemove := opts&1 != 0, opts&2 != 0, opts&4 != 0
	docKind := verifrt.Choice("doc", 3) // vncDocEmpty, vncDocA, vncDocFail
	startAlive := verifrt.Choice("alive", 2) == 1

	ds := "running"
	if candidate {
		ds = "candidate"
	}
	drv := &vncDriver{
		closed:      !startAlive,
		editOuts:    editOuts,
		commitOuts:  []int{vncOutOK, vncOutEOF, vncOutError},
		discardOuts: []int{vncOutOK, vncOutEOF, vncOutError},
	}
	if verifrt.Param("errtext", 0) == 1 {
		// the device's rpc-error carries an arbitrary short text
		drv.errText = verifrt.Chars("errtext", 3, "EOFeof")
	}
	src := &vncSource{kind: docKind}
	t := vncTarget(drv, ds, includeNS, opWithNS, useRemove)

	wantDoc, _ := vncChangeDoc(docKind).WriteToString()

	// param "ctxend" = 1: the requester's context may end before the Set, while the edit-config
	// rpc is on the wire, or while the commit is (the device does what it was asked either way)
	ctx, cancel := context.WithCancel(context.Background())
	defer cancel()
	ctxEnd := 0
	if verifrt.Param("ctxend", 0) == 1 {
		ctxEnd = verifrt.Choice("ctxend", 4)
		switch ctxEnd {
		case 1:
			cancel()
		case 2:
			drv.duringEdit = cancel
		case 3:
			drv.duringCommit = cancel
		}
	}
	resp, err := t.Set(ctx, src)
	verifrt.Reach("set-returned")

	// digest of the recorded rpc sequence (Close is not an rpc)
	var seq []int
	edits, commits, discards, others := 0, 0, 0, 0
	failedAt := -1 // index in seq of the first failing edit-config/commit
	discardAfterFail, commitAfterFail := false, false
	editDSok, editCfgOK := true, true
	for _, c := range drv.calls {
		if c.op == vncOpClose {
			continue
		}
		seq = append(seq, c.op)
		switch c.op {
		case vncOpEdit:
			edits++
			if c.ds != ds {
				editDSok = false
			}
			if c.cfg != wantDoc {
				editCfgOK = false
			}
		case vncOpCommit:
			commits++
			if failedAt >= 0 {
				commitAfterFail = true
			}
		case vncOpDiscard:
			discards++
			if failedAt >= 0 {
				discardAfterFail = true
			}
		case vncOpOther:
			others++
		}
		if (c.op == vncOpEdit || c.op == vncOpCommit) && c.failed && failedAt < 0 {
			failedAt = len(seq) - 1
		}
	}
	verifrt.Observe("nseq", len(seq))

	sourceFailed := docKind == vncDocFail
	anyFailure := !startAlive || sourceFailed || failedAt >= 0

	// an error is returned iff something failed (a requester that went away may get either answer)
	if ctxEnd == 0 {
		verifrt.Assert((err != nil) == anyFailure, "error-iff-a-call-failed")
	} else if anyFailure {
		verifrt.Assert(err != nil, "error-iff-a-call-failed")
	}
	// whatever the answer: over a session that is still alive, with a device that accepts the
	// discard, nothing uncommitted stays in the candidate, and an error means nothing took effect
	sessionDied, discardFailed := false, false
	for _, c := range drv.calls {
		if c.eof {
			sessionDied = true
		}
		if c.op == vncOpDiscard && c.failed {
			discardFailed = true
		}
	}
	if candidate && startAlive && !sessionDied && !discardFailed {
		if strings.Contains(drv.errText, "EOF") && failedAt >= 0 {
			// (situation: the device rejected an rpc with a text containing "EOF", which the
			// target takes for a dead transport - same defect as discard-after-rejected-rpc/...)
			if len(drv.pending) != 0 {
				verifrt.Assert(false, "no-uncommitted-leftover-in-the-candidate/device-error-text-contains-EOF")
			}
		} else {
			verifrt.Assert(len(drv.pending) == 0, "no-uncommitted-leftover-in-the-candidate")
		}
	}
	if err != nil && ctxEnd != 0 && failedAt < 0 && !sourceFailed && startAlive {
		// the only "failure" is the requester's context: either the change was not sent at all or
		// it was carried through; an error with the change half-way is the one thing excluded
		verifrt.Assert(len(drv.pending) == 0 || sessionDied, "requester-gone-leaves-no-half-done-change")
	}
	if err == nil {
		verifrt.Assert(resp != nil, "success-has-response")
	}

	// invariants of every run
	verifrt.Assert(others == 0, "no-unrelated-rpc")
	verifrt.Assert(edits <= 1, "at-most-one-edit-config")
	verifrt.Assert(commits <= 1, "at-most-one-commit")
	verifrt.Assert(editDSok, "edit-config-goes-to-the-configured-datastore")
	verifrt.Assert(editCfgOK, "edit-config-carries-the-change-document")
	verifrt.Assert(!commitAfterFail, "no-commit-after-a-failure")
	if !candidate {
		verifrt.Assert(commits == 0, "running-never-commits")
	}
	if src.xmlCall > 0 {
		verifrt.Assert(src.xmlArgs == [4]bool{true, includeNS, opWithNS, useRemove}, "change-rendered-with-the-configured-options")
	}

	switch {
	case !startAlive:
		verifrt.Reach("not-connected")
		verifrt.Assert(len(seq) == 0, "not-connected-sends-nothing")
	case sourceFailed:
		verifrt.Reach("source-failed")
		verifrt.Assert(len(seq) == 0, "unrenderable-change-sends-nothing")
	case docKind == vncDocEmpty:
		verifrt.Reach("empty-change")
		verifrt.Assert(len(seq) == 0, "empty-change-sends-nothing")
		verifrt.Assert(err == nil, "empty-change-is-no-error")
	case candidate && failedAt < 0 && ctxEnd != 0 && err != nil:
		// the requester went away and the target gave up: nothing may have taken effect
		verifrt.Reach("candidate-requester-gone")
		verifrt.Assert(len(drv.committed) == 0 || commits == 1, "requester-gone-commits-at-most-once")
	case candidate && failedAt < 0:
		verifrt.Reach("candidate-success")
		verifrt.Assert(len(seq) == 2 && seq[0] == vncOpEdit && seq[1] == vncOpCommit, "candidate-success-is-edit-then-commit")
		verifrt.Assert(len(drv.committed) == 1 && len(drv.committed[0]) == 1 && drv.committed[0][0] == wantDoc, "candidate-success-commits-the-change")
	case candidate:
		verifrt.Reach("candidate-failure")
		fc, _ := vncFailedCall(drv)
		if fc.op == vncOpEdit {
			verifrt.Reach("candidate-edit-failed")
		} else {
			verifrt.Reach("candidate-commit-failed")
		}
		verifrt.Assert(len(drv.committed) == 0, "failed-change-is-not-committed")
		if !fc.eof {
			// live connection: the candidate must be cleaned before Set returns
			switch {
			case strings.Contains(drv.errText, "EOF") && !discardAfterFail:
				// the device rejected the rpc over a live session, and its error text happens to contain "EOF"
				verifrt.Assert(false, "discard-after-rejected-rpc/device-error-text-contains-EOF")
			case fc.op == vncOpEdit:
				verifrt.Assert(discardAfterFail, "discard-after-failed-edit-config")
			default:
				verifrt.Assert(discardAfterFail, "discard-after-failed-commit")
			}
			verifrt.Assert(discards <= 1, "at-most-one-discard")
		} else {
			// nothing can be sent on a dead transport
			verifrt.Reach("candidate-connection-died")
		}
	case ctxEnd != 0 && err != nil && failedAt < 0:
		verifrt.Reach("running-requester-gone")
		verifrt.Assert(edits <= 1, "running-exactly-one-edit-config")
	default: // running
		verifrt.Reach("running-with-change")
		verifrt.Assert(edits == 1, "running-exactly-one-edit-config")
		verifrt.Assert(len(seq) == 1, "running-nothing-but-the-edit-config")
	}
}

// VerifNetconfSet: C18 on one ncTarget.Set. edit-config outcomes: ok, ok with
// a reply carrying an rpc-error of severity "warning" (not a failure), dead
// connection, error.
func VerifNetconfSet() {
	vncNetconfSet([]int{vncOutOK, vncOutWarning, vncOutEOF, vncOutError})
}

// VerifNetconfSetNoLeftovers: two consecutive transactions on a candidate
// target over a live connection (edit-config and commit may be rejected by
// the device, discard works). After every Set the candidate holds nothing
// uncommitted, and every commit makes exactly the change of its own Set
// effective.
func VerifNetconfSetNoLeftovers() {
	drv := &vncDriver{
		editOuts:    []int{vncOutOK, vncOutError},
		commitOuts:  []int{vncOutOK, vncOutError},
		discardOuts: []int{vncOutOK},
	}
	t := vncTarget(drv, "candidate", false, false, false)
	docA, _ := vncChangeDoc(vncDocA).WriteToString()
	docB, _ := vncChangeDoc(vncDocB).WriteToString()

	_, errA := t.Set(context.Background(), &vncSource{kind: vncDocA})
	verifrt.Reach("first-set-returned")
	cleanA := len(drv.pending) == 0
	nA := len(drv.committed)

	_, errB := t.Set(context.Background(), &vncSource{kind: vncDocB})
	verifrt.Reach("second-set-returned")
	cleanB := len(drv.pending) == 0

	// what became effective on the device
	if errA == nil {
		verifrt.Assert(nA == 1 && len(drv.committed[0]) == 1 && drv.committed[0][0] == docA, "first-commit-is-exactly-first-change")
	} else {
		verifrt.Assert(nA == 0, "failed-first-set-commits-nothing")
	}
	if errB == nil {
		verifrt.Reach("second-set-succeeded")
		verifrt.Assert(len(drv.committed) == nA+1, "second-set-commits-once")
		if len(drv.committed) > 0 {
			last := drv.committed[len(drv.committed)-1]
			verifrt.Assert(len(last) == 1 && last[0] == docB, "second-commit-is-exactly-second-change")
		}
	} else {
		verifrt.Assert(len(drv.committed) == nA, "failed-second-set-commits-nothing")
	}
	// what was left behind in the candidate
	verifrt.Assert(cleanA, "candidate-clean-after-first-set")
	verifrt.Assert(cleanB, "candidate-clean-after-second-set")
}
