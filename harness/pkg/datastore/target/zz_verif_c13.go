//go:build verif

package target

// C13 (NETCONF side): every re-sync that ncTarget.internalSync performs reaches the
// datastore as a COMPLETE cycle - start, one message per notification, end - whatever the
// device answered, in particular when the answer is empty ("no configuration"): only a
// completed cycle makes Datastore.Sync prune what the device no longer reports.

import (
	"context"
	"errors"
	"sync"

	"github.com/beevik/etree"

	"github.com/sdcio/data-server/pkg/config"
	schemaClient "github.com/sdcio/data-server/pkg/datastore/clients/schema"
	"github.com/sdcio/data-server/pkg/datastore/target/netconf"
	"github.com/sdcio/data-server/pkg/datastore/target/netconf/types"
	"github.com/sdcio/data-server/pkg/verifrt"
	"github.com/sdcio/data-server/pkg/verifschema"
	sdcpb "github.com/sdcio/sdc-protos/sdcpb"
)

// vsyncDriver answers get-config with a configuration of `ifaces` interfaces
// (0 = the empty reply <data/>) or fails.
type vsyncDriver struct {
	vncDriver
	ifaces int
	fail   int // 0 ok, 1 dead transport, 2 other error
	gets   int
}

func (d *vsyncDriver) GetConfig(source string, filter string) (*types.NetconfResponse, error) {
	d.gets++
	switch d.fail {
	case 1:
		return nil, errors.New("read tcp: unexpected EOF")
	case 2:
		return nil, errors.New("operation failed: rpc-error")
	}
	doc := etree.NewDocument()
	data := doc.CreateElement("data")
	names := []string{"lo1", "lo10", "ethernet-1/1"}
	for i := 0; i < d.ifaces; i++ {
		e := data.CreateElement("interface")
		e.CreateElement("name").SetText(names[i])
		e.CreateElement("mtu").SetText("1500")
	}
	return types.NewNetconfResponse(doc), nil
}

// VerifNetconfSyncProtocol: one internalSync against a device holding 0..3 interfaces (or a
// failing get-config): the messages put on the sync channel are exactly
// start(force) , one update per top-level element , end - or nothing at all when the get failed.
func VerifNetconfSyncProtocol() {
	drv := &vsyncDriver{ifaces: verifrt.Choice("ifaces", 4), fail: verifrt.Choice("fail", 3)}
	scb := schemaClient.NewSchemaClientBound(&sdcpb.Schema{Name: "testschema", Vendor: "sdcio", Version: "v0.0.0"}, &verifschema.Client{})
	t := &ncTarget{
		name:             "dev1",
		driver:           drv,
		m:                new(sync.Mutex),
		schemaClient:     scb,
		xml2sdcpbAdapter: netconf.NewXML2sdcpbConfigAdapter(scb),
		sbiConfig: &config.SBI{Type: "netconf", Address: "192.0.2.1", Port: 830,
			NetconfOptions: &config.SBINetconfOptions{CommitDatastore: "candidate"}},
	}
	t.m.Lock() // parks the reconnect goroutine a dead transport spawns (it dials the real device)
	force := verifrt.Bool("force")
	ch := make(chan *SyncUpdate, 16)
	verifrt.Reach("built")
	t.internalSync(context.Background(), &config.SyncProtocol{Name: "config", Protocol: "netconf", Paths: []string{"/interface"}}, force, ch)
	verifrt.Reach("synced")
	var msgs []*SyncUpdate
	for len(ch) > 0 {
		msgs = append(msgs, <-ch)
	}
	verifrt.Assert(drv.gets == 1, "C13-netconf-sync-one-get-config")
	if drv.fail != 0 {
		verifrt.Assert(len(msgs) == 0, "C13-netconf-failed-get-emits-no-partial-cycle")
		return
	}
	verifrt.Reach("reply-processed")
	verifrt.Assert(len(msgs) == drv.ifaces+2, "C13-netconf-resync-is-a-complete-cycle")
	if len(msgs) != drv.ifaces+2 {
		return
	}
	verifrt.Assert(msgs[0].Start && !msgs[0].End && msgs[0].Update == nil, "C13-netconf-cycle-begins-with-start")
	verifrt.Assert(msgs[0].Force == force, "C13-netconf-start-carries-force")
	last := msgs[len(msgs)-1]
	verifrt.Assert(last.End && !last.Start && last.Update == nil, "C13-netconf-cycle-ends-with-end")
	for _, m := range msgs[1 : len(msgs)-1] {
		verifrt.Assert(!m.Start && !m.End && m.Update != nil, "C13-netconf-cycle-body-is-notifications")
		if m.Update != nil {
			verifrt.Assert(len(m.Update.GetUpdate()) >= 1, "C13-netconf-notification-carries-the-entry")
		}
	}
}
