//go:build verif

package datastore

// Assembly of a Datastore without server start-up: real Datastore methods,
// real tree pipeline, real localCache over the model cache, real
// SchemaClientBoundImpl over generated schema literals, recording target.

import (
	"context"
	"errors"
	"sync"

	"github.com/sdcio/data-server/pkg/cache"
	"github.com/sdcio/data-server/pkg/config"
	schemaClient "github.com/sdcio/data-server/pkg/datastore/clients/schema"
	"github.com/sdcio/data-server/pkg/datastore/target"
	"github.com/sdcio/data-server/pkg/datastore/types"
	"github.com/sdcio/data-server/pkg/verifschema"
	sdcpb "github.com/sdcio/sdc-protos/sdcpb"
	"google.golang.org/protobuf/proto"
)

// vTarget records what Set() is given.
type vTarget struct {
	Sets    int
	Updates [][]*sdcpb.Update
	Deletes [][]*sdcpb.Path
	FailSet int // 1-based index of the Set call that fails (0 = never)
	// StallSet non-nil: Set does not answer before the channel is closed (a device that hangs;
	// the datastore calls Set without a deadline)
	StallSet chan struct{}

	AllEncodings  bool // also render JSON, JSON_IETF and XML (8 option combinations)
	JsonEmpty     []bool
	JsonIetfEmpty []bool
	XmlEmpty      []bool
}

func vJsonEmpty(j any) bool {
	if j == nil {
		return true
	}
	m, ok := j.(map[string]any)
	return ok && len(m) == 0
}

var errVerifTarget = errors.New("verif: injected target failure")

func (t *vTarget) Get(ctx context.Context, req *sdcpb.GetDataRequest) (*sdcpb.GetDataResponse, error) {
	return nil, errors.New("not modelled")
}

func (t *vTarget) Set(ctx context.Context, source target.TargetSource) (*sdcpb.SetDataResponse, error) {
	t.Sets++
	if ch := t.StallSet; ch != nil {
		<-ch
	}
	if t.FailSet != 0 && t.Sets == t.FailSet {
		return nil, errVerifTarget
	}
	upds, err := source.ToProtoUpdates(ctx, true)
	if err != nil {
		return nil, err
	}
	dels, err := source.ToProtoDeletes(ctx)
	if err != nil {
		return nil, err
	}
	t.Updates = append(t.Updates, upds)
	t.Deletes = append(t.Deletes, dels)
	if t.AllEncodings {
		j, err := source.ToJson(true)
		if err != nil {
			return nil, err
		}
		ji, err := source.ToJsonIETF(true)
		if err != nil {
			return nil, err
		}
		xmlEmpty := true
		for i := 0; i < 8; i++ {
			doc, err := source.ToXML(true, i&1 != 0, i&2 != 0, i&4 != 0)
			if err != nil {
				return nil, err
			}
			if doc != nil && len(doc.ChildElements()) > 0 {
				xmlEmpty = false
			}
		}
		t.JsonEmpty = append(t.JsonEmpty, vJsonEmpty(j))
		t.JsonIetfEmpty = append(t.JsonIetfEmpty, vJsonEmpty(ji))
		t.XmlEmpty = append(t.XmlEmpty, xmlEmpty)
	}
	return &sdcpb.SetDataResponse{}, nil
}

func (t *vTarget) Sync(ctx context.Context, syncConfig *config.Sync, syncCh chan *target.SyncUpdate) {}
func (t *vTarget) Status() *target.TargetStatus {
	return target.NewTargetStatus(target.TargetStatusConnected)
}
func (t *vTarget) Close() error { return nil }

type vEnv struct {
	ds     *Datastore
	model  *cache.VerifModelCache
	schema *verifschema.Client
	tgt    *vTarget
}

func vNewEnv() *vEnv {
	model := cache.NewVerifModelCache()
	return vNewEnvOver(model)
}

// vNewEnvOver builds a fresh Datastore (new schema index, transaction
// manager, mutexes) over an existing model cache: a process restart.
func vNewEnvOver(model *cache.VerifModelCache) *vEnv {
	sc := &verifschema.Client{}
	tgt := &vTarget{}
	cfg := &config.DatastoreConfig{
		Name:   "ds",
		Schema: &config.SchemaConfig{Name: "testschema", Vendor: "sdcio", Version: "v0.0.0"},
		Validation: &config.Validation{
			DisableConcurrency: true,
			DisabledValidators: config.Validators{MustStatement: true},
		},
	}
	ds := &Datastore{
		config:                   cfg,
		schemaClient:             schemaClient.NewSchemaClientBound(cfg.Schema.GetSchema(), sc),
		cacheClient:              cache.NewVerifLocalCache(model),
		sbi:                      tgt,
		m:                        &sync.RWMutex{},
		md:                       &sync.RWMutex{},
		dmutex:                   &sync.Mutex{},
		deviationClients:         make(map[string]sdcpb.DataServer_WatchDeviationsServer),
		currentIntentsDeviations: make(map[string][]*sdcpb.WatchDeviationResponse),
	}
	ds.transactionManager = types.NewTransactionManager(NewDatastoreRollbackAdapter(ds))
	return &vEnv{ds: ds, model: model, schema: sc, tgt: tgt}
}

// ---- small constructors

func vPath(elems ...*sdcpb.PathElem) *sdcpb.Path { return &sdcpb.Path{Elem: elems} }
func vPE(name string, kv ...string) *sdcpb.PathElem {
	pe := &sdcpb.PathElem{Name: name}
	if len(kv) > 0 {
		pe.Key = map[string]string{}
		for i := 0; i+1 < len(kv); i += 2 {
			pe.Key[kv[i]] = kv[i+1]
		}
	}
	return pe
}
func vStrTV(s string) *sdcpb.TypedValue {
	return &sdcpb.TypedValue{Value: &sdcpb.TypedValue_StringVal{StringVal: s}}
}
func vUintTV(u uint64) *sdcpb.TypedValue {
	return &sdcpb.TypedValue{Value: &sdcpb.TypedValue_UintVal{UintVal: u}}
}
func vBytes(tv *sdcpb.TypedValue) []byte {
	b, err := proto.Marshal(tv)
	if err != nil {
		panic(err)
	}
	return b
}

func vUnmarshal(b []byte, tv *sdcpb.TypedValue) error { return proto.Unmarshal(b, tv) }
