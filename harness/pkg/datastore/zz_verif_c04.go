//go:build verif

package datastore

// C04: the accept/reject verdict of TransactionSet is the validity of the
// resulting merged configuration, validator by validator (mandatory, pattern,
// length, leaf-list min/max-elements, signed range), and does not depend on how
// that configuration is split among intents: the same merged configuration
// submitted as ONE intent to an EMPTY datastore gets the same verdict.

import (
	"context"
	"regexp"
	"strings"

	"github.com/sdcio/data-server/pkg/datastore/types"

	"github.com/sdcio/data-server/pkg/verifrt"
	sdcpb "github.com/sdcio/sdc-protos/sdcpb"
)

const (
	vkPattern = iota
	vkMandatory
	vkLeafList
	vkSignedRange
	vkLeafref
	vkLeafrefValue
	vkLeafrefTwoInstances
	vkMust
)

func vDkLeaf(leafElems []string, keyOf bool, keyVal string) *vLeaf {
	entry := "doublekey[key1=k1][key2=k2]"
	id := entry
	elems := []*sdcpb.PathElem{vPE("doublekey", "key1", "k1", "key2", "k2")}
	strs := []string{"doublekey", "k1", "k2"}
	for _, e := range leafElems {
		id += "/" + e
		elems = append(elems, vPE(e))
		strs = append(strs, e)
	}
	l := &vLeaf{id: id, elems: elems, strs: strs, entry: entry}
	if keyOf {
		l.keyOf = entry
		l.keyVal = keyVal
	}
	return l
}

// vScenarioValidators: Param "vkind" selects the constraint under test.
func vScenarioValidators() (*vScenario, int) {
	kind := verifrt.Param("vkind", vkPattern)
	var sc *vScenario
	switch kind {
	case vkMandatory:
		// list doublekey { key "key1 key2"; leaf mandato { mandatory true } container cont { leaf value1 } }
		sc = &vScenario{leaves: []*vLeaf{
			vDkLeaf([]string{"mandato"}, false, ""),
			vDkLeaf([]string{"cont", "value1"}, false, ""),
			vDkLeaf([]string{"key1"}, true, "k1"),
			vDkLeaf([]string{"key2"}, true, "k2"),
		}, owners: []string{"A", "B"}}
	case vkLeafList:
		// container leaflist { leaf-list entry { min-elements 2; max-elements 3 } }
		sc = &vScenario{leaves: []*vLeaf{
			{id: "leaflist/entry", elems: []*sdcpb.PathElem{vPE("leaflist"), vPE("entry")}, strs: []string{"leaflist", "entry"}, ll: true, llMax: verifrt.Param("llmax", 4)},
		}, owners: []string{"A", "B"}}
	case vkSignedRange:
		// leaf rangetestsigned { type int32 { range "-3000..-60 | -50 | -32..-1 | 10..300" } }
		sc = &vScenario{leaves: []*vLeaf{
			{id: "rangetestsigned", elems: []*sdcpb.PathElem{vPE("rangetestsigned")}, strs: []string{"rangetestsigned"}, isInt: true,
				intLo: int64(verifrt.Param("intlo", -3100)), intHi: int64(verifrt.Param("inthi", 400))},
		}, owners: []string{"A", "B"}}
	case vkLeafref:
		// container mgmt-interface { leaf name { type leafref { path "/interface/name"; } } }  (require-instance true)
		// the only interface of the universe is lo1 (an intent defines it by setting its description)
		ref := &vLeaf{id: "mgmt-interface/name", elems: []*sdcpb.PathElem{vPE("mgmt-interface"), vPE("name")}, strs: []string{"mgmt-interface", "name"},
			enum: []string{"lo1", "lo10"}}
		sc = &vScenario{leaves: []*vLeaf{ref, vIfLeaf("lo1", "description", false), vIfKeyLeaf("lo1")}, owners: []string{"A", "B"}}
	case vkLeafrefValue:
		// leaf mgmt-interface/type { type leafref { path "/interface[name=current()/../name]/interface-type"; } }:
		// the reference is to a VALUE another intent may change
		typ := &vLeaf{id: "mgmt-interface/type", elems: []*sdcpb.PathElem{vPE("mgmt-interface"), vPE("type")}, strs: []string{"mgmt-interface", "type"}}
		name := &vLeaf{id: "mgmt-interface/name", elems: []*sdcpb.PathElem{vPE("mgmt-interface"), vPE("name")}, strs: []string{"mgmt-interface", "name"}, enum: []string{"lo1"}}
		target := vIfLeaf("lo1", "interface-type", false)
		if verifrt.Param("split", 1) == 1 {
			// the dependency crosses intents: A holds the reference (type and name together),
			// B holds the referenced interface
			typ.onlyOwner, name.onlyOwner, name.tiedTo, target.onlyOwner = "A", "A", typ.id, "B"
		}
		sc = &vScenario{leaves: []*vLeaf{typ, name, target, vIfKeyLeaf("lo1")}, owners: []string{"A", "B"}}
	case vkLeafrefTwoInstances:
		// two instances of a leafref whose path has a current()-relative key predicate
		// (network-instance/interface/interface-ref/subinterface ->
		// /interface[name=current()/../interface]/subinterface/index) that resolve to DIFFERENT
		// keys in one validation run: ethernet-1/1.1 -> ethernet-1/1 / n1, ethernet-1/2.2 -> ethernet-1/2 / n2.
		// Intent A holds the interfaces (subinterface 1 of ethernet-1/1, subinterface 2 of
		// ethernet-1/2), intent B the references; the referenced indices n1, n2 are 1 or 2.
		subDescr := func(ifn, idx string) *vLeaf {
			return &vLeaf{id: "interface[name=" + ifn + "]/subinterface[index=" + idx + "]/description",
				elems: []*sdcpb.PathElem{vPE("interface", "name", ifn), vPE("subinterface", "index", idx), vPE("description")},
				strs:  []string{"interface", ifn, "subinterface", idx, "description"}, onlyOwner: "A"}
		}
		ref := func(niIf, leaf string) *vLeaf {
			return &vLeaf{id: "network-instance[name=default]/interface[name=" + niIf + "]/interface-ref/" + leaf,
				elems: []*sdcpb.PathElem{vPE("network-instance", "name", "default"), vPE("interface", "name", niIf), vPE("interface-ref"), vPE(leaf)},
				strs:  []string{"network-instance", "default", "interface", niIf, "interface-ref", leaf}, onlyOwner: "B"}
		}
		d1, d2 := subDescr("ethernet-1/1", "1"), subDescr("ethernet-1/2", "2")
		i1, s1 := ref("ethernet-1/1.1", "interface"), ref("ethernet-1/1.1", "subinterface")
		i2, s2 := ref("ethernet-1/2.2", "interface"), ref("ethernet-1/2.2", "subinterface")
		i1.enum, i2.enum = []string{"ethernet-1/1"}, []string{"ethernet-1/2"}
		s1.isUint, s2.isUint = true, true
		s1.uintChoice, s2.uintChoice = []uint64{1, 2}, []uint64{1, 2}
		s1.tiedTo, s2.tiedTo = i1.id, i2.id
		sc = &vScenario{leaves: []*vLeaf{d1, d2, i1, s1, i2, s2}, owners: []string{"A", "B"}}
	case vkMust:
		// list interface { leaf admin-state { default enable;
		//   must "((. = 'enable') and starts-with(../name, 'system0')) or not(starts-with(../name, 'system0'))" } }
		// on the interface system0: the admin-state of the resulting configuration has to be enable.
		// The must-statement validator is switched ON for this scenario (the values the expression
		// reads are concrete on every path, so yang-parser's XPath machine is simply interpreted).
		adm := vIfLeaf("system0", "admin-state", false)
		adm.enum = []string{"enable", "disable"}
		sc = &vScenario{leaves: []*vLeaf{adm, vIfLeaf("system0", "description", false), vIfKeyLeaf("system0")}, owners: []string{"A", "B"}}
	default:
		// leaf patterntest { type string { length "7..10"; pattern 'hallo [0-9a-fA-F]*' } }
		sc = &vScenario{leaves: []*vLeaf{
			{id: "patterntest", elems: []*sdcpb.PathElem{vPE("patterntest")}, strs: []string{"patterntest"},
				strMax: 11, alphabet: "halo 1Fg", strLens: []int{6, 7, 10, 11}},
		}, owners: []string{"A", "B"}}
	}
	for i, l := range sc.leaves {
		l.tag = "L" + string(rune('0'+i))
	}
	return sc, kind
}

func vSignedRangeValid(i int64) bool {
	return verifrt.Or(
		verifrt.Or(verifrt.And(i >= -3000, i <= -60), i == -50),
		verifrt.Or(verifrt.And(i >= -32, i <= -1), verifrt.And(i >= 10, i <= 300)))
}

// YANG patterns are anchored (RFC 7950 9.4.5: the whole value must match)
func vPatternValid(s string) bool {
	m, _ := regexp.MatchString("^hallo [0-9a-fA-F]*$", s)
	return m
}

func vLengthValid(s string) bool { return verifrt.And(len(s) >= 7, len(s) <= 10) }

// valid: does the merged configuration of st satisfy the constraint under test?
// Returned per aspect so that a wrong verdict can be named.  non-forking.
func (st *vState) validAspects(kind int) map[string]bool {
	sc := st.sc
	out := map[string]bool{}
	switch kind {
	case vkMandatory:
		exists, has := false, false
		for _, o := range sc.owners {
			for _, l := range sc.leaves {
				if st.pres[l.id][o] {
					exists = true
				}
			}
			if st.pres[sc.leaves[0].id][o] {
				has = true
			}
		}
		out["mandatory"] = !exists || has
	case vkLeafref:
		ref, target := sc.leaves[0], sc.leaves[1]
		// the referenced interface exists iff lo1 exists (an intent or the device defines its leaf)
		lo1 := verifrt.Or(st.managed(target), st.rpres[target.id])
		ok := true
		for _, o := range sc.owners {
			if st.pres[ref.id][o] {
				ok = verifrt.And(ok, verifrt.Implies(st.wins(ref, o), verifrt.And(st.val[ref.id][o].s == "lo1", lo1)))
			}
		}
		if !st.managed(ref) && st.rpres[ref.id] {
			ok = verifrt.And(st.rval[ref.id].s == "lo1", lo1)
		}
		out["leafref"] = ok
	case vkLeafrefValue:
		typ, name, target := sc.leaves[0], sc.leaves[1], sc.leaves[2]
		lo1 := verifrt.Or(st.managed(target), st.rpres[target.id])
		nameDef := verifrt.Or(st.managed(name), st.rpres[name.id])
		// the value the interface-type of lo1 has in the resulting configuration equals v
		targetIs := func(v string) bool {
			r := false
			for _, o := range sc.owners {
				if st.pres[target.id][o] {
					r = verifrt.Or(r, verifrt.And(st.wins(target, o), st.val[target.id][o].s == v))
				}
			}
			if !st.managed(target) && st.rpres[target.id] {
				r = st.rval[target.id].s == v
			}
			return r
		}
		okName, okType := true, true
		if nameDef {
			okName = lo1
		}
		for _, o := range sc.owners {
			if st.pres[typ.id][o] {
				okType = verifrt.And(okType, verifrt.Implies(st.wins(typ, o), verifrt.And(nameDef, targetIs(st.val[typ.id][o].s))))
			}
		}
		if !st.managed(typ) && st.rpres[typ.id] {
			okType = verifrt.And(nameDef, targetIs(st.rval[typ.id].s))
		}
		out["leafref-name"] = okName
		out["leafref-value"] = okType
	case vkLeafrefTwoInstances:
		d1, d2, i1, s1, i2, s2 := sc.leaves[0], sc.leaves[1], sc.leaves[2], sc.leaves[3], sc.leaves[4], sc.leaves[5]
		has := func(l *vLeaf) bool { return st.managed(l) }
		val := func(l *vLeaf) uint64 { return st.val[l.id]["B"].u }
		ok1, ok2 := true, true
		if has(i1) {
			ok1 = has(d1) // /interface/name of ethernet-1/1 exists
			if has(s1) {
				ok1 = ok1 && val(s1) == 1 // and its subinterface n1 exists
			}
		}
		if has(i2) {
			ok2 = has(d2)
			if has(s2) {
				ok2 = ok2 && val(s2) == 2
			}
		}
		out["leafref-first-instance"] = ok1
		out["leafref-second-instance"] = ok2
	case vkMust:
		// the admin-state in force: the ruling intent's, else the device's own, else the default (enable)
		l := sc.leaves[0]
		ok := true
		for _, o := range sc.owners {
			if st.pres[l.id][o] {
				ok = verifrt.And(ok, verifrt.Implies(st.wins(l, o), st.val[l.id][o].s == "enable"))
			}
		}
		if !st.managed(l) && st.rpres[l.id] {
			ok = st.rval[l.id].s == "enable"
		}
		out["must"] = ok
	case vkLeafList:
		l := sc.leaves[0]
		ok := true
		for _, o := range sc.owners {
			if st.pres[l.id][o] {
				n := st.val[l.id][o].n
				ok = verifrt.And(ok, verifrt.Implies(st.wins(l, o), n >= 2 && n <= 3))
			}
		}
		if !st.managed(l) && st.rpres[l.id] {
			ok = st.rval[l.id].n >= 2 && st.rval[l.id].n <= 3
		}
		out["min-max-elements"] = ok
	case vkSignedRange:
		l := sc.leaves[0]
		ok := true
		for _, o := range sc.owners {
			if st.pres[l.id][o] {
				ok = verifrt.And(ok, verifrt.Implies(st.wins(l, o), vSignedRangeValid(st.val[l.id][o].i)))
			}
		}
		if !st.managed(l) && st.rpres[l.id] {
			ok = vSignedRangeValid(st.rval[l.id].i)
		}
		out["range"] = ok
	default:
		l := sc.leaves[0]
		okp, okl := true, true
		for _, o := range sc.owners {
			if st.pres[l.id][o] {
				okp = verifrt.And(okp, verifrt.Implies(st.wins(l, o), vPatternValid(st.val[l.id][o].s)))
				okl = verifrt.And(okl, verifrt.Implies(st.wins(l, o), vLengthValid(st.val[l.id][o].s)))
			}
		}
		if !st.managed(l) && st.rpres[l.id] {
			okp, okl = vPatternValid(st.rval[l.id].s), vLengthValid(st.rval[l.id].s)
		}
		out["pattern"] = okp
		out["length"] = okl
	}
	return out
}

// managed: some intent defines l
func (st *vState) managed(l *vLeaf) bool {
	for _, o := range st.sc.owners {
		if st.pres[l.id][o] {
			return true
		}
	}
	return false
}

func vAllValid(a map[string]bool) bool {
	v := true
	for _, k := range []string{"must", "mandatory", "min-max-elements", "range", "pattern", "length", "leafref", "leafref-name", "leafref-value", "leafref-first-instance", "leafref-second-instance"} {
		if b, ok := a[k]; ok {
			v = verifrt.And(v, b)
		}
	}
	return v
}

// merged: the resulting configuration of st as ONE request of owner "M": every
// defined leaf with the value of its ruling intent. Must be called before the
// code under test (it introduces assumptions). Returns nil for the empty configuration.
func (st *vState) merged(tag string) *vRequest {
	r := &vRequest{owner: "M", prio: 10, pres: map[string]bool{}, val: map[string]vVal{}}
	any := false
	for _, l := range st.sc.leaves {
		if l.keyOf != "" {
			continue
		}
		def := false
		for _, o := range st.sc.owners {
			if st.pres[l.id][o] {
				def = true
			}
		}
		if !def {
			if st.rpres[l.id] {
				// device configuration no intent defines is part of the resulting configuration
				any = true
				r.pres[l.id] = true
				r.val[l.id] = st.rval[l.id]
			}
			continue
		}
		any = true
		r.pres[l.id] = true
		if l.ll {
			// the element count is concrete: pick the ruler by forking
			for _, o := range st.sc.owners {
				if st.pres[l.id][o] && st.wins(l, o) {
					r.val[l.id] = st.val[l.id][o]
				}
			}
			continue
		}
		mv := l.newVal(tag + l.tag)
		for _, o := range st.sc.owners {
			if st.pres[l.id][o] {
				verifrt.Assume(verifrt.Implies(st.wins(l, o), l.eqVal(mv, st.val[l.id][o])))
			}
		}
		r.val[l.id] = mv
	}
	if !any {
		return nil
	}
	return r
}

func vRejected(rsp *sdcpb.TransactionSetResponse, err error) bool {
	if err != nil {
		return true
	}
	return vHasErrors(rsp)
}

// VerifVerdictIsValidity: one TransactionSet (create / change / shrink /
// re-prioritise / delete of one intent) from an arbitrary Inv-state whose
// resulting configuration is valid; the verdict must be exactly the validity of
// the configuration that results, and must equal the verdict for that same
// configuration submitted as one intent to an empty datastore.
// v04Switches: param "vswitch" sets the operator's validator switches (config.Validators): 0 all
// on (but must, see vkMust), 1 length disabled, 2 pattern disabled, 3 range disabled, 4 leafref
// disabled, 5 mandatory disabled, 6 min/max-elements disabled. A constraint is ENFORCED iff its
// validator is not disabled: the verdict depends on the enforced constraints only. Returns the
// aspect that is not enforced ("" = none).
func v04Switches(env *vEnv) string {
	dv := &env.ds.config.Validation.DisabledValidators
	switch verifrt.Param("vswitch", 0) {
	case 1:
		dv.Length = true
		return "length"
	case 2:
		dv.Pattern = true
		return "pattern"
	case 3:
		dv.Range = true
		return "range"
	case 4:
		dv.Leafref = true
		return "leafref"
	case 5:
		dv.Mandatory = true
		return "mandatory"
	case 6:
		dv.MaxElements = true
		return "min-max-elements"
	}
	return ""
}

func VerifVerdictIsValidity() {
	sc, kind := vScenarioValidators()
	env := vNewEnv()
	if kind == vkMust {
		env.ds.config.Validation.DisabledValidators.MustStatement = false
	}
	notEnforced := v04Switches(env)
	var pre *vState
	if verifrt.Param("empty", 0) == 1 {
		// empty stores; the configuration arrives in one transaction, possibly split over two intents
		pre = vNewState(sc)
		for i, o := range sc.owners {
			pre.prio[o] = int32(2000 + i)
		}
	} else {
		pre = vArbitraryState(sc)
	}
	if kind == vkMandatory {
		// inside a list entry the fate of device leaves no intent defines is not fixed by the
		// statement: the entry holds only what intents define
		for _, l := range sc.leaves {
			if !pre.managed(l) {
				verifrt.Assume(!pre.rpres[l.id])
			}
		}
	}
	// reachable states hold a valid resulting configuration (every accepted transaction left
	// one; the device's own, unmanaged configuration is valid too)
	verifrt.Assume(vAllValid(pre.validAspects(kind)))
	pre.install(env)
	reqs := vArbitraryRequests(pre)
	req := reqs[0]
	for _, r := range reqs {
		verifrt.Assume(!(r.del && r.orphan)) // orphan delete: the device keeps what it has; no resulting configuration is defined
		if verifrt.Param("empty", 0) == 1 {
			verifrt.Assume(!r.del)
		}
	}
	post := pre.apply(reqs)
	for _, l := range sc.leaves {
		if l.keyOf == "" && pre.rpres[l.id] && !pre.managed(l) {
			post.rpres[l.id], post.rval[l.id] = true, pre.rval[l.id]
		}
	}
	aspects := post.validAspects(kind)
	if notEnforced != "" {
		delete(aspects, notEnforced)
	}
	valid := vAllValid(aspects)
	m := post.merged("m.")
	before := vSnapshot(env.model)
	verifrt.Reach("state-built")

	rsp, err := vStep(env, sc, "t1", reqs, false)
	rejected := vRejected(rsp, err)
	verifrt.Reach("step-done")

	// name the situation (forks): did the request remove the ruling value of a leaf / the provider of the mandatory leaf?
	situation := ""
	for _, l := range sc.leaves {
		if l.keyOf == "" && pre.pres[l.id][req.owner] && !post.pres[l.id][req.owner] {
			if pre.wins(l, req.owner) {
				situation = "/ruling-value-removed"
			}
		}
	}
	for name, ok := range aspects {
		if !ok {
			verifrt.Reach("invalid-result")
			verifrt.Assert(rejected, "C04-invalid-result-rejected/"+name+situation)
			// C03 on the same run: a transaction whose result violates a constraint sends
			// nothing and leaves both stores as they were
			verifrt.Assert(env.tgt.Sets == 0, "C03-invalid-result-nothing-sent/"+name+situation)
			if env.tgt.Sets == 0 {
				vAssertSameBuckets(before, vSnapshot(env.model), "C03-invalid-result-stores-unchanged")
			}
		}
	}
	if valid {
		verifrt.Reach("valid-result")
		verifrt.Assert(!rejected, "C04-valid-result-accepted"+situation)
	}

	// differential oracle: the merged result as one intent on an empty datastore
	if m != nil {
		env2 := vNewEnv()
		if kind == vkMust {
			env2.ds.config.Validation.DisabledValidators.MustStatement = false
		}
		v04Switches(env2)
		rsp2, err2 := vStep(env2, sc, "m1", []*vRequest{m}, false)
		rejected2 := vRejected(rsp2, err2)
		verifrt.Reach("differential-done")
		if valid {
			verifrt.Assert(!rejected2, "C04-valid-result-accepted-as-single-intent")
		} else {
			for name, ok := range aspects {
				if !ok {
					verifrt.Assert(rejected2, "C04-invalid-result-rejected-as-single-intent/"+name)
				}
			}
		}
		verifrt.Assert(rejected == rejected2, "C04-verdict-independent-of-split"+situation)
	}
}

// VerifLengthCountsCharacters: YANG length restrictions count CHARACTERS (RFC 7950 9.4.4), not
// bytes. interface/description has length 1..255; the values here are concrete strings of
// multi-byte characters whose byte count and character count fall on different sides of the
// bound (symbolic strings are ASCII by the engine's standing assumption, so this dimension is
// covered by representatives): the verdict is the validity by character count, as one intent
// and split over two intents.
func VerifLengthCountsCharacters() {
	rep := func(s string, n int) string { return strings.Repeat(s, n) }
	vals := []struct {
		v     string
		valid bool
	}{
		{rep("a", 255), true}, {rep("a", 256), false},
		{rep("ä", 100), true}, {rep("ä", 128), true}, {rep("ä", 200), true}, {rep("ä", 255), true}, {rep("ä", 256), false},
		{rep("中", 90), true}, {rep("中", 255), true}, {rep("中", 256), false},
		{rep("a", 250) + rep("\U0001F600", 5), true}, {rep("a", 251) + rep("\U0001F600", 5), false},
	}
	c := vals[verifrt.Choice("value", len(vals))]
	env := vNewEnv()
	ctx := context.Background()
	descr := &sdcpb.Update{Path: vPath(vPE("interface", "name", "lo1"), vPE("description")), Value: vStrTV(c.v)}
	mtu := &sdcpb.Update{Path: vPath(vPE("interface", "name", "lo1"), vPE("mtu")), Value: vUintTV(1500)}
	var tis []*types.TransactionIntent
	if verifrt.Choice("split", 2) == 0 {
		ti, err := env.ds.SdcpbTransactionIntentToInternalTI(ctx, &sdcpb.TransactionIntent{Intent: "A", Priority: 10, Update: []*sdcpb.Update{descr, mtu}})
		verifrt.Assert(err == nil, "C04-length-value-converts")
		tis = append(tis, ti)
	} else {
		ta, err := env.ds.SdcpbTransactionIntentToInternalTI(ctx, &sdcpb.TransactionIntent{Intent: "A", Priority: 10, Update: []*sdcpb.Update{mtu}})
		verifrt.Assert(err == nil, "C04-length-value-converts")
		tb, err := env.ds.SdcpbTransactionIntentToInternalTI(ctx, &sdcpb.TransactionIntent{Intent: "B", Priority: 5, Update: []*sdcpb.Update{descr}})
		verifrt.Assert(err == nil, "C04-length-value-converts")
		tis = append(tis, ta, tb)
	}
	verifrt.Reach("built")
	rsp, err := env.ds.TransactionSet(ctx, "t1", tis, nil, vTxnTimeout, false)
	verifrt.Reach("step-done")
	rejected := vRejected(rsp, err)
	if c.valid {
		verifrt.Assert(!rejected, "C04-length-counts-characters/valid-accepted")
	} else {
		verifrt.Assert(rejected, "C04-length-counts-characters/invalid-rejected")
	}
}
