//go:build verif

package datastore

// C19 "streaming RPCs end when their client does": the real
// Datastore.Subscribe / doSubscribeOnce against a stub server stream, with the
// engine's virtual clock driving the sample tickers.

import (
	"context"
	"errors"
	"time"

	sdccache "github.com/sdcio/cache/pkg/cache"
	"github.com/sdcio/data-server/pkg/verifrt"
	sdcpb "github.com/sdcio/sdc-protos/sdcpb"
	"google.golang.org/grpc/metadata"
)

var v19ErrStream = errors.New("verif: stream broken")

// v19Stream is the server side of a Subscribe stream as gRPC presents it:
// Send fails from the failAt-th call on (a broken transport stays broken) and
// fails once the stream context is done.
type v19Stream struct {
	ctx    context.Context
	sends  int
	failAt int // 1-based index of the first failing Send (0 = transport never breaks)
	failed int
	sent   []*sdcpb.SubscribeResponse
}

func (s *v19Stream) Send(r *sdcpb.SubscribeResponse) error {
	s.sends++
	if s.failAt != 0 && s.sends >= s.failAt {
		s.failed++
		if !verifrt.Symbolic() {
			// native replay only: a failing Send takes a moment, so that the
			// other samplers (woken by their own tickers microseconds later)
			// are in flight as well, as under the virtual clock
			time.Sleep(20 * time.Millisecond)
		}
		return v19ErrStream
	}
	if err := s.ctx.Err(); err != nil {
		s.failed++
		return err
	}
	s.sent = append(s.sent, r)
	return nil
}
func (s *v19Stream) Context() context.Context     { return s.ctx }
func (s *v19Stream) SetHeader(metadata.MD) error  { return nil }
func (s *v19Stream) SendHeader(metadata.MD) error { return nil }
func (s *v19Stream) SetTrailer(metadata.MD)       {}
func (s *v19Stream) SendMsg(m any) error          { return nil }
func (s *v19Stream) RecvMsg(m any) error          { return nil }

var _ sdcpb.DataServer_SubscribeServer = (*v19Stream)(nil)

// v19Fill puts n leaves into the CONFIG store so that every sample sends n updates.
func v19Fill(env *vEnv, n int) {
	ctx := context.Background()
	names := []string{"lo1", "lo10", "ethernet-1/1"}
	for i := 0; i < n && i < len(names); i++ {
		_ = env.model.WriteValue(ctx, "ds", &sdccache.Opts{Store: sdccache.StoreConfig, Path: [][]string{{"interface", names[i], "mtu"}}}, vBytes(vUintTV(1500)))
	}
}

func v19Request(subs int, interval uint64) *sdcpb.SubscribeRequest {
	req := &sdcpb.SubscribeRequest{Name: "ds"}
	for i := 0; i < subs; i++ {
		req.Subscription = append(req.Subscription, &sdcpb.Subscription{
			Path:           []*sdcpb.Path{vPath(vPE("interface"))},
			DataType:       sdcpb.DataType_CONFIG,
			SampleInterval: interval,
		})
	}
	return req
}

// v19Suffix names the known-defect situation of a run ("" = none).
func v19Suffix(subs int, cancelled bool, failedSends int) string {
	if subs < 2 {
		return ""
	}
	if failedSends >= 2 {
		return "/several-subscriptions-fail-to-send"
	}
	if cancelled {
		return "/cancel-with-several-subscriptions"
	}
	return ""
}

// VerifSubscribe: Subscribe with `subs` subscriptions (same sample interval)
// over `entries` stored leaves. The stream ends either because the client
// cancels (before the call, after the initial sync, or after 1..ticks sample
// rounds) or because Send starts failing at an arbitrary call; in the latter
// case the client context is cancelled afterwards as well (gRPC cancels the
// stream context when the transport is gone).
//
// params: subs (1..3), entries (0..3), ticks (sample rounds driven),
// ending (-1 either, 0 cancel only, 1 send failure only).
func VerifSubscribe() {
	subs := verifrt.Param("subs", 2)
	entries := verifrt.Param("entries", 1)
	ticks := verifrt.Param("ticks", 1)

	env := vNewEnv()
	v19Fill(env, entries)
	ctx, cancel := context.WithCancel(context.Background())
	defer cancel()
	st := &v19Stream{ctx: ctx}
	req := v19Request(subs, uint64(time.Second))
	// param "pathless" = 1: one of the subscriptions (any position) may carry NO path - the
	// server front-end only rejects an empty subscription LIST; 2 paths on another one
	pathless := -1
	if verifrt.Param("pathless", 0) == 1 {
		pathless = verifrt.Choice("pathless", subs+1) - 1 // -1: none
		if pathless >= 0 {
			req.Subscription[pathless].Path = nil
		}
		if twice := verifrt.Choice("two-paths", subs+1) - 1; twice >= 0 && twice != pathless {
			req.Subscription[twice].Path = append(req.Subscription[twice].Path, vPath(vPE("interface", "name", "lo1")))
		}
	}

	// how the stream ends
	cancelAfter := -1                     // -1: never by itself; 0: before the call; k: after k-1 sample rounds
	ending := verifrt.Param("ending", -1) // -1: either; 0: client cancels; 1: Send starts failing
	if ending < 0 {
		ending = verifrt.Choice("ending", 2)
	}
	if ending == 0 {
		cancelAfter = verifrt.Choice("cancel-after", ticks+2)
	} else {
		total := subs*entries + 1 + ticks*subs*entries
		if verifrt.Param("pathless", 0) == 1 {
			total = 2 // the number of Sends depends on the paths: fail at the first or the second Send
		}
		st.failAt = 1 + verifrt.Choice("fail-at", total)
	}

	cancelled := false
	if cancelAfter == 0 {
		cancel()
		cancelled = true
	}
	returned := false
	var rerr error
	go func() {
		rerr = env.ds.Subscribe(req, st)
		returned = true
	}()
	verifrt.AwaitQuiescence()
	verifrt.Reach("initial-sync-done")
	for round := 1; round <= ticks+1; round++ {
		if cancelAfter == round {
			cancel()
			cancelled = true
			break
		}
		if round <= ticks {
			verifrt.Advance(time.Second)
			verifrt.AwaitQuiescence()
			verifrt.Reach("sample-round-done")
		}
	}
	if !cancelled && st.failed == 0 {
		// nothing ended the stream in the rounds driven: the client leaves now
		cancel()
		cancelled = true
	}
	verifrt.AwaitQuiescence()
	verifrt.Reach("ended")

	sfx := v19Suffix(subs, cancelled, st.failed)
	// the stream is over (cancelled or broken): no further time may be needed
	verifrt.Assert(returned, "C19-subscribe-returns"+sfx)
	if returned {
		verifrt.Assert(verifrt.Goroutines() == 0, "C19-no-goroutine-left"+sfx)
	}
	if st.failed > 0 && !cancelled {
		// transport gone: gRPC cancels the stream context; whatever is still
		// parked must go away with it
		cancel()
		verifrt.AwaitQuiescence()
		verifrt.Assert(verifrt.Goroutines() == 0, "C19-no-goroutine-left-after-transport-loss"+sfx)
	}
	_ = rerr
}

// VerifSubscribeInterval: one subscription with an arbitrary sample interval
// (the server front-end only raises values below one second), client cancels
// right after the initial sync. No panic, Subscribe returns.
func VerifSubscribeInterval() {
	env := vNewEnv()
	v19Fill(env, 1)
	ctx, cancel := context.WithCancel(context.Background())
	defer cancel()
	st := &v19Stream{ctx: ctx}
	var iv uint64
	if verifrt.Param("symbolic", 0) == 1 {
		// arbitrary interval; the engine cannot yet create a ticker with a
		// symbolic period ("cannot convert interp.sym to int64")
		iv = verifrt.Uint64("interval")
		verifrt.Assume(iv >= uint64(time.Second))
	} else {
		// representatives of the uint64 range, around the int64 boundary of time.Duration
		reps := []uint64{uint64(time.Second), uint64(time.Hour), 1<<63 - 1, 1 << 63, ^uint64(0)}
		iv = reps[verifrt.Choice("interval", len(reps))]
	}
	req := v19Request(1, iv)
	returned := false
	go func() {
		_ = env.ds.Subscribe(req, st)
		returned = true
	}()
	verifrt.AwaitQuiescence()
	cancel()
	verifrt.AwaitQuiescence()
	verifrt.Reach("ended")
	verifrt.Assert(returned, "C19-subscribe-returns")
	verifrt.Assert(verifrt.Goroutines() == 0, "C19-no-goroutine-left")
}
