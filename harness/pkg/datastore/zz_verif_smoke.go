//go:build verif

package datastore

import (
	"context"
	"time"

	"github.com/sdcio/data-server/pkg/datastore/types"
	"github.com/sdcio/data-server/pkg/verifrt"
	sdcpb "github.com/sdcio/sdc-protos/sdcpb"
)

// VerifSmokePipeline: empty stores, one intent with one leaf.
func VerifSmokePipeline() {
	env := vNewEnv()
	ctx := context.Background()
	mtu := verifrt.Uint16("mtu")
	req := &sdcpb.TransactionIntent{
		Intent:   "A",
		Priority: 10,
		Update: []*sdcpb.Update{
			{Path: vPath(vPE("interface", "name", "e1"), vPE("mtu")), Value: vUintTV(uint64(mtu))},
		},
	}
	ti, err := env.ds.SdcpbTransactionIntentToInternalTI(ctx, req)
	verifrt.Assert(err == nil, "convert-ok")
	rsp, err := env.ds.TransactionSet(ctx, "t1", []*types.TransactionIntent{ti}, nil, time.Second, false)
	verifrt.Reach("set-done")
	verifrt.Assert(err == nil, "set-ok")
	verifrt.Assert(rsp != nil, "rsp")
	verifrt.Observe("sets", env.tgt.Sets)
	for name, in := range rsp.GetIntents() {
		verifrt.Observe("errors-"+name, in.GetErrors())
	}
	verifrt.Observe("sets2", env.tgt.Sets)
	if env.tgt.Sets > 0 {
		verifrt.Observe("nupd", len(env.tgt.Updates[0]))
	}
	verifrt.Observe("intended", len(env.model.Intended))
}
