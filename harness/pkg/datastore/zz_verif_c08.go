//go:build verif

package datastore

// C08: at most one case of a choice is ever configured. One TransactionSet
// from an arbitrary store satisfying the representation invariant, over the
// choice `choices/choicecase` of the test schema (case1: container case1 {log,
// case-elem/elem}, case2: container case2 {log}).

import (
	"context"
	"strings"
	"time"

	sdccache "github.com/sdcio/cache/pkg/cache"
	"github.com/sdcio/data-server/pkg/datastore/types"
	"github.com/sdcio/data-server/pkg/verifrt"
	sdcpb "github.com/sdcio/sdc-protos/sdcpb"
)

type v08Leaf struct {
	tag    string
	id     string
	elems  []*sdcpb.PathElem
	strs   []string
	cas    int // 0 = case1, 1 = case2
	isBool bool
}

type v08Val struct {
	s string
	b bool
}

func v08BoolTV(b bool) *sdcpb.TypedValue {
	return &sdcpb.TypedValue{Value: &sdcpb.TypedValue_BoolVal{BoolVal: b}}
}

func (l *v08Leaf) path() *sdcpb.Path {
	p := &sdcpb.Path{}
	for _, e := range l.elems {
		p.Elem = append(p.Elem, &sdcpb.PathElem{Name: e.Name})
	}
	return p
}

func (l *v08Leaf) tv(v v08Val) *sdcpb.TypedValue {
	if l.isBool {
		return v08BoolTV(v.b)
	}
	return vStrTV(v.s)
}

func (l *v08Leaf) newVal(tag string) v08Val {
	if l.isBool {
		return v08Val{b: verifrt.Bool(tag)}
	}
	s := verifrt.String(tag, 1, "ab")
	verifrt.Assume(len(s) == 1)
	return v08Val{s: s}
}

// sameVal: does tv carry v? non-forking.
func (l *v08Leaf) sameVal(tv *sdcpb.TypedValue, v v08Val) bool {
	if l.isBool {
		_, ok := tv.GetValue().(*sdcpb.TypedValue_BoolVal)
		return verifrt.And(ok, tv.GetBoolVal() == v.b)
	}
	_, ok := tv.GetValue().(*sdcpb.TypedValue_StringVal)
	return verifrt.And(ok, tv.GetStringVal() == v.s)
}

var v08CaseRoot = []string{"choices/case1", "choices/case2"}

// v08CaseOf: which case does the node with canonical id belong to (-1 = none)?
// element-wise: "choices/case10/x" is not in case1.
func v08CaseOf(id string) int {
	for i, r := range v08CaseRoot {
		if vIsPrefix(r, id) {
			return i
		}
	}
	return -1
}

type v08Scenario struct {
	leaves []*v08Leaf
	owners []string
}

func v08PickScenario() *v08Scenario {
	sc := &v08Scenario{owners: []string{"A", "B"}}
	if verifrt.Param("owners", 2) >= 3 {
		sc.owners = []string{"A", "B", "C"}
	}
	sc.leaves = []*v08Leaf{
		{id: "choices/case1/case-elem/elem", elems: []*sdcpb.PathElem{vPE("choices"), vPE("case1"), vPE("case-elem"), vPE("elem")},
			strs: []string{"choices", "case1", "case-elem", "elem"}, cas: 0},
		{id: "choices/case2/log", elems: []*sdcpb.PathElem{vPE("choices"), vPE("case2"), vPE("log")},
			strs: []string{"choices", "case2", "log"}, cas: 1, isBool: true},
	}
	if verifrt.Param("leaves", 2) >= 3 {
		sc.leaves = append(sc.leaves, &v08Leaf{id: "choices/case1/log", elems: []*sdcpb.PathElem{vPE("choices"), vPE("case1"), vPE("log")},
			strs: []string{"choices", "case1", "log"}, cas: 0, isBool: true})
	}
	for i, l := range sc.leaves {
		l.tag = "L" + string(rune('0'+i))
	}
	return sc
}

// v08State: contributions of the owners and the running configuration.
type v08State struct {
	sc    *v08Scenario
	prio  map[string]int32
	cas   map[string]int             // owner -> chosen case (-1 = owner has no intent)
	pres  map[string]map[string]bool // leaf id -> owner -> present
	val   map[string]map[string]v08Val
	rpres map[string]bool
	rval  map[string]v08Val
}

func v08NewState(sc *v08Scenario) *v08State {
	st := &v08State{sc: sc, prio: map[string]int32{}, cas: map[string]int{}, pres: map[string]map[string]bool{},
		val: map[string]map[string]v08Val{}, rpres: map[string]bool{}, rval: map[string]v08Val{}}
	for _, l := range sc.leaves {
		st.pres[l.id] = map[string]bool{}
		st.val[l.id] = map[string]v08Val{}
	}
	return st
}

// v08PickContent: an intent's content chooses one case and a non-empty set of its members.
func v08PickContent(sc *v08Scenario, tag string, pres map[string]bool, val map[string]v08Val) int {
	c := verifrt.Choice(tag+"case", 2)
	any := false
	var members []*v08Leaf
	for _, l := range sc.leaves {
		if l.cas == c {
			members = append(members, l)
		}
	}
	for _, l := range members {
		p := true
		if len(members) > 1 {
			p = verifrt.Bool(tag + "pres." + l.tag)
		}
		if p {
			pres[l.id] = true
			val[l.id] = l.newVal(tag + "val." + l.tag)
			any = true
		}
	}
	verifrt.Assume(any)
	return c
}

// liveOrder: the owners that have an intent, lowest priority value first.
// The comparisons fork deliberately: the winner is concrete on every path.
func (st *v08State) liveOrder() []string {
	var out []string
	for _, o := range st.sc.owners {
		if st.cas[o] < 0 {
			continue
		}
		i := 0
		for i < len(out) {
			if st.prio[o] < st.prio[out[i]] {
				break
			}
			i++
		}
		out = append(out, "")
		copy(out[i+1:], out[i:])
		out[i] = o
	}
	return out
}

// winner: the case of the live contribution with the lowest priority value (-1 = none).
func (st *v08State) winner() int {
	ord := st.liveOrder()
	if len(ord) == 0 {
		return -1
	}
	return st.cas[ord[0]]
}

// v08ArbitraryState: every owner has no intent or an intent inside one case;
// distinct priorities; running = the merge: exactly the members of the winning
// case that some live intent defines, with the value of the best definer.
func v08ArbitraryState(sc *v08Scenario) *v08State {
	st := v08NewState(sc)
	for _, o := range sc.owners {
		p := verifrt.Int32("prio" + o)
		verifrt.Assume(verifrt.And(p >= 1, p < 1000))
		st.prio[o] = p
	}
	for i, a := range sc.owners {
		for _, b := range sc.owners[i+1:] {
			verifrt.Assume(st.prio[a] != st.prio[b])
		}
	}
	for _, o := range sc.owners {
		st.cas[o] = -1
		if verifrt.Bool("live." + o) {
			pres := map[string]bool{}
			val := map[string]v08Val{}
			st.cas[o] = v08PickContent(sc, "st."+o+".", pres, val)
			for id := range pres {
				st.pres[id][o] = true
				st.val[id][o] = val[id]
			}
		}
	}
	st.deriveRunning()
	return st
}

func (st *v08State) deriveRunning() {
	w := st.winner()
	ord := st.liveOrder()
	for _, l := range st.sc.leaves {
		if l.cas != w {
			continue
		}
		for _, o := range ord {
			if st.pres[l.id][o] {
				st.rpres[l.id] = true
				st.rval[l.id] = st.val[l.id][o]
				break
			}
		}
	}
}

func (st *v08State) install(env *vEnv) {
	ctx := context.Background()
	for _, o := range st.sc.owners {
		for _, l := range st.sc.leaves {
			if st.pres[l.id][o] {
				_ = env.model.WriteValue(ctx, "ds", &sdccache.Opts{Store: sdccache.StoreIntended, Path: [][]string{l.strs}, Owner: o, Priority: st.prio[o]}, vBytes(l.tv(st.val[l.id][o])))
			}
		}
	}
	for _, l := range st.sc.leaves {
		if st.rpres[l.id] {
			_ = env.model.WriteValue(ctx, "ds", &sdccache.Opts{Store: sdccache.StoreConfig, Path: [][]string{l.strs}}, vBytes(l.tv(st.rval[l.id])))
		}
	}
	env.model.Calls = 0
}

type v08Request struct {
	owner string
	del   bool
	prio  int32
	cas   int
	pres  map[string]bool
	val   map[string]v08Val
}

func v08ArbitraryRequest(st *v08State, tag string, ownerIdx int) *v08Request {
	sc := st.sc
	r := &v08Request{owner: sc.owners[ownerIdx], cas: -1, pres: map[string]bool{}, val: map[string]v08Val{}}
	r.del = verifrt.Bool(tag + "del")
	if r.del {
		// a delete names an existing intent
		verifrt.Assume(st.cas[r.owner] >= 0)
		r.prio = st.prio[r.owner]
		return r
	}
	r.prio = verifrt.Int32(tag + "nprio")
	verifrt.Assume(verifrt.And(r.prio >= 1, r.prio < 1000))
	for _, o := range sc.owners {
		if o != r.owner {
			verifrt.Assume(r.prio != st.prio[o])
		}
	}
	r.cas = v08PickContent(sc, tag, r.pres, r.val)
	return r
}

func (r *v08Request) toProto(sc *v08Scenario) *sdcpb.TransactionIntent {
	ti := &sdcpb.TransactionIntent{Intent: r.owner, Priority: r.prio, Delete: r.del}
	if r.del {
		return ti
	}
	for _, l := range sc.leaves {
		if r.pres[l.id] {
			ti.Update = append(ti.Update, &sdcpb.Update{Path: l.path(), Value: l.tv(r.val[l.id])})
		}
	}
	return ti
}

func (st *v08State) apply(r *v08Request) *v08State {
	post := v08NewState(st.sc)
	for _, o := range st.sc.owners {
		post.prio[o] = st.prio[o]
		post.cas[o] = st.cas[o]
		for _, l := range st.sc.leaves {
			post.pres[l.id][o] = st.pres[l.id][o]
			post.val[l.id][o] = st.val[l.id][o]
		}
	}
	for _, l := range st.sc.leaves {
		post.pres[l.id][r.owner] = !r.del && r.pres[l.id]
		post.val[l.id][r.owner] = r.val[l.id]
	}
	if r.del {
		post.cas[r.owner] = -1
	} else {
		post.cas[r.owner] = r.cas
		post.prio[r.owner] = r.prio
	}
	return post
}

func v08Step(env *vEnv, sc *v08Scenario, id string, r *v08Request) (*sdcpb.TransactionSetResponse, error) {
	ctx := context.Background()
	ti, err := env.ds.SdcpbTransactionIntentToInternalTI(ctx, r.toProto(sc))
	if err != nil {
		return nil, err
	}
	return env.ds.TransactionSet(ctx, id, []*types.TransactionIntent{ti}, nil, 10*time.Second, false)
}

// v08Device: node id -> present (every node seen, not only the scenario leaves).
type v08Device struct {
	pres map[string]bool
	tv   map[string]*sdcpb.TypedValue
}

func (d *v08Device) casePresent(c int) bool {
	for id, p := range d.pres {
		if p && v08CaseOf(id) == c {
			return true
		}
	}
	return false
}

func v08Covered(dels []*sdcpb.Path, id string) bool {
	for _, del := range dels {
		if vIsPrefix(vPathID(del), id) {
			return true
		}
	}
	return false
}

// VerifChoiceStep: C08 on one successful TransactionSet with one intent
// (create / change / move to the other case / re-prioritise / delete).
func VerifChoiceStep() {
	sc := v08PickScenario()
	env := vNewEnv()
	pre := v08ArbitraryState(sc)
	pre.install(env)
	req := v08ArbitraryRequest(pre, "req.", verifrt.Choice("req.owner", len(sc.owners)))
	verifrt.Reach("state-built")

	nondet := verifrt.Param("mapnondet", 0) == 1
	if nondet {
		verifrt.MapOrderNondet(true)
	}
	rsp, err := v08Step(env, sc, "t1", req)
	if nondet {
		verifrt.MapOrderNondet(false)
	}
	verifrt.Reach("step-done")
	verifrt.Assert(err == nil, "valid-request-accepted")
	if err != nil {
		return
	}
	verifrt.Assert(!vHasErrors(rsp), "valid-request-no-intent-errors")
	if vHasErrors(rsp) {
		return
	}
	post := pre.apply(req)
	oldW := pre.winner()
	newW := post.winner()

	var upds []*sdcpb.Update
	var dels []*sdcpb.Path
	verifrt.Assert(env.tgt.Sets == 1, "C08-one-set-call")
	if env.tgt.Sets >= 1 {
		upds, dels = env.tgt.Updates[0], env.tgt.Deletes[0]
	}
	// device' = running, minus the deleted subtrees (element-wise), plus the updates
	dev := &v08Device{pres: map[string]bool{}, tv: map[string]*sdcpb.TypedValue{}}
	for _, l := range sc.leaves {
		if pre.rpres[l.id] {
			dev.pres[l.id] = true
			dev.tv[l.id] = l.tv(pre.rval[l.id])
		}
	}
	for _, d := range dels {
		verifrt.Note("delete %s", vPathID(d))
	}
	for _, u := range upds {
		verifrt.Note("update %s = %s", vPathID(u.GetPath()), u.GetValue().String())
	}
	for id := range dev.pres {
		if v08Covered(dels, id) {
			dev.pres[id] = false
		}
	}
	for _, u := range upds {
		uid := vPathID(u.GetPath())
		dev.pres[uid] = true
		dev.tv[uid] = u.GetValue()
	}

	// situation of the step (concrete on every path), used to label findings
	winnerChanges := oldW >= 0 && newW >= 0 && oldW != newW
	ruler := ""
	if newW >= 0 {
		ruler = post.liveOrder()[0]
	}
	// after the step, does an intent other than the requested one hold the losing / the winning case?
	otherHoldsLoser, otherHoldsWinner := false, false
	for _, o := range sc.owners {
		if o != req.owner && post.cas[o] >= 0 {
			if post.cas[o] == newW {
				otherHoldsWinner = true
			} else {
				otherHoldsLoser = true
			}
		}
	}
	situation := ""
	switch {
	case winnerChanges && ruler != req.owner:
		// the ruling intent went away or lost precedence; an intent of the other
		// case, shadowed so far, now holds the highest precedence
		situation = "/shadowed-case-becomes-winner"
	case winnerChanges && otherHoldsLoser:
		// the request brings the new winning case; the previous case keeps a live (now shadowed) contribution
		situation = "/previous-case-still-held-by-another-intent"
	case winnerChanges && otherHoldsWinner:
		// the request brings the new winning case, to which a so far shadowed intent contributes as well
		situation = "/new-case-also-held-by-shadowed-intent"
	case winnerChanges:
		situation = "/winner-changes"
	case newW >= 0 && oldW == newW && otherHoldsLoser:
		// the winner does not change; an intent of the winning case is submitted, changed or
		// deleted while another intent holds the other (shadowed) case
		situation = "/winner-unchanged-while-other-case-shadowed"
	}

	// (1) at most one case
	verifrt.Assert(!(dev.casePresent(0) && dev.casePresent(1)), "C08-at-most-one-case-on-device"+situation)
	// (2) namely the case of the highest-precedence live contribution
	if newW < 0 {
		verifrt.Assert(!dev.casePresent(0) && !dev.casePresent(1), "C08-no-case-on-device-without-contribution")
	} else {
		verifrt.Assert(!dev.casePresent(1-newW), "C08-losing-case-absent-from-device"+situation)
		ord := post.liveOrder()
		for _, l := range sc.leaves {
			if l.cas != newW {
				continue
			}
			for _, o := range ord {
				if post.pres[l.id][o] {
					sit := situation
					if sit == "" && l.isBool && o != req.owner && !pre.pres[l.id][req.owner] && !req.pres[l.id] {
						// the winner does not change; the member has a schema default, belongs to
						// another intent and is not a path of the requested intent (old or new)
						sit = "/default-leaf-of-another-intent-not-in-request"
					}
					verifrt.Assert(dev.pres[l.id], "C08-winning-case-member-on-device"+sit)
					if dev.pres[l.id] {
						verifrt.Assert(l.sameVal(dev.tv[l.id], post.val[l.id][o]), "C08-winning-case-member-value"+situation)
					}
					break
				}
			}
		}
	}
	// (3) the previously active case is deleted in this very transaction
	if oldW >= 0 && newW != oldW {
		verifrt.Reach("winner-changed")
		for _, l := range sc.leaves {
			if l.cas == oldW && pre.rpres[l.id] {
				verifrt.Assert(v08Covered(dels, l.id), "C08-previous-case-deleted-in-same-transaction"+situation)
			}
		}
	}
	// no delete touches the winning case's nodes without re-creating them is covered by (2);
	// the running mirror (the invariant for the next step) holds one case at most
	c0, c1 := false, false
	for _, e := range env.model.Config {
		id := strings.Join(e.Path, "/")
		if v08CaseOf(id) == 0 {
			c0 = true
		}
		if v08CaseOf(id) == 1 {
			c1 = true
		}
	}
	verifrt.Assert(!(c0 && c1), "C08-running-store-at-most-one-case"+situation)
}

// v08FinalDevice: the device configuration after all payloads env's target recorded, starting
// from the running content of st.
func v08FinalDevice(st *v08State, env *vEnv) *v08Device {
	dev := &v08Device{pres: map[string]bool{}, tv: map[string]*sdcpb.TypedValue{}}
	for _, l := range st.sc.leaves {
		if st.rpres[l.id] {
			dev.pres[l.id] = true
			dev.tv[l.id] = l.tv(st.rval[l.id])
		}
	}
	for i := range env.tgt.Updates {
		for id := range dev.pres {
			if v08Covered(env.tgt.Deletes[i], id) {
				dev.pres[id] = false
			}
		}
		for _, u := range env.tgt.Updates[i] {
			uid := vPathID(u.GetPath())
			dev.pres[uid] = true
			dev.tv[uid] = u.GetValue()
		}
	}
	return dev
}

// VerifChoiceFaultRetry (C07 over the choice scenarios): the same request is run twice from
// the same arbitrary state in two datastores - once fault-free (the reference), once with the
// k-th cache call failing once and the request repeated afterwards (after a Confirm when the
// faulty attempt was applied regardless). Device configuration and both stores must end up
// equal to the reference.
func VerifChoiceFaultRetry() {
	sc := v08PickScenario()
	pre := v08ArbitraryState(sc)
	envR, envF := vNewEnv(), vNewEnv()
	pre.install(envR)
	pre.install(envF)
	req := v08ArbitraryRequest(pre, "req.", verifrt.Choice("req.owner", len(sc.owners)))
	verifrt.Reach("state-built")

	rspR, errR := v08Step(envR, sc, "r1", req)
	verifrt.Assume(errR == nil && !vHasErrors(rspR))
	// two references: after the request once (R1), and after it was kept and submitted again (R2;
	// what a verbatim re-submission does to a choice is C09's business, not judged here)
	devR1, snapR1 := v08FinalDevice(pre, envR), vSnapshot(envR.model)
	verifrt.Assume(envR.ds.TransactionConfirm(context.Background(), "r1") == nil)
	rspR2, errR2 := v08Step(envR, sc, "r2", req)
	verifrt.Assume(errR2 == nil && !vHasErrors(rspR2))
	devR2, snapR2 := v08FinalDevice(pre, envR), vSnapshot(envR.model)

	envF.model.FailAt = envF.model.Calls + 1 + verifrt.Choice("fault.cacheCall", verifrt.Param("maxCacheCalls", 12))
	rsp1, err1 := v08Step(envF, sc, "t1", req)
	if envF.model.Calls < envF.model.FailAt {
		return // fewer cache calls than the fault index
	}
	envF.model.FailAt = 0
	verifrt.Reach("fault-hit")
	kind := "cache"
	if n := len(envF.model.Log); n > 0 {
		kind = "cache-" + strings.TrimPrefix(envF.model.Log[n-1], "FAIL ")
	}
	devR, snapR := devR1, snapR1
	if err1 == nil && !vHasErrors(rsp1) {
		// the fault did not surface: the attempt was applied; the client keeps it and repeats the request
		verifrt.Reach("fault-swallowed")
		kind += "-swallowed"
		verifrt.Assert(envF.ds.TransactionConfirm(context.Background(), "t1") == nil, "C07-choice-confirm-after-swallowed-fault")
		devR, snapR = devR2, snapR2
	}
	rsp2, err2 := v08Step(envF, sc, "t2", req)
	verifrt.Reach("retried")
	verifrt.Assert(err2 == nil && !vHasErrors(rsp2), "C07-choice-retry-accepted/after-"+kind+"-failure")
	if err2 != nil || vHasErrors(rsp2) {
		return
	}
	devF := v08FinalDevice(pre, envF)
	lbl := "C07-choice-retry-converges/after-" + kind + "-failure"
	for _, l := range sc.leaves {
		verifrt.Assert(devR.pres[l.id] == devF.pres[l.id], lbl+"-device-presence")
		if devR.pres[l.id] && devF.pres[l.id] {
			verifrt.Assert(vSameTV(devR.tv[l.id], devF.tv[l.id]), lbl+"-device-value")
		}
	}
	vAssertSameBuckets(snapR, vSnapshot(envF.model), lbl+"-stores")
}

// VerifChoiceReapply (C09 over the choice scenarios): a live intent is re-submitted verbatim
// (name, priority, content as stored) from an arbitrary Inv-state: nothing is sent in any
// encoding and both stores stay as they are - whether the intent's case wins the choice or not.
func VerifChoiceReapply() {
	sc := v08PickScenario()
	env := vNewEnv()
	env.tgt.AllEncodings = true
	pre := v08ArbitraryState(sc)
	pre.install(env)
	o := sc.owners[verifrt.Choice("re.owner", len(sc.owners))]
	verifrt.Assume(pre.cas[o] >= 0)
	req := &v08Request{owner: o, prio: pre.prio[o], cas: pre.cas[o], pres: map[string]bool{}, val: map[string]v08Val{}}
	for _, l := range sc.leaves {
		if pre.pres[l.id][o] {
			req.pres[l.id] = true
			req.val[l.id] = pre.val[l.id][o]
		}
	}
	before := vSnapshot(env.model)
	verifrt.Reach("state-built")
	rsp, err := v08Step(env, sc, "t1", req)
	verifrt.Assert(err == nil && !vHasErrors(rsp), "valid-request-accepted")
	if err != nil || vHasErrors(rsp) {
		return
	}
	verifrt.Reach("step-done")
	// situation: does the re-submitted intent hold the winning case?
	situation := "/intent-holds-the-winning-case"
	if w := pre.winner(); w >= 0 && pre.cas[o] != w {
		situation = "/intent-holds-a-losing-case"
	}
	for i := 0; i < env.tgt.Sets; i++ {
		verifrt.Assert(len(env.tgt.Updates[i]) == 0, "C09-choice-no-proto-update"+situation)
		verifrt.Assert(len(env.tgt.Deletes[i]) == 0, "C09-choice-no-proto-delete"+situation)
		verifrt.Assert(env.tgt.JsonEmpty[i], "C09-choice-json-empty"+situation)
		verifrt.Assert(env.tgt.JsonIetfEmpty[i], "C09-choice-json-ietf-empty"+situation)
		verifrt.Assert(env.tgt.XmlEmpty[i], "C09-choice-xml-empty"+situation)
	}
	vAssertSameBuckets(before, vSnapshot(env.model), "C09-choice-stores-unchanged")
}
