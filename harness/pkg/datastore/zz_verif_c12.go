//go:build verif

package datastore

// C12 "values survive every conversion unchanged", through the real Datastore:
// one intent with one leaf (SdcpbTransactionIntentToInternalTI: ExpandUpdates,
// validateUpdate -> ConvertTypedValueToYANGType; TransactionSet: tree, validation,
// target, write-back), the leaf picked among the leaf types of the test
// schema, the value given as its natural typed value, as StringVal text, inside
// a JSON document addressed to the enclosing container, or as a JSON value
// addressed to the leaf itself. Afterwards the value is looked at everywhere it
// went: the proto update, JSON, JSON_IETF and XML documents handed to the
// target, the INTENDED and CONFIG store entries, and Datastore.Get in STRING and
// PROTO encoding. All of them must denote the supplied datum - and carry the
// typed kind of the leaf's YANG type, whatever the input form was.

import (
	"context"
	"strconv"
	"strings"

	"github.com/beevik/etree"
	"github.com/sdcio/data-server/pkg/datastore/target"
	"github.com/sdcio/data-server/pkg/datastore/types"
	"github.com/sdcio/data-server/pkg/utils"
	"github.com/sdcio/data-server/pkg/verifrt"
	sdcpb "github.com/sdcio/sdc-protos/sdcpb"
)

// v12Target records, next to what vTarget records, the three documents.
type v12Target struct {
	*vTarget
	Json     []any
	JsonIetf []any
	Xml      []*etree.Document
}

func (t *v12Target) Set(ctx context.Context, source target.TargetSource) (*sdcpb.SetDataResponse, error) {
	rsp, err := t.vTarget.Set(ctx, source)
	if err != nil {
		return rsp, err
	}
	j, err := source.ToJson(true)
	if err != nil {
		return nil, err
	}
	ji, err := source.ToJsonIETF(true)
	if err != nil {
		return nil, err
	}
	x, err := source.ToXML(true, false, false, false)
	if err != nil {
		return nil, err
	}
	t.Json = append(t.Json, j)
	t.JsonIetf = append(t.JsonIetf, ji)
	t.Xml = append(t.Xml, x)
	return rsp, nil
}

const (
	v12FTyped      = iota // the natural typed value of the YANG type
	v12FString            // StringVal holding the lexical form
	v12FString2           // StringVal, second spelling (identityref: module-qualified)
	v12FJsonDoc           // JsonVal document {"leaf": value} at the enclosing container
	v12FJsonDoc2          // JSON document, second spelling (identityref qualified; empty as {})
	v12FJsonIetf          // JsonIetfVal document at the enclosing container
	v12FJsonAtLeaf        // JsonVal holding just the value, at the leaf path
	v12NForms
)

var v12FormNames = [v12NForms]string{"typed", "string", "string-qualified", "json-document", "json-document-alt", "json-ietf-document", "json-value-at-leaf"}

func v12IsJson(f int) bool { return f >= v12FJsonDoc }

// v12Case is the chosen leaf, value and input form.
type v12Case struct {
	typ     string // YANG type (label part)
	path    *sdcpb.Path
	strs    []string
	want    *sdcpb.TypedValue // natural typed value of the datum
	upd     *sdcpb.Update     // the request update
	extra   []*sdcpb.Update   // mandatory siblings (union leaf only)
	members []string          // JSON member names from the root to the leaf; "name=key" for list entries
	ietfTop string            // module of the top-level member (JSON_IETF)
	xmlText []string          // expected XML element text(s)
}

func v12TV(kind string, v any) *sdcpb.TypedValue {
	switch kind {
	case "uint":
		return vUintTV(v.(uint64))
	case "int":
		return &sdcpb.TypedValue{Value: &sdcpb.TypedValue_IntVal{IntVal: v.(int64)}}
	case "bool":
		return &sdcpb.TypedValue{Value: &sdcpb.TypedValue_BoolVal{BoolVal: v.(bool)}}
	case "empty":
		return &sdcpb.TypedValue{Value: &sdcpb.TypedValue_EmptyVal{}}
	}
	return vStrTV(v.(string))
}

func v12LL(el ...*sdcpb.TypedValue) *sdcpb.TypedValue {
	return &sdcpb.TypedValue{Value: &sdcpb.TypedValue_LeaflistVal{LeaflistVal: &sdcpb.ScalarArray{Element: el}}}
}

func v12JsonTV(form int, doc string) *sdcpb.TypedValue {
	if form == v12FJsonIetf {
		return &sdcpb.TypedValue{Value: &sdcpb.TypedValue_JsonIetfVal{JsonIetfVal: []byte(doc)}}
	}
	return &sdcpb.TypedValue{Value: &sdcpb.TypedValue_JsonVal{JsonVal: []byte(doc)}}
}

// v12Leaves: the leaves of the test schema the harness picks from.
var v12Leaves = []string{"uint16", "string", "enumeration", "identityref", "empty", "leaflist-of-strings", "leaflist-of-uints", "int32", "boolean", "union"}

// v12Pick chooses leaf, form and value. JSON text is decoded by the engine's
// model of encoding/json from CONCRETE bytes only: in the JSON forms the value
// is one of a few concrete boundary/interior values, in the other forms it is
// symbolic over the valid range of the type (one digit count per range).
func v12Pick() (*v12Case, int) {
	li := verifrt.Param("leaf", -1)
	if li < 0 || li >= len(v12Leaves) {
		li = verifrt.Choice("leaf", len(v12Leaves))
	}
	c := &v12Case{typ: v12Leaves[li]}
	var forms []int
	var leafPath, contPath *sdcpb.Path
	var leafName string
	ifc := func(name string) *sdcpb.PathElem { return vPE("interface", "name", name) }
	switch c.typ {
	case "uint16": // interface[name=lo1]/mtu
		forms = []int{v12FTyped, v12FString, v12FJsonDoc, v12FJsonIetf, v12FJsonAtLeaf}
		contPath, leafName = vPath(ifc("lo1")), "mtu"
		c.strs = []string{"interface", "lo1", "mtu"}
		c.members = []string{"interface", "name=lo1", "mtu"}
		c.ietfTop = "sdcio_model_if"
	case "string": // interface[name=lo1]/description
		forms = []int{v12FTyped, v12FJsonDoc, v12FJsonIetf, v12FJsonAtLeaf}
		contPath, leafName = vPath(ifc("lo1")), "description"
		c.strs = []string{"interface", "lo1", "description"}
		c.members = []string{"interface", "name=lo1", "description"}
		c.ietfTop = "sdcio_model_if"
	case "enumeration": // interface[name=lo1]/admin-state
		forms = []int{v12FTyped, v12FJsonDoc, v12FJsonIetf, v12FJsonAtLeaf}
		contPath, leafName = vPath(ifc("lo1")), "admin-state"
		c.strs = []string{"interface", "lo1", "admin-state"}
		c.members = []string{"interface", "name=lo1", "admin-state"}
		c.ietfTop = "sdcio_model_if"
	case "identityref": // interface[name=ethernet-1/1]/subinterface[index=5]/type
		forms = []int{v12FTyped, v12FString, v12FString2, v12FJsonDoc, v12FJsonDoc2, v12FJsonIetf, v12FJsonAtLeaf}
		contPath, leafName = vPath(ifc("ethernet-1/1"), vPE("subinterface", "index", "5")), "type"
		c.strs = []string{"interface", "ethernet-1/1", "subinterface", "5", "type"}
		c.members = []string{"interface", "name=ethernet-1/1", "subinterface", "index=5", "type"}
		c.ietfTop = "sdcio_model_if"
	case "empty": // emptyconf
		forms = []int{v12FTyped, v12FJsonDoc, v12FJsonDoc2, v12FJsonIetf}
		contPath, leafName = vPath(), "emptyconf"
		c.strs = []string{"emptyconf"}
		c.members = []string{"emptyconf"}
		c.ietfTop = "sdcio_model"
	case "leaflist-of-strings": // leaflist/entry (min-elements 2, max-elements 3)
		forms = []int{v12FTyped, v12FJsonDoc, v12FJsonIetf, v12FJsonAtLeaf}
		contPath, leafName = vPath(vPE("leaflist")), "entry"
		c.strs = []string{"leaflist", "entry"}
		c.members = []string{"leaflist", "entry"}
		c.ietfTop = "sdcio_model_leaflist"
	case "leaflist-of-uints": // rangetestLeaflist (uint32, range 10..300 | 5000..5020 | 9999)
		forms = []int{v12FTyped, v12FString, v12FJsonDoc, v12FJsonIetf, v12FJsonAtLeaf}
		contPath, leafName = vPath(), "rangetestLeaflist"
		c.strs = []string{"rangetestLeaflist"}
		c.members = []string{"rangetestLeaflist"}
		c.ietfTop = "sdcio_model"
	case "int32": // rangetestsigned (range -3000..-60 | -50 | -32..-1 | 10..300)
		forms = []int{v12FTyped, v12FString, v12FJsonDoc, v12FJsonIetf, v12FJsonAtLeaf}
		contPath, leafName = vPath(), "rangetestsigned"
		c.strs = []string{"rangetestsigned"}
		c.members = []string{"rangetestsigned"}
		c.ietfTop = "sdcio_model"
	case "boolean": // choices/case1/log
		forms = []int{v12FTyped, v12FString, v12FJsonDoc, v12FJsonIetf, v12FJsonAtLeaf}
		contPath, leafName = vPath(vPE("choices"), vPE("case1")), "log"
		c.strs = []string{"choices", "case1", "log"}
		c.members = []string{"choices", "case1", "log"}
		c.ietfTop = "sdcio_model_choice"
	default: // union: network-instance[name=default]/protocol/bgp/router-id (ipv4 | ipv6 address)
		forms = []int{v12FTyped, v12FJsonDoc, v12FJsonIetf, v12FJsonAtLeaf}
		contPath, leafName = vPath(vPE("network-instance", "name", "default"), vPE("protocol"), vPE("bgp")), "router-id"
		c.strs = []string{"network-instance", "default", "protocol", "bgp", "router-id"}
		c.members = []string{"network-instance", "name=default", "protocol", "bgp", "router-id"}
		c.ietfTop = "sdcio_model_ni"
	}
	fi := verifrt.Param("form", -1)
	if fi >= 0 {
		ok := false
		for _, f := range forms {
			if f == fi {
				ok = true
			}
		}
		verifrt.Assume(ok)
	} else {
		fi = forms[verifrt.Choice("form", len(forms))]
	}
	leafPath = &sdcpb.Path{Elem: append(append([]*sdcpb.PathElem{}, contPath.GetElem()...), vPE(leafName))}
	c.path = leafPath
	isJson := v12IsJson(fi)

	// the datum: want = natural typed value, txt = lexical form, jtxt = JSON spelling
	var txt, jtxt string
	switch c.typ {
	case "uint16":
		var u uint64
		if isJson {
			u = []uint64{0, 1500, 65535}[verifrt.Choice("value", 3)]
		} else {
			u = uint64(verifrt.IntRange("value", 1000, 9999))
		}
		c.want = vUintTV(u)
		txt = strconv.FormatUint(u, 10)
		jtxt = txt
	case "string":
		var s string
		if isJson {
			s = []string{"a", "a b", "12"}[verifrt.Choice("value", 3)]
		} else {
			s = verifrt.String("value", 2, "ab1")
			verifrt.Assume(len(s) >= 1)
		}
		c.want = vStrTV(s)
		txt, jtxt = s, "\""+s+"\""
	case "enumeration":
		s := []string{"enable", "disable"}[verifrt.Choice("value", 2)]
		c.want = vStrTV(s)
		txt, jtxt = s, "\""+s+"\""
	case "identityref":
		s := []string{"routed", "bridged"}[verifrt.Choice("value", 2)]
		c.want = &sdcpb.TypedValue{Value: &sdcpb.TypedValue_IdentityrefVal{IdentityrefVal: &sdcpb.IdentityRef{Value: s, Prefix: "sdcio_model_common", Module: "sdcio_model_common"}}}
		txt = s
		if fi == v12FString2 || fi == v12FJsonDoc2 || fi == v12FJsonIetf {
			txt = "sdcio_model_common:" + s
		}
		jtxt = "\"" + txt + "\""
	case "empty":
		c.want = v12TV("empty", nil)
		jtxt = "[null]"
		if fi == v12FJsonDoc2 {
			jtxt = "{}"
		}
	case "leaflist-of-strings":
		n := 2 + verifrt.Choice("entries", 2)
		var el []*sdcpb.TypedValue
		var js []string
		for i := 0; i < n; i++ {
			var s string
			if isJson {
				s = []string{"b", "a", "b"}[i] // not sorted, one duplicate
			} else {
				s = verifrt.String("value"+string(rune('0'+i)), 1, "ab")
				verifrt.Assume(len(s) == 1)
			}
			el = append(el, vStrTV(s))
			js = append(js, "\""+s+"\"")
		}
		c.want = v12LL(el...)
		jtxt = "[" + strings.Join(js, ",") + "]"
	case "leaflist-of-uints":
		n := 1 + verifrt.Choice("entries", 2)
		var el, sel []*sdcpb.TypedValue
		var js []string
		for i := 0; i < n; i++ {
			var u uint64
			if isJson {
				u = []uint64{300, 10}[i]
			} else {
				u = uint64(verifrt.IntRange("value"+string(rune('0'+i)), 10, 99))
			}
			el = append(el, vUintTV(u))
			sel = append(sel, vStrTV(strconv.FormatUint(u, 10)))
			js = append(js, strconv.FormatUint(u, 10))
		}
		c.want = v12LL(el...)
		jtxt = "[" + strings.Join(js, ",") + "]"
		if fi == v12FString {
			// the entries in string form
			c.upd = &sdcpb.Update{Path: leafPath, Value: v12LL(sel...)}
		}
	case "int32":
		var i int64
		if isJson {
			i = []int64{-3000, -50, -1, 300}[verifrt.Choice("value", 4)]
		} else {
			i = verifrt.IntRange("value", -3000, -1000)
		}
		c.want = v12TV("int", i)
		txt = strconv.FormatInt(i, 10)
		jtxt = txt
	case "boolean":
		b := verifrt.Choice("value", 2) == 1
		c.want = v12TV("bool", b)
		txt = strconv.FormatBool(b)
		jtxt = txt
	default:
		s := []string{"10.0.0.1", "2001:db8::1"}[verifrt.Choice("value", 2)]
		c.want = vStrTV(s)
		txt, jtxt = s, "\""+s+"\""
	}

	// the request
	asPath := vPath(vPE("network-instance", "name", "default"), vPE("protocol"), vPE("bgp"), vPE("autonomous-system"))
	switch {
	case c.upd != nil:
	case fi == v12FTyped:
		c.upd = &sdcpb.Update{Path: leafPath, Value: c.want}
	case fi == v12FString || fi == v12FString2:
		c.upd = &sdcpb.Update{Path: leafPath, Value: vStrTV(txt)}
	case fi == v12FJsonAtLeaf:
		c.upd = &sdcpb.Update{Path: leafPath, Value: v12JsonTV(fi, jtxt)}
	default:
		member := leafName
		if fi == v12FJsonIetf && len(contPath.GetElem()) == 0 {
			member = c.ietfTop + ":" + leafName // top-level members are module-qualified in JSON_IETF
		}
		doc := "{\"" + member + "\":" + jtxt
		if c.typ == "union" {
			doc += ",\"autonomous-system\":65000"
		}
		doc += "}"
		c.upd = &sdcpb.Update{Path: contPath, Value: v12JsonTV(fi, doc)}
	}
	if c.typ == "union" && !(v12IsJson(fi) && fi != v12FJsonAtLeaf) {
		// bgp/autonomous-system is mandatory next to router-id
		c.extra = []*sdcpb.Update{{Path: asPath, Value: vUintTV(65000)}}
	}
	// XML text
	switch c.typ {
	case "identityref":
		c.xmlText = []string{"sdcio_model_common:" + c.want.GetIdentityrefVal().GetValue()}
	case "empty":
		c.xmlText = []string{""}
	case "leaflist-of-strings", "leaflist-of-uints":
		for _, e := range c.want.GetLeaflistVal().GetElement() {
			c.xmlText = append(c.xmlText, utils.TypedValueToString(e))
		}
	default:
		c.xmlText = []string{utils.TypedValueToString(c.want)}
	}
	return c, fi
}

func v12KindName(tv *sdcpb.TypedValue) string {
	if tv == nil {
		return "no-value"
	}
	switch tv.GetValue().(type) {
	case nil:
		return "unset"
	case *sdcpb.TypedValue_StringVal:
		return "StringVal"
	case *sdcpb.TypedValue_IntVal:
		return "IntVal"
	case *sdcpb.TypedValue_UintVal:
		return "UintVal"
	case *sdcpb.TypedValue_BoolVal:
		return "BoolVal"
	case *sdcpb.TypedValue_EmptyVal:
		return "EmptyVal"
	case *sdcpb.TypedValue_IdentityrefVal:
		return "IdentityrefVal"
	case *sdcpb.TypedValue_LeaflistVal:
		return "LeaflistVal"
	case *sdcpb.TypedValue_JsonVal:
		return "JsonVal"
	case *sdcpb.TypedValue_JsonIetfVal:
		return "JsonIetfVal"
	case *sdcpb.TypedValue_DecimalVal:
		return "DecimalVal"
	}
	return "other"
}

// v12Shape: the kind, for a leaf-list with the kinds of the entries.
func v12Shape(tv *sdcpb.TypedValue) string {
	s := v12KindName(tv)
	if ll := tv.GetLeaflistVal(); ll != nil {
		ks := map[string]bool{}
		var names []string
		for _, e := range ll.GetElement() {
			k := v12KindName(e)
			if !ks[k] {
				ks[k] = true
				names = append(names, k)
			}
		}
		s += "-of-" + strings.Join(names, "+")
		if len(names) == 0 {
			s = "LeaflistVal-of-nothing"
		}
	}
	return s
}

// v12Payload: same payload, the kinds being equal. non-forking.
func v12Payload(got, want *sdcpb.TypedValue) bool {
	switch w := want.GetValue().(type) {
	case *sdcpb.TypedValue_StringVal:
		return got.GetStringVal() == w.StringVal
	case *sdcpb.TypedValue_IntVal:
		return got.GetIntVal() == w.IntVal
	case *sdcpb.TypedValue_UintVal:
		return got.GetUintVal() == w.UintVal
	case *sdcpb.TypedValue_BoolVal:
		return got.GetBoolVal() == w.BoolVal
	case *sdcpb.TypedValue_EmptyVal:
		return true
	case *sdcpb.TypedValue_IdentityrefVal:
		g := got.GetIdentityrefVal()
		return verifrt.And(g.GetValue() == w.IdentityrefVal.GetValue(), verifrt.And(g.GetPrefix() == w.IdentityrefVal.GetPrefix(), g.GetModule() == w.IdentityrefVal.GetModule()))
	case *sdcpb.TypedValue_LeaflistVal:
		ge, we := got.GetLeaflistVal().GetElement(), w.LeaflistVal.GetElement()
		if len(ge) != len(we) {
			return false
		}
		r := true
		for i := range we {
			r = verifrt.And(r, v12Payload(ge[i], we[i]))
		}
		return r
	}
	return false
}

// v12AssertTV: got (found at `where`) denotes the datum with the kind of the
// YANG type. A different kind names the situation: <type> given as <form>
// arrives as <kind>.
func v12AssertTV(where string, c *v12Case, form int, got *sdcpb.TypedValue, found bool) {
	base := "C12-" + where + "-denotes-supplied-datum"
	verifrt.Assert(found, "C12-"+where+"-present/"+c.typ+"-given-as-"+v12FormNames[form])
	if !found {
		return
	}
	if v12Shape(got) != v12Shape(c.want) {
		verifrt.Assert(false, base+"/"+c.typ+"-given-as-"+v12FormNames[form]+"-is-"+v12Shape(got))
		return
	}
	verifrt.Assert(v12Payload(got, c.want), base)
}

// v12JsonFind walks doc along members ("name=key" selects the list entry).
func v12JsonFind(doc any, members []string, ietfTop string) (any, bool) {
	cur := doc
	for i := 0; i < len(members); i++ {
		m, ok := cur.(map[string]any)
		if !ok {
			return nil, false
		}
		name := members[i]
		v, ok := m[name]
		if !ok && i == 0 && ietfTop != "" {
			v, ok = m[ietfTop+":"+name]
		}
		if !ok {
			return nil, false
		}
		cur = v
		if i+1 < len(members) && strings.Contains(members[i+1], "=") {
			k, kv, _ := strings.Cut(members[i+1], "=")
			arr, ok := cur.([]any)
			if !ok {
				return nil, false
			}
			var hit any
			for _, e := range arr {
				em, ok := e.(map[string]any)
				if !ok {
					continue
				}
				if s, ok := em[k].(string); ok && s == kv {
					hit = e
				}
				// keys of numeric type are rendered as numbers
				if u, ok := em[k].(uint64); ok && strconv.FormatUint(u, 10) == kv {
					hit = e
				}
			}
			if hit == nil {
				return nil, false
			}
			cur = hit
			i++
		}
	}
	return cur, true
}

// v12JsonScalarText: the text a JSON scalar denotes.
func v12JsonScalarText(v any) (string, string) {
	switch x := v.(type) {
	case string:
		return x, "string"
	case uint64:
		return strconv.FormatUint(x, 10), "number"
	case int64:
		return strconv.FormatInt(x, 10), "number"
	case bool:
		return strconv.FormatBool(x), "boolean"
	case map[string]any:
		if len(x) == 0 {
			return "{}", "empty-object"
		}
		return "", "object"
	case nil:
		return "", "null"
	}
	return "", "other"
}

// v12AssertJson: the JSON / JSON_IETF document handed to the target holds the
// datum at the leaf: numbers as JSON numbers, booleans as JSON booleans,
// identityref as its name (JSON) / module-qualified name (JSON_IETF), the text
// being TypedValueToString of the datum.
func v12AssertJson(where string, c *v12Case, form int, doc any, ietf bool) {
	sfx := "/" + c.typ + "-given-as-" + v12FormNames[form]
	top := ""
	if ietf {
		top = c.ietfTop
	}
	v, ok := v12JsonFind(doc, c.members, top)
	verifrt.Assert(ok, "C12-"+where+"-present"+sfx)
	if !ok {
		return
	}
	base := "C12-" + where + "-denotes-supplied-datum"
	wantKind := map[string]string{"uint16": "number", "int32": "number", "boolean": "boolean", "empty": "empty-object"}[c.typ]
	if wantKind == "" {
		wantKind = "string"
	}
	if ll := c.want.GetLeaflistVal(); ll != nil {
		arr, isArr := v.([]any)
		if !isArr || len(arr) != len(ll.GetElement()) {
			verifrt.Assert(false, base+sfx+"-is-not-the-array-of-entries")
			return
		}
		ek := "string"
		if c.typ == "leaflist-of-uints" {
			ek = "number"
		}
		all := true
		for i, e := range arr {
			t, k := v12JsonScalarText(e)
			if k != ek {
				verifrt.Assert(false, base+sfx+"-entry-is-json-"+k)
				return
			}
			all = verifrt.And(all, t == utils.TypedValueToString(ll.GetElement()[i]))
		}
		verifrt.Assert(all, base)
		return
	}
	t, k := v12JsonScalarText(v)
	if k != wantKind {
		verifrt.Assert(false, base+sfx+"-is-json-"+k)
		return
	}
	want := utils.TypedValueToString(c.want)
	if ietf && c.typ == "identityref" {
		want = c.want.GetIdentityrefVal().GetModule() + ":" + want
	}
	if c.typ == "identityref" && t != want {
		// a fixed pair of concrete texts: name the spelling that came out
		verifrt.Assert(false, base+sfx+"-is-spelled-"+strings.ReplaceAll(t, c.want.GetIdentityrefVal().GetValue(), "NAME"))
		return
	}
	verifrt.Assert(t == want, base)
}

// v12XmlFind: the elements of the leaf in the XML document.
func v12XmlFind(doc *etree.Document, members []string) []*etree.Element {
	if doc == nil {
		return nil
	}
	cur := []*etree.Element{&doc.Element}
	for i := 0; i < len(members); i++ {
		var next []*etree.Element
		for _, e := range cur {
			for _, ch := range e.ChildElements() {
				if ch.Tag == members[i] {
					next = append(next, ch)
				}
			}
		}
		if i+1 < len(members) && strings.Contains(members[i+1], "=") {
			k, kv, _ := strings.Cut(members[i+1], "=")
			var sel []*etree.Element
			for _, e := range next {
				if ke := e.SelectElement(k); ke != nil && ke.Text() == kv {
					sel = append(sel, e)
				}
			}
			next = sel
			i++
		}
		cur = next
	}
	return cur
}

func v12AssertXml(c *v12Case, form int, doc *etree.Document) {
	sfx := "/" + c.typ + "-given-as-" + v12FormNames[form]
	els := v12XmlFind(doc, c.members)
	verifrt.Assert(len(els) >= 1, "C12-device-xml-present"+sfx)
	if len(els) == 0 {
		return
	}
	base := "C12-device-xml-denotes-supplied-datum"
	if len(els) != len(c.xmlText) {
		verifrt.Assert(false, base+sfx+"-is-"+strconv.Itoa(len(els))+"-elements")
		return
	}
	if c.typ == "identityref" && els[0].Text() != c.xmlText[0] {
		verifrt.Assert(false, base+sfx+"-is-spelled-"+strings.ReplaceAll(els[0].Text(), c.want.GetIdentityrefVal().GetValue(), "NAME"))
		return
	}
	all := true
	for i, e := range els {
		all = verifrt.And(all, e.Text() == c.xmlText[i])
	}
	verifrt.Assert(all, base)
}

// v12GetLeaf: Datastore.Get of the leaf path in the given encoding.
func v12GetLeaf(env *vEnv, c *v12Case, enc sdcpb.Encoding, intended bool) (*sdcpb.TypedValue, bool, error, bool) {
	ds := &sdcpb.DataStore{Type: sdcpb.Type_MAIN}
	if intended {
		ds = &sdcpb.DataStore{Type: sdcpb.Type_INTENDED, Owner: "A", Priority: 10}
	}
	req := &sdcpb.GetDataRequest{Name: "ds", Datastore: ds, Path: []*sdcpb.Path{c.path}, DataType: sdcpb.DataType_CONFIG, Encoding: enc}
	msgs, err, panicked := v14Get(env, req)
	if err != nil || panicked {
		return nil, false, err, panicked
	}
	id := vPathID(c.path)
	var tv *sdcpb.TypedValue
	n := 0
	for _, m := range msgs {
		for _, no := range m.GetNotification() {
			for _, u := range no.GetUpdate() {
				if vPathID(u.GetPath()) == id {
					tv = u.GetValue()
					n++
				}
			}
		}
	}
	return tv, n == 1, nil, false
}

// VerifValueThroughDatastore: see the file comment.
func VerifValueThroughDatastore() {
	c, form := v12Pick()
	env := vNewEnv()
	tgt := &v12Target{vTarget: env.tgt}
	env.ds.sbi = tgt
	ctx := context.Background()
	sfx := "/" + c.typ + "-given-as-" + v12FormNames[form]

	ti := &sdcpb.TransactionIntent{Intent: "A", Priority: 10, Update: append([]*sdcpb.Update{c.upd}, c.extra...)}
	verifrt.Reach("request-built")
	iti, err := env.ds.SdcpbTransactionIntentToInternalTI(ctx, ti)
	verifrt.Assert(err == nil, "C12-valid-value-accepted"+sfx)
	if err != nil {
		return
	}
	rsp, err := env.ds.TransactionSet(ctx, "t1", []*types.TransactionIntent{iti}, nil, vTxnTimeout, false)
	verifrt.Reach("transaction-done")
	verifrt.Assert(err == nil && !vHasErrors(rsp), "C12-valid-value-accepted"+sfx)
	if err != nil || vHasErrors(rsp) {
		return
	}
	verifrt.Assert(env.tgt.Sets == 1 && len(tgt.Json) == 1, "C12-one-set-call")
	if env.tgt.Sets != 1 || len(tgt.Json) != 1 {
		return
	}
	id := vPathID(c.path)
	key := strings.Join(c.strs, ",")

	// One place per path (a path continues only under its assertions, so a
	// value that is wrong in one place would hide the other places).
	points := []string{"device-proto-update", "intended-store", "config-store", "get-string", "get-proto", "get-intended", "device-json", "device-json-ietf", "device-xml"}
	pi := verifrt.Param("look-at", -1)
	if pi < 0 || pi >= len(points) {
		pi = verifrt.Choice("look-at", len(points))
	}
	switch points[pi] {
	case "device-proto-update":
		var dev *sdcpb.TypedValue
		n := 0
		for _, u := range env.tgt.Updates[0] {
			if vPathID(u.GetPath()) == id {
				dev = u.GetValue()
				n++
			}
		}
		v12AssertTV("device-proto-update", c, form, dev, n == 1)
	case "intended-store":
		var tv *sdcpb.TypedValue
		n := 0
		for _, e := range env.model.Intended {
			if e.Key == key && e.Owner == "A" {
				tv = vDecode(e.Val)
				n++
			}
		}
		v12AssertTV("intended-store", c, form, tv, n == 1)
	case "config-store":
		var tv *sdcpb.TypedValue
		n := 0
		for _, e := range env.model.Config {
			if e.Key == key {
				tv = vDecode(e.Val)
				n++
			}
		}
		v12AssertTV("config-store", c, form, tv, n == 1)
	case "get-string", "get-proto", "get-intended":
		enc := sdcpb.Encoding_PROTO
		if points[pi] == "get-string" {
			enc = sdcpb.Encoding_STRING
		}
		tv, one, gerr, panicked := v12GetLeaf(env, c, enc, points[pi] == "get-intended")
		verifrt.Assert(!panicked, "C12-"+points[pi]+"-does-not-panic"+sfx)
		if panicked {
			return
		}
		verifrt.Assert(gerr == nil, "C12-"+points[pi]+"-succeeds"+sfx)
		if gerr != nil {
			return
		}
		v12AssertTV(points[pi], c, form, tv, one)
	case "device-json":
		v12AssertJson("device-json", c, form, tgt.Json[0], false)
	case "device-json-ietf":
		v12AssertJson("device-json-ietf", c, form, tgt.JsonIetf[0], true)
	default:
		v12AssertXml(c, form, tgt.Xml[0])
	}
	verifrt.Reach("looked-at-" + points[pi])
}
