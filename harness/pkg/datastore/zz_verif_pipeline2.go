//go:build verif

package datastore

// Further pipeline harnesses on the infrastructure of zz_verif_pipeline.go:
// C03 (dry run / rejected transactions), C05 (cancel, timeout), C09 (re-apply),
// C07 (single fault + retry).

import (
	"bytes"
	"context"
	"errors"
	"strings"
	"time"

	"github.com/sdcio/data-server/pkg/cache"
	"github.com/sdcio/data-server/pkg/datastore/types"
	"github.com/sdcio/data-server/pkg/tree"
	"github.com/sdcio/data-server/pkg/verifrt"
	sdcpb "github.com/sdcio/sdc-protos/sdcpb"
)

// ---- bucket snapshots

type vSnapEntry struct {
	bucket string
	key    string
	owner  string
	prio   int32
	val    []byte
}

func vSnapshot(m *cache.VerifModelCache) []vSnapEntry {
	var out []vSnapEntry
	for _, e := range m.Intended {
		out = append(out, vSnapEntry{"intended", e.Key, e.Owner, e.Prio, e.Val})
	}
	for _, e := range m.Config {
		out = append(out, vSnapEntry{"config", e.Key, "", 0, e.Val})
	}
	for _, e := range m.State {
		out = append(out, vSnapEntry{"state", e.Key, "", 0, e.Val})
	}
	return out
}

// vAssertSameBuckets: a and b hold the same multiset of (bucket, key, owner, priority, value).
func vAssertSameBuckets(a, b []vSnapEntry, label string) {
	verifrt.Assert(len(a) == len(b), label+"-same-number-of-entries")
	contains := func(xs []vSnapEntry, e vSnapEntry) bool {
		found := false
		for _, x := range xs {
			if x.bucket == e.bucket && x.key == e.key && x.owner == e.owner {
				found = verifrt.Or(found, verifrt.And(x.prio == e.prio, bytes.Equal(x.val, e.val)))
			}
		}
		return found
	}
	for _, e := range a {
		verifrt.Assert(contains(b, e), label+"-entry-preserved")
	}
	for _, e := range b {
		verifrt.Assert(contains(a, e), label+"-no-entry-added")
	}
}

// ---- C03

// a top-level leaf with a range restriction: uint32 "10..300 | 5000..5020 | 9999"
func vRangeLeaf() *vLeaf {
	return &vLeaf{id: "rangetestunsigned", elems: []*sdcpb.PathElem{vPE("rangetestunsigned")}, strs: []string{"rangetestunsigned"}, isUint: true}
}

func vRangeValid(u uint64) bool {
	return verifrt.Or(verifrt.And(u >= 10, u <= 300), verifrt.Or(verifrt.And(u >= 5000, u <= 5020), u == 9999))
}

func vScenarioRange() *vScenario {
	sc := &vScenario{leaves: []*vLeaf{vRangeLeaf()}, owners: []string{"A", "B"}}
	if verifrt.Param("scenario", 0) == 1 {
		sc = &vScenario{leaves: []*vLeaf{vRangeLeaf(), vIfLeaf("lo1", "mtu", true), vIfKeyLeaf("lo1")}, owners: []string{"A", "B"}}
	}
	for i, l := range sc.leaves {
		l.tag = "L" + string(rune('0'+i))
	}
	return sc
}

type vPayload struct {
	upd map[string]*sdcpb.TypedValue
	del map[string]bool
}

func vPayloadOf(upds []*sdcpb.Update, dels []*sdcpb.Path) *vPayload {
	p := &vPayload{upd: map[string]*sdcpb.TypedValue{}, del: map[string]bool{}}
	for _, u := range upds {
		p.upd[vPathID(u.GetPath())] = u.GetValue()
	}
	for _, d := range dels {
		p.del[vPathID(d)] = true
	}
	return p
}

func vAssertSamePayload(a, b *vPayload, label string) {
	verifrt.Assert(len(a.upd) == len(b.upd), label+"-same-number-of-updates")
	verifrt.Assert(len(a.del) == len(b.del), label+"-same-number-of-deletes")
	for k, v := range a.upd {
		w, ok := b.upd[k]
		verifrt.Assert(ok, label+"-update-path-in-both")
		if ok {
			verifrt.Assert(vSameTV(v, w), label+"-update-value-equal")
		}
	}
	for k := range a.del {
		verifrt.Assert(b.del[k], label+"-delete-in-both")
	}
}

// VerifRejectedAndDryRun: C03 on the real pipeline. The request may carry an
// out-of-range value (validation error) and may be a dry run.
func VerifRejectedAndDryRun() {
	sc := vScenarioRange()
	env := vNewEnv()
	pre := vArbitraryState(sc)
	// the device configuration is valid: the ruling stored value of the range leaf is
	// in range (a shadowed value need not be: it was never part of a resulting configuration)
	rl := sc.leaves[0]
	for _, o := range sc.owners {
		if pre.pres[rl.id][o] {
			verifrt.Assume(verifrt.Implies(pre.wins(rl, o), vRangeValid(pre.val[rl.id][o].u)))
		}
	}
	if pre.rpres[rl.id] {
		verifrt.Assume(vRangeValid(pre.rval[rl.id].u))
	}
	pre.install(env)
	req := vArbitraryRequest(pre, "req.", verifrt.Choice("req.owner", len(sc.owners)))
	reqs := []*vRequest{req}
	dry := verifrt.Bool("dryRun")
	before := vSnapshot(env.model)
	verifrt.Reach("state-built")

	rsp, err := vStep(env, sc, "t1", reqs, dry)
	verifrt.Reach("step-done")
	if err != nil {
		// conversion rejects the value before the transaction starts: nothing may have changed
		verifrt.Assert(env.tgt.Sets == 0, "C03-error-nothing-sent")
		vAssertSameBuckets(before, vSnapshot(env.model), "C03-error-stores-unchanged")
		return
	}
	// the verdict is the validity of the resulting merged configuration: the value
	// that rules the range leaf after the step must be in range
	post := pre.apply(reqs)
	invalid := false
	for _, o := range sc.owners {
		if post.pres[rl.id][o] {
			invalid = verifrt.Or(invalid, verifrt.And(post.wins(rl, o), !vRangeValid(post.val[rl.id][o].u)))
		}
	}
	if !(req.del && req.orphan) {
		// (an orphan delete leaves the device as it is; which configuration "results" is
		// not defined by the property, so the verdict is not judged there)
		activated := false
		if pre.pres[rl.id][req.owner] && !post.pres[rl.id][req.owner] {
			if pre.wins(rl, req.owner) { // forks: names the situation
				activated = true
			}
		}
		if activated {
			// the ruling value is removed (intent deleted or shrunk) and a so far
			// shadowed value becomes the configuration: it must be validated
			verifrt.Assert(vHasErrors(rsp) == invalid, "C04-range-verdict-exact/value-activated-by-removal-of-ruler")
		} else {
			verifrt.Assert(vHasErrors(rsp) == invalid, "C04-range-verdict-exact")
		}
	}
	if vHasErrors(rsp) || dry {
		verifrt.Reach("rejected-or-dry")
		verifrt.Assert(env.tgt.Sets == 0, "C03-nothing-sent")
		vAssertSameBuckets(before, vSnapshot(env.model), "C03-stores-unchanged")
	}
	if dry && !vHasErrors(rsp) {
		// the same request for real, from the same state (fresh datastore over the same stores)
		env2 := vNewEnvOver(env.model)
		rsp2, err2 := vStep(env2, sc, "t2", reqs, false)
		verifrt.Assert(err2 == nil && !vHasErrors(rsp2), "C03-real-run-after-dry-run-accepted")
		if err2 == nil && env2.tgt.Sets == 1 {
			verifrt.Reach("dry-vs-real")
			vAssertSamePayload(vPayloadOf(rsp.GetUpdate(), rsp.GetDelete()), vPayloadOf(env2.tgt.Updates[0], env2.tgt.Deletes[0]), "C03-dry-run-predicts")
		}
	}
}

// ---- C05

// VerifCancelRestores: a successful transaction followed by TransactionCancel
// (end=0) or by expiry of the rollback timer (end=1).
func VerifCancelRestores() {
	sc := vPickScenario()
	env := vNewEnv()
	pre := vArbitraryState(sc)
	pre.install(env)
	req := vArbitraryRequest(pre, "req.", verifrt.Choice("req.owner", len(sc.owners)))
	reqs := []*vRequest{req}
	before := vSnapshot(env.model)
	verifrt.Reach("state-built")
	rsp, err := vStep(env, sc, "t1", reqs, false)
	verifrt.Assert(err == nil && !vHasErrors(rsp), "valid-request-accepted")
	if err != nil || vHasErrors(rsp) {
		return
	}
	dev := pre.runningDevice()
	if env.tgt.Sets >= 1 {
		dev.applyPayload(sc, env.tgt.Updates[0], env.tgt.Deletes[0], "C05")
	}
	setsBefore := env.tgt.Sets
	payloadsBefore := len(env.tgt.Updates)
	ends := 2
	if verifrt.Param("retry", 0) == 1 {
		ends = 3
	}
	if verifrt.Param("repeat", 0) == 1 {
		// the client repeats the TransactionSet under the id of the pending transaction (the answer
		// got lost; or a dry run under that id) before it cancels / lets the timeout pass: the
		// repeat is refused and the pending transaction - the only record of what has to be
		// restored - stays as it is
		ends = 2
		rep := verifrt.Choice("repeat", 3)
		if rep != 0 {
			ctx, cancel := context.WithTimeout(context.Background(), 50*time.Millisecond)
			var tis []*types.TransactionIntent
			for _, r := range reqs {
				ti, terr := env.ds.SdcpbTransactionIntentToInternalTI(ctx, r.toProto(sc))
				if terr != nil {
					panic(terr)
				}
				tis = append(tis, ti)
			}
			_, rerr := env.ds.TransactionSet(ctx, "t1", tis, nil, vTxnTimeout, rep == 2)
			cancel()
			// (that the repeat is refused is C06's business; here only what it does to the rollback)
			if errors.Is(rerr, ErrDatastoreLocked) {
				verifrt.Reach("set-repeated-and-refused")
			}
			for i := payloadsBefore; i < len(env.tgt.Updates); i++ {
				dev.applyPayload(sc, env.tgt.Updates[i], env.tgt.Deletes[i], "C05")
			}
			setsBefore = env.tgt.Sets
			payloadsBefore = len(env.tgt.Updates)
			verifrt.Reach("set-repeated")
		}
	}
	if verifrt.Param("repeat", 0) == 1 {
		// ... or a Confirm / Cancel naming ANOTHER transaction reaches the datastore first (a client
		// confirming the wrong id): refused, and the pending transaction's rollback still happens
		switch verifrt.Choice("stray", 3) {
		case 1:
			serr := env.ds.TransactionConfirm(context.Background(), "another")
			verifrt.Assert(serr != nil, "C05-confirm-of-another-id-refused")
			verifrt.Reach("stray-confirm")
		case 2:
			serr := env.ds.TransactionCancel(context.Background(), "another")
			verifrt.Assert(serr != nil, "C05-cancel-of-another-id-refused")
			verifrt.Reach("stray-cancel")
		}
		for i := payloadsBefore; i < len(env.tgt.Updates); i++ {
			dev.applyPayload(sc, env.tgt.Updates[i], env.tgt.Deletes[i], "C05")
		}
		setsBefore = env.tgt.Sets
		payloadsBefore = len(env.tgt.Updates)
	}
	switch verifrt.Choice("end", ends) {
	case 0:
		cerr := env.ds.TransactionCancel(context.Background(), "t1")
		verifrt.Assert(cerr == nil, "C05-cancel-accepted")
	case 1:
		verifrt.AwaitQuiescence()
		verifrt.Advance(vTxnTimeout + 200*time.Millisecond)
		verifrt.AwaitQuiescence()
	case 2:
		// the device refuses the rollback of the first cancel (an error is returned, the
		// transaction stays open); the client repeats the cancel, which must restore everything
		env.tgt.FailSet = env.tgt.Sets + 1
		cerr := env.ds.TransactionCancel(context.Background(), "t1")
		env.tgt.FailSet = 0
		verifrt.Assert(cerr != nil, "C05-cancel-reports-device-failure")
		verifrt.Reach("first-cancel-failed")
		setsBefore = env.tgt.Sets
		cerr = env.ds.TransactionCancel(context.Background(), "t1")
		verifrt.Assert(cerr == nil, "C05-repeated-cancel-accepted")
	}
	verifrt.Reach("ended")
	verifrt.Assert(env.tgt.Sets == setsBefore+1, "C05-one-rollback-sent")
	if len(env.tgt.Updates) == payloadsBefore+1 {
		dev.applyPayload(sc, env.tgt.Updates[payloadsBefore], env.tgt.Deletes[payloadsBefore], "C05")
	}
	// device: every path back to value-or-absence from before
	for _, l := range sc.leaves {
		unmanaged := pre.rpres[l.id]
		for _, o := range sc.owners {
			if pre.pres[l.id][o] {
				unmanaged = false
			}
		}
		if unmanaged && !dev.pres[l.id] {
			// the path existed on the device without any intent defining it, the
			// transaction took it over, and the rollback removed it instead of restoring it
			verifrt.Assert(false, "C05-device-presence-restored/path-was-unmanaged-on-device")
			continue
		}
		if !dev.pres[l.id] && pre.rpres[l.id] {
			// lost together with an explicitly set presence container above it that the
			// transaction created and the rollback removed again? (the root cause of C01's
			// finding "below-presence-container-given-up-by-another-intent", here in the rollback)
			below := false
			for _, l2 := range sc.leaves {
				if l2.empty && l2 != l && vIsPrefix(l2.id, l.id) && req.pres[l2.id] && !pre.pres[l2.id][req.owner] {
					below = true
				}
			}
			if below {
				verifrt.Assert(false, "C05-device-presence-restored/below-presence-container-created-by-the-transaction")
				continue
			}
		}
		verifrt.Assert(dev.pres[l.id] == pre.rpres[l.id], "C05-device-presence-restored")
		if dev.pres[l.id] && pre.rpres[l.id] {
			verifrt.Assert(l.sameVal(dev.tv[l.id], pre.rval[l.id]), "C05-device-value-restored")
		}
	}
	// intended store: exactly the content from before
	pre.assertIntended(env, pre, nil, "C05-intended")
	_ = before
}

// ---- C09

// VerifReapplyNoop: an intent identical in name, priority and content to its
// stored version is re-submitted.
func VerifReapplyNoop() {
	sc := vPickScenario()
	env := vNewEnv()
	env.tgt.AllEncodings = true
	pre := vArbitraryState(sc)
	pre.install(env)
	verbatim := func(o string) *vRequest {
		verifrt.Assume(pre.ownerLive(o))
		req := &vRequest{owner: o, prio: pre.prio[o], pres: map[string]bool{}, val: map[string]vVal{}}
		for _, l := range sc.leaves {
			if l.keyOf == "" && pre.pres[l.id][o] {
				req.pres[l.id] = true
				req.val[l.id] = pre.val[l.id][o]
			}
		}
		return req
	}
	oi := verifrt.Choice("req.owner", len(sc.owners))
	reqs := []*vRequest{verbatim(sc.owners[oi])}
	if verifrt.Param("intents", 1) >= 2 && len(sc.owners) >= 2 {
		// param "intents" = 2: ONE transaction re-submits two live intents verbatim (the
		// remaining owners' entries are the competition outside the transaction)
		k := verifrt.Choice("req2.owner", len(sc.owners)-1)
		if k >= oi {
			k++
		}
		reqs = append(reqs, verbatim(sc.owners[k]))
	}
	before := vSnapshot(env.model)
	verifrt.Reach("state-built")
	rsp, err := vStep(env, sc, "t1", reqs, false)
	verifrt.Assert(err == nil && !vHasErrors(rsp), "valid-request-accepted")
	if err != nil {
		return
	}
	verifrt.Reach("step-done")
	for i := 0; i < env.tgt.Sets; i++ {
		verifrt.Assert(len(env.tgt.Updates[i]) == 0, "C09-no-proto-update")
		verifrt.Assert(len(env.tgt.Deletes[i]) == 0, "C09-no-proto-delete")
		verifrt.Assert(env.tgt.JsonEmpty[i], "C09-json-empty")
		verifrt.Assert(env.tgt.JsonIetfEmpty[i], "C09-json-ietf-empty")
		verifrt.Assert(env.tgt.XmlEmpty[i], "C09-xml-empty-all-option-combinations")
	}
	vAssertSameBuckets(before, vSnapshot(env.model), "C09-stores-unchanged")
}

// VerifReapplyAfterStep: two transactions. The first is an arbitrary successful transaction
// (create / change / shrink / re-prioritise / delete one intent) from an arbitrary Inv-state
// and is confirmed; the second re-submits a live intent verbatim (name, priority, content as
// they are after the first). The second must be a no-op in every encoding and leave both
// stores unchanged - whatever the first one did to the stores.
func VerifReapplyAfterStep() {
	sc := vPickScenario()
	env := vNewEnv()
	pre := vArbitraryState(sc)
	pre.install(env)
	req1 := vArbitraryRequest(pre, "req.", verifrt.Choice("req.owner", len(sc.owners)))
	verifrt.Assume(!(req1.del && req1.orphan)) // an orphan delete leaves device and stores apart by design
	rsp1, err1 := vStep(env, sc, "t1", []*vRequest{req1}, false)
	verifrt.Assume(err1 == nil && !vHasErrors(rsp1))
	verifrt.Assert(env.ds.TransactionConfirm(context.Background(), "t1") == nil, "first-transaction-confirmed")
	mid := pre.apply([]*vRequest{req1})
	verifrt.Reach("first-step-done")

	oi := verifrt.Choice("re.owner", len(sc.owners))
	o := sc.owners[oi]
	verifrt.Assume(mid.ownerLive(o))
	req := &vRequest{owner: o, prio: mid.prio[o], pres: map[string]bool{}, val: map[string]vVal{}}
	for _, l := range sc.leaves {
		if l.keyOf == "" && mid.pres[l.id][o] {
			req.pres[l.id] = true
			req.val[l.id] = mid.val[l.id][o]
		}
	}
	env.tgt.AllEncodings = true
	sets := env.tgt.Sets
	before := vSnapshot(env.model)
	rsp, err := vStep(env, sc, "t2", []*vRequest{req}, false)
	verifrt.Assert(err == nil && !vHasErrors(rsp), "valid-request-accepted")
	if err != nil {
		return
	}
	verifrt.Reach("step-done")
	for i := sets; i < env.tgt.Sets; i++ {
		verifrt.Assert(len(env.tgt.Updates[i]) == 0, "C09-no-proto-update")
		verifrt.Assert(len(env.tgt.Deletes[i]) == 0, "C09-no-proto-delete")
		k := i - sets // the renderings are recorded only while AllEncodings is on
		verifrt.Assert(env.tgt.JsonEmpty[k], "C09-json-empty")
		verifrt.Assert(env.tgt.JsonIetfEmpty[k], "C09-json-ietf-empty")
		verifrt.Assert(env.tgt.XmlEmpty[k], "C09-xml-empty-all-option-combinations")
	}
	vAssertSameBuckets(before, vSnapshot(env.model), "C09-stores-unchanged")
}

// ---- C07

// VerifFaultRetry: one collaborator call fails once; the request is retried.
func VerifFaultRetry() {
	sc := vPickScenario()
	env := vNewEnv()
	pre := vArbitraryState(sc)
	pre.install(env)
	req := vArbitraryRequest(pre, "req.", verifrt.Choice("req.owner", len(sc.owners)))
	reqs := []*vRequest{req}
	before := vSnapshot(env.model)
	who := verifrt.Choice("fault.who", 3) // 0 target, 1 cache, 2 schema
	switch who {
	case 0:
		env.tgt.FailSet = 1
	case 1:
		env.model.FailAt = 1 + verifrt.Choice("fault.cacheCall", verifrt.Param("maxCacheCalls", 12))
	case 2:
		env.schema.FailAt = 1 + verifrt.Choice("fault.schemaCall", verifrt.Param("maxSchemaCalls", 8))
	}
	verifrt.Reach("state-built")
	rsp, err := vStep(env, sc, "t1", reqs, false)
	faultHit := (who == 0 && env.tgt.Sets >= 1) || (who == 1 && env.model.Calls >= env.model.FailAt) || (who == 2 && env.schema.Calls >= env.schema.FailAt)
	if !faultHit {
		return // the run made fewer calls than the fault index: covered by the fault-free harness
	}
	verifrt.Reach("fault-hit")
	kind := "device"
	switch who {
	case 1:
		kind = "cache"
		if n := len(env.model.Log); n > 0 {
			kind = "cache-" + strings.TrimPrefix(env.model.Log[n-1], "FAIL ")
		}
	case 2:
		kind = "schema"
	}
	lbl := "C07-retry/after-" + kind + "-failure"
	dev := pre.runningDevice()
	if who == 0 {
		verifrt.Assert(err != nil, "C07-device-failure-returns-error")
		vAssertSameBuckets(before, vSnapshot(env.model), "C07-device-failure-stores-unchanged")
	}
	for i := range env.tgt.Updates {
		dev.applyPayload(sc, env.tgt.Updates[i], env.tgt.Deletes[i], "C07")
	}
	applied := len(env.tgt.Updates)
	_ = rsp
	// the fault is gone: retry (new id), on the same datastore or after a restart
	env.tgt.FailSet, env.model.FailAt, env.schema.FailAt = 0, 0, 0
	renv := env
	if verifrt.Choice("fault.restart", 2) == 1 {
		renv = vNewEnvOver(env.model)
		applied = 0
	}
	// "the same request": a client that repeats a request repeats its transaction id too
	// (retryid 1), or issues a fresh one (0)
	rid := []string{"t2", "t1"}[verifrt.Choice("fault.retryid", 2)]
	rsp2, err2 := vStep(renv, sc, rid, reqs, false)
	verifrt.Reach("retried")
	verifrt.Assert(err2 == nil, lbl+"-accepted")
	if err2 != nil || vHasErrors(rsp2) {
		return
	}
	for i := applied; i < len(renv.tgt.Updates); i++ {
		dev.applyPayload(sc, renv.tgt.Updates[i], renv.tgt.Deletes[i], "C07")
	}
	post := pre.apply(reqs)
	post.assertIntended(renv, pre, reqs, lbl+"-intended")
	post.assertDevice(pre, reqs, dev, lbl)
}

// ---- C03: the replace intent

// vStepReplace runs the requests plus a replace intent as one TransactionSet,
// the way pkg/server/transaction.go builds it (name "replace", priority ReplaceValuesPrio).
func vStepReplace(env *vEnv, sc *vScenario, id string, reqs []*vRequest, repl *vRequest, dryRun bool) (*sdcpb.TransactionSetResponse, error) {
	ctx := context.Background()
	var tis []*types.TransactionIntent
	for _, r := range reqs {
		ti, err := env.ds.SdcpbTransactionIntentToInternalTI(ctx, r.toProto(sc))
		if err != nil {
			return nil, err
		}
		tis = append(tis, ti)
	}
	rp := repl.toProto(sc)
	rp.Priority = tree.ReplaceValuesPrio
	rp.Intent = tree.ReplaceIntentName
	rti, err := env.ds.SdcpbTransactionIntentToInternalTI(ctx, rp)
	if err != nil {
		return nil, err
	}
	return env.ds.TransactionSet(ctx, id, tis, rti, vTxnTimeout, dryRun)
}

// VerifReplaceIntent: C03 for transactions that carry a replace intent. The
// replace intent holds the range-restricted leaf with an arbitrary (valid or
// out-of-range) value; optionally one ordinary intent (valid or invalid) goes with it.
func VerifReplaceIntent() {
	sc := vScenarioRange()
	env := vNewEnv()
	pre := vArbitraryState(sc)
	rl := sc.leaves[0]
	for _, o := range sc.owners {
		if pre.pres[rl.id][o] {
			verifrt.Assume(verifrt.Implies(pre.wins(rl, o), vRangeValid(pre.val[rl.id][o].u)))
		}
	}
	if pre.rpres[rl.id] {
		verifrt.Assume(vRangeValid(pre.rval[rl.id].u))
	}
	pre.install(env)
	// the replace intent: the range leaf with an arbitrary value
	repl := &vRequest{owner: "replace", prio: 1, pres: map[string]bool{rl.id: true}, val: map[string]vVal{rl.id: rl.newVal("repl.val")}}
	replValid := vRangeValid(repl.val[rl.id].u)
	var reqs []*vRequest
	if verifrt.Param("withIntent", 0) == 1 && verifrt.Bool("withIntent") {
		reqs = []*vRequest{vArbitraryRequest(pre, "req.", verifrt.Choice("req.owner", len(sc.owners)))}
	}
	dry := verifrt.Bool("dryRun")
	before := vSnapshot(env.model)
	verifrt.Reach("state-built")

	rsp, err := vStepReplace(env, sc, "t1", reqs, repl, dry)
	verifrt.Reach("step-done")

	if !replValid {
		verifrt.Reach("replace-invalid")
		// a failing replace intent is surfaced as an error or as reported intent errors, never as success
		verifrt.Assert(err != nil || vHasErrors(rsp), "C03-failing-replace-intent-not-success")
		verifrt.Assert(env.tgt.Sets == 0, "C03-failing-replace-intent-nothing-sent")
		vAssertSameBuckets(before, vSnapshot(env.model), "C03-failing-replace-intent-stores-unchanged")
		return
	}
	if dry {
		verifrt.Reach("replace-dry-run")
		verifrt.Assert(env.tgt.Sets == 0, "C03-dry-run-with-replace-intent-nothing-sent")
		vAssertSameBuckets(before, vSnapshot(env.model), "C03-dry-run-with-replace-intent-stores-unchanged")
		return
	}
	if err != nil || vHasErrors(rsp) {
		verifrt.Reach("replace-valid-but-rejected")
		// an ordinary intent of the same transaction failed validation: nothing of the transaction may have been applied
		verifrt.Assert(env.tgt.Sets == 0, "C03-rejected-with-replace-intent-nothing-sent")
		vAssertSameBuckets(before, vSnapshot(env.model), "C03-rejected-with-replace-intent-stores-unchanged")
		return
	}
	verifrt.Reach("replace-applied")
	verifrt.Assert(env.tgt.Sets >= 1, "C03-valid-replace-intent-sent")
}

// ---- histories from the empty store (no representation invariant assumed)

// VerifHistoryFromEmpty: `steps` successive transactions through the public API, starting
// from EMPTY stores and an empty device; every transaction is an arbitrary request of one
// intent (create / change / shrink / re-prioritise / delete / orphan-delete), accepted
// transactions are confirmed. After every accepted transaction the C02 oracle (intended store
// = each owner's last accepted intent), the C01 oracle (device = highest-precedence merge) and
// the running-mirror oracle are asserted against the abstract state folded over the history.
// Complements VerifPipelineStep: nothing is assumed about reachable stores here, at the price
// of a bounded history length.
func VerifHistoryFromEmpty() {
	sc := vPickScenario()
	env := vNewEnv()
	st := vNewState(sc)
	// priorities of owners that do not exist yet: distinct placeholders outside the request range
	for i, o := range sc.owners {
		st.prio[o] = int32(2000 + i)
	}
	dev := &vDevice{pres: map[string]bool{}, tv: map[string]*sdcpb.TypedValue{}}
	steps := verifrt.Param("steps", 2)
	for k := 0; k < steps; k++ {
		tag := "s" + string(rune('0'+k)) + "."
		req := vArbitraryRequest(st, tag, verifrt.Choice(tag+"owner", len(sc.owners)))
		if req.del {
			// deleting an intent that does not exist is a no-op request; skip the duplicates
			verifrt.Assume(st.ownerLive(req.owner))
		}
		reqs := []*vRequest{req}
		id := "t" + string(rune('0'+k))
		sets := env.tgt.Sets
		rsp, err := vStep(env, sc, id, reqs, false)
		verifrt.Assert(err == nil, "valid-request-accepted")
		if err != nil {
			return
		}
		verifrt.Assert(!vHasErrors(rsp), "valid-request-no-intent-errors")
		if vHasErrors(rsp) {
			return
		}
		verifrt.Assert(env.ds.TransactionConfirm(context.Background(), id) == nil, "transaction-confirmed")
		post := st.apply(reqs)
		post.assertIntended(env, st, reqs, "C02")
		verifrt.Assert(env.tgt.Sets == sets+1, "C01-one-set-call")
		var dels []*sdcpb.Path
		if env.tgt.Sets == sets+1 {
			dev.applyPayload(sc, env.tgt.Updates[sets], env.tgt.Deletes[sets], "C01")
			dels = env.tgt.Deletes[sets]
		}
		post.assertDevice(st, reqs, dev, "C01")
		post.assertConfigMirrors(env, dev, dels, "C01-config-mirror")
		// the running part of the abstract state is what the device now holds
		for _, l := range sc.leaves {
			post.rpres[l.id] = dev.pres[l.id]
			if dev.pres[l.id] {
				post.rval[l.id] = vVal{u: dev.tv[l.id].GetUintVal(), s: dev.tv[l.id].GetStringVal()}
			}
		}
		st = post
		verifrt.Reach("step-" + string(rune('0'+k)) + "-done")
	}
}
