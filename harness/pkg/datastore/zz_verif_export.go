//go:build verif

package datastore

// Cross-package access to the datastore assembly for harnesses that live in
// other packages (pkg/server, C19): the same Datastore vNewEnv builds.

import (
	"context"
	"time"

	"github.com/sdcio/data-server/pkg/cache"
	"github.com/sdcio/data-server/pkg/datastore/types"
	sdcpb "github.com/sdcio/sdc-protos/sdcpb"
)

// VerifNewDatastore returns a Datastore named "ds" (real methods over the model
// cache, the generated test schema and a recording target; no server start-up,
// no background goroutine) together with its model cache, into which store
// content can be written directly.
func VerifNewDatastore() (*Datastore, *cache.VerifModelCache) {
	env := vNewEnv()
	return env.ds, env.model
}

// VerifDeviationClients: how many deviation streams are registered.
func (d *Datastore) VerifDeviationClients() int {
	d.m.RLock()
	defer d.m.RUnlock()
	return len(d.deviationClients)
}

// VerifStalledTransaction starts a TransactionSet with one valid intent on a goroutine of its
// own; the device does not answer the Set before release() is called, so the transaction stays
// in flight (holding whatever the datastore holds during an apply). After release() and
// quiescence the caller confirms transaction "stalled" to stop its rollback timer.
func (d *Datastore) VerifStalledTransaction() (release func()) {
	tgt := d.sbi.(*vTarget)
	ch := make(chan struct{})
	tgt.StallSet = ch
	ctx := context.Background()
	ti, err := d.SdcpbTransactionIntentToInternalTI(ctx, &sdcpb.TransactionIntent{Intent: "Z", Priority: 10, Update: []*sdcpb.Update{
		{Path: vPath(vPE("interface", "name", "lo7"), vPE("mtu")), Value: vUintTV(1500)}}})
	if err != nil {
		panic(err)
	}
	go func() {
		_, _ = d.TransactionSet(ctx, "stalled", []*types.TransactionIntent{ti}, nil, time.Minute, false)
	}()
	return func() {
		tgt.StallSet = nil
		close(ch)
	}
}
