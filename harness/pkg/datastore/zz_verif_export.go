//go:build verif

package datastore

// Cross-package access to the datastore assembly for harnesses that live in
// other packages (pkg/server, C19): the same Datastore vNewEnv builds.

import (
	"github.com/sdcio/data-server/pkg/cache"
)

// VerifNewDatastore returns a Datastore named "ds" (real methods over the model
// cache, the generated test schema and a recording target; no server start-up,
// no background goroutine) together with its model cache, into which store
// content can be written directly.
func VerifNewDatastore() (*Datastore, *cache.VerifModelCache) {
	env := vNewEnv()
	return env.ds, env.model
}

// VerifDeviationClients: how many deviation streams are registered.
func (d *Datastore) VerifDeviationClients() int {
	d.m.RLock()
	defer d.m.RUnlock()
	return len(d.deviationClients)
}
