//go:build verif

package datastore

// One TransactionSet step from an arbitrary store that satisfies the
// representation invariant (DESIGN.md 3.4, Appendix G). Serves C01, C02, C03,
// C05, C09 (and, with fault injection, C07).

import (
	"context"
	"sort"
	"strconv"
	"strings"
	"time"

	sdccache "github.com/sdcio/cache/pkg/cache"
	"github.com/sdcio/data-server/pkg/datastore/types"
	"github.com/sdcio/data-server/pkg/verifrt"
	sdcpb "github.com/sdcio/sdc-protos/sdcpb"
)

// vLeaf is one leaf instance path of a scenario.
type vLeaf struct {
	tag    string           // short name used in input names: L0, L1, ...
	id     string           // printable, e.g. "interface[name=lo1]/mtu"
	elems  []*sdcpb.PathElem
	strs   []string // cache path (ToStrings form)
	isUint bool
	enum   []string // non-empty: enumeration leaf, value is one of these
	empty  bool     // presence container: the value is the empty typed value
	entry  string   // id of the enclosing list entry ("" = none)
	keyOf  string   // non-empty: this is the key leaf of that entry (value = keyVal)
	keyUint bool    // the key is an unsigned integer (stored as UintVal)
	keyVal string
	// extensions used by the validator scenarios (C04)
	strMax   int    // > 0: string leaf with a symbolic value of 0..strMax characters over alphabet
	alphabet string
	strLens  []int // non-empty: the length is one of these (forked)
	isInt    bool // signed integer leaf (IntVal)
	intLo    int64
	intHi    int64
	ll       bool // leaf-list of strings: the value is "e0".."e<n-1>", n in 0..llMax
	llMax    int
	// scenario restrictions (smaller universes): only this owner may define the leaf;
	// the leaf is present exactly when leaf tiedTo (listed before it) is
	onlyOwner string
	tiedTo    string
	uintChoice []uint64 // uint leaf whose value is one of these (forked)
	llElems    []string // leaf-list whose n elements (llMin..llMax) are each one of these (forked): repeats possible
	llMin      int
}

func (l *vLeaf) path() *sdcpb.Path {
	p := &sdcpb.Path{}
	for _, e := range l.elems {
		ne := &sdcpb.PathElem{Name: e.Name}
		if e.Key != nil {
			ne.Key = map[string]string{}
			for k, v := range e.Key {
				ne.Key[k] = v
			}
		}
		p.Elem = append(p.Elem, ne)
	}
	return p
}

// vPathID renders an sdcpb.Path canonically (keys sorted by name).
func vPathID(p *sdcpb.Path) string {
	var sb strings.Builder
	for i, e := range p.GetElem() {
		if i > 0 {
			sb.WriteString("/")
		}
		sb.WriteString(e.GetName())
		ks := make([]string, 0, len(e.GetKey()))
		for k := range e.GetKey() {
			ks = append(ks, k)
		}
		sort.Strings(ks)
		for _, k := range ks {
			sb.WriteString("[" + k + "=" + e.GetKey()[k] + "]")
		}
	}
	return sb.String()
}

// vToStrings: path as the cache stores it (name, then key values in key-name order;
// all scenario lists have a single key).
func vToStrings(p *sdcpb.Path) []string {
	var out []string
	for _, e := range p.GetElem() {
		out = append(out, e.GetName())
		ks := make([]string, 0, len(e.GetKey()))
		for k := range e.GetKey() {
			ks = append(ks, k)
		}
		sort.Strings(ks)
		for _, k := range ks {
			out = append(out, e.GetKey()[k])
		}
	}
	return out
}

// vIsPrefix: is a an element-wise prefix of b (both canonical ids)?
func vIsPrefix(a, b string) bool {
	return a == b || strings.HasPrefix(b, a+"/")
}

type vScenario struct {
	leaves []*vLeaf // non-key leaves first, then key leaves
	owners []string
}

func vIfLeaf(ifname, leaf string, isUint bool) *vLeaf {
	return &vLeaf{
		id:     "interface[name=" + ifname + "]/" + leaf,
		elems:  []*sdcpb.PathElem{vPE("interface", "name", ifname), vPE(leaf)},
		strs:   []string{"interface", ifname, leaf},
		isUint: isUint,
		entry:  "interface[name=" + ifname + "]",
	}
}

func vIfKeyLeaf(ifname string) *vLeaf {
	l := vIfLeaf(ifname, "name", false)
	l.keyOf = l.entry
	l.keyVal = ifname
	return l
}

func vScenarioThin() *vScenario {
	return &vScenario{
		leaves: []*vLeaf{
			vIfLeaf("lo1", "mtu", true),
			vIfLeaf("lo1", "description", false),
			vIfKeyLeaf("lo1"),
		},
		owners: []string{"A", "B"},
	}
}

func vScenarioOnePath3() *vScenario {
	return &vScenario{
		leaves: []*vLeaf{vIfLeaf("lo1", "mtu", true), vIfKeyLeaf("lo1")},
		owners: []string{"A", "B", "C"},
	}
}

func vScenarioPrefix() *vScenario {
	return &vScenario{
		leaves: []*vLeaf{
			vIfLeaf("lo1", "mtu", true),
			vIfLeaf("lo10", "mtu", true),
			vIfKeyLeaf("lo1"),
			vIfKeyLeaf("lo10"),
		},
		owners: []string{"A", "B"},
	}
}

func vPickScenario() *vScenario {
	var sc *vScenario
	switch verifrt.Param("scenario", 0) {
	case 1:
		sc = vScenarioOnePath3()
	case 2:
		sc = vScenarioPrefix()
	case 3:
		sc = vScenarioOnePath2()
	case 4:
		sc = vScenarioDefaulted()
	case 5:
		sc = vScenarioPresence()
	case 6:
		// a leaf-list (min-elements 2, max-elements 3) whose elements are drawn from {a, b}:
		// lists with a repeated value occur
		sc = &vScenario{leaves: []*vLeaf{{id: "leaflist/entry", elems: []*sdcpb.PathElem{vPE("leaflist"), vPE("entry")}, strs: []string{"leaflist", "entry"},
			ll: true, llMin: 2, llMax: 3, llElems: []string{"a", "b"}}}, owners: []string{"A", "B"}}
	case 7:
		// two list entries (prefix-related keys), three owners: intents on disjoint entries with a
		// third one competing on either
		sc = vScenarioPrefix()
		sc.owners = []string{"A", "B", "C"}
	default:
		sc = vScenarioThin()
	}
	for i, l := range sc.leaves {
		l.tag = "L" + string(rune('0'+i))
	}
	return sc
}

// a leaf that has a YANG default (admin-state, default "enable"): the tree adds a
// "default" variant next to the intents' values
func vScenarioDefaulted() *vScenario {
	l := vIfLeaf("lo1", "admin-state", false)
	l.enum = []string{"enable", "disable"}
	return &vScenario{
		leaves: []*vLeaf{l, vIfKeyLeaf("lo1")},
		owners: []string{"A", "B"},
	}
}

// an explicitly set presence container (stored as an empty value on the container
// node) with a leaf below it
func vScenarioPresence() *vScenario {
	// like a list entry, a presence container that an intent defines makes its subtree "touched"
	pc := &vLeaf{id: "choices/case1", elems: []*sdcpb.PathElem{vPE("choices"), vPE("case1")}, strs: []string{"choices", "case1"}, empty: true, entry: "choices/case1"}
	el := &vLeaf{id: "choices/case1/case-elem/elem", elems: []*sdcpb.PathElem{vPE("choices"), vPE("case1"), vPE("case-elem"), vPE("elem")},
		strs: []string{"choices", "case1", "case-elem", "elem"}, entry: "choices/case1"}
	return &vScenario{leaves: []*vLeaf{pc, el}, owners: []string{"A", "B"}}
}

func vScenarioOnePath2() *vScenario {
	return &vScenario{
		leaves: []*vLeaf{vIfLeaf("lo1", "mtu", true), vIfKeyLeaf("lo1")},
		owners: []string{"A", "B"},
	}
}

// vVal is a leaf value: uint (u) or string (s).
type vVal struct {
	u uint64
	s string
	i int64
	n int // leaf-list: number of elements
	le []string // leaf-list: explicit elements (llElems scenarios)
	// uint leaf stored in string form (StringVal holding the decimal text): the stores may hold
	// it, readers normalise it with TypedValueToYANGType (C15, C12)
	strForm bool
}

func (l *vLeaf) tv(v vVal) *sdcpb.TypedValue {
	if l.keyOf != "" {
		if l.keyUint {
			u, _ := strconv.ParseUint(l.keyVal, 10, 64)
			return vUintTV(u)
		}
		return vStrTV(l.keyVal)
	}
	if l.empty {
		return &sdcpb.TypedValue{Value: &sdcpb.TypedValue_EmptyVal{}}
	}
	if l.isUint {
		if v.strForm {
			return vStrTV(strconv.FormatUint(v.u, 10))
		}
		return vUintTV(v.u)
	}
	if l.isInt {
		return &sdcpb.TypedValue{Value: &sdcpb.TypedValue_IntVal{IntVal: v.i}}
	}
	if l.ll {
		arr := &sdcpb.ScalarArray{}
		for k := 0; k < v.n; k++ {
			if v.le != nil {
				arr.Element = append(arr.Element, vStrTV(v.le[k]))
				continue
			}
			arr.Element = append(arr.Element, vStrTV("e"+string(rune('0'+k))))
		}
		return &sdcpb.TypedValue{Value: &sdcpb.TypedValue_LeaflistVal{LeaflistVal: arr}}
	}
	return vStrTV(v.s)
}

func (l *vLeaf) newVal(tag string) vVal {
	if l.keyOf != "" {
		return vVal{s: l.keyVal}
	}
	if l.empty {
		return vVal{}
	}
	if l.isUint && len(l.uintChoice) > 0 {
		return vVal{u: l.uintChoice[verifrt.Choice(tag, len(l.uintChoice))]}
	}
	if l.isUint {
		// four-digit values: one digit count, so decimal renderings do not fork
		return vVal{u: uint64(verifrt.IntRange(tag, 1000, 9999))}
	}
	if len(l.enum) > 0 {
		return vVal{s: l.enum[verifrt.Choice(tag, len(l.enum))]}
	}
	if l.isInt {
		return vVal{i: verifrt.IntRange(tag, l.intLo, l.intHi)}
	}
	if l.ll && len(l.llElems) > 0 {
		n := l.llMin + verifrt.Choice(tag, l.llMax-l.llMin+1)
		v := vVal{n: n, le: []string{}}
		for k := 0; k < n; k++ {
			v.le = append(v.le, l.llElems[verifrt.Choice(tag+".e"+string(rune('0'+k)), len(l.llElems))])
		}
		return v
	}
	if l.ll {
		return vVal{n: verifrt.Choice(tag, l.llMax+1)}
	}
	if l.strMax > 0 {
		if len(l.strLens) > 0 {
			// fork on the length; the value is a sequence of that many symbolic characters
			// (no string-theory variable: regexp and comparisons become integer constraints)
			return vVal{s: verifrt.Chars(tag, l.strLens[verifrt.Choice(tag+".len", len(l.strLens))], l.alphabet)}
		}
		return vVal{s: verifrt.String(tag, l.strMax, l.alphabet)}
	}
	s := verifrt.String(tag, 1, "ab")
	verifrt.Assume(len(s) == 1)
	return vVal{s: s}
}

// sameVal: does typed value tv carry v (for leaf l)?  non-forking.
func (l *vLeaf) sameVal(tv *sdcpb.TypedValue, v vVal) bool {
	if l.keyOf != "" {
		if l.keyUint {
			if _, isStr := tv.GetValue().(*sdcpb.TypedValue_StringVal); isStr {
				return tv.GetStringVal() == l.keyVal
			}
			u, _ := strconv.ParseUint(l.keyVal, 10, 64)
			_, isUint := tv.GetValue().(*sdcpb.TypedValue_UintVal)
			return isUint && tv.GetUintVal() == u
		}
		return tv.GetStringVal() == l.keyVal
	}
	if l.empty {
		_, ok := tv.GetValue().(*sdcpb.TypedValue_EmptyVal)
		return ok
	}
	if l.isUint {
		if _, isStr := tv.GetValue().(*sdcpb.TypedValue_StringVal); isStr {
			// string form of the same number
			return tv.GetStringVal() == strconv.FormatUint(v.u, 10)
		}
		_, ok := tv.GetValue().(*sdcpb.TypedValue_UintVal)
		return verifrt.And(ok, tv.GetUintVal() == v.u)
	}
	if l.isInt {
		_, ok := tv.GetValue().(*sdcpb.TypedValue_IntVal)
		return verifrt.And(ok, tv.GetIntVal() == v.i)
	}
	if l.ll {
		el := tv.GetLeaflistVal().GetElement()
		if tv.GetLeaflistVal() == nil || len(el) != v.n {
			return false
		}
		for k, e := range el {
			want := "e" + string(rune('0'+k))
			if v.le != nil {
				want = v.le[k]
			}
			if e.GetStringVal() != want {
				return false
			}
		}
		return true
	}
	_, ok := tv.GetValue().(*sdcpb.TypedValue_StringVal)
	return verifrt.And(ok, tv.GetStringVal() == v.s)
}

// vState is the abstract content of the stores over the scenario universe.
type vState struct {
	sc    *vScenario
	prio  map[string]int32           // owner -> priority
	pres  map[string]map[string]bool // leaf id -> owner -> present
	val   map[string]map[string]vVal // leaf id -> owner -> value
	rpres map[string]bool            // leaf id -> present in running
	rval  map[string]vVal
}

func vNewState(sc *vScenario) *vState {
	st := &vState{sc: sc, prio: map[string]int32{}, pres: map[string]map[string]bool{}, val: map[string]map[string]vVal{},
		rpres: map[string]bool{}, rval: map[string]vVal{}}
	for _, l := range sc.leaves {
		st.pres[l.id] = map[string]bool{}
		st.val[l.id] = map[string]vVal{}
	}
	return st
}

// deriveKeys sets presence of key leaves: owner o has the key leaf of entry E
// iff o has some non-key leaf in E.
func (st *vState) deriveKeys() {
	for _, k := range st.sc.leaves {
		if k.keyOf == "" {
			continue
		}
		for _, o := range st.sc.owners {
			has := false
			for _, l := range st.sc.leaves {
				if l.keyOf == "" && vIsPrefix(k.keyOf, l.entry) && st.pres[l.id][o] {
					has = true
				}
			}
			st.pres[k.id][o] = has
			st.val[k.id][o] = vVal{s: k.keyVal}
		}
	}
}

// vArbitraryState picks an arbitrary store content satisfying Inv.
func vArbitraryState(sc *vScenario) *vState {
	st := vNewState(sc)
	for _, o := range sc.owners {
		p := verifrt.Int32("prio" + o)
		verifrt.Assume(verifrt.And(p >= 1, p < 1000))
		st.prio[o] = p
	}
	for i, a := range sc.owners {
		for _, b := range sc.owners[i+1:] {
			verifrt.Assume(st.prio[a] != st.prio[b])
		}
	}
	for _, l := range sc.leaves {
		if l.keyOf != "" {
			continue
		}
		for _, o := range sc.owners {
			if l.onlyOwner != "" && l.onlyOwner != o {
				continue
			}
			p := false
			if l.tiedTo != "" {
				p = st.pres[l.tiedTo][o]
			} else {
				p = verifrt.Bool("pres." + l.tag + "." + o)
			}
			if p {
				st.pres[l.id][o] = true
				st.val[l.id][o] = l.newVal("val." + l.tag + "." + o)
			}
		}
	}
	st.deriveKeys()
	// running: managed paths carry the winner's value (device = merge); others arbitrary
	for _, l := range sc.leaves {
		managed := false
		for _, o := range sc.owners {
			if st.pres[l.id][o] {
				managed = true
			}
		}
		if managed {
			st.rpres[l.id] = true
			rv := l.newVal("rval." + l.tag)
			for _, o := range sc.owners {
				if st.pres[l.id][o] {
					verifrt.Assume(verifrt.Implies(st.wins(l, o), l.eqVal(rv, st.val[l.id][o])))
				}
			}
			st.rval[l.id] = rv
		} else if l.keyOf == "" {
			if verifrt.Bool("rpres." + l.tag) {
				st.rpres[l.id] = true
				st.rval[l.id] = l.newVal("rval." + l.tag)
			}
		}
	}
	// running key leaves exist for every entry that has something in running
	for _, k := range sc.leaves {
		if k.keyOf == "" {
			continue
		}
		for _, l := range sc.leaves {
			if l.keyOf == "" && vIsPrefix(k.keyOf, l.entry) && st.rpres[l.id] {
				st.rpres[k.id] = true
				st.rval[k.id] = vVal{s: k.keyVal}
			}
		}
	}
	return st
}

func (l *vLeaf) eqVal(a, b vVal) bool {
	if l.keyOf != "" || l.empty {
		return true
	}
	if l.isUint {
		return a.u == b.u
	}
	if l.isInt {
		return a.i == b.i
	}
	if l.ll {
		if a.n != b.n {
			return false
		}
		for k := 0; k < a.n && a.le != nil && b.le != nil; k++ {
			if a.le[k] != b.le[k] {
				return false
			}
		}
		return true
	}
	return a.s == b.s
}

// wins: o defines l and has the numerically lowest priority among definers. non-forking.
func (st *vState) wins(l *vLeaf, o string) bool {
	if !st.pres[l.id][o] {
		return false
	}
	w := true
	for _, o2 := range st.sc.owners {
		if o2 != o && st.pres[l.id][o2] {
			w = verifrt.And(w, st.prio[o] < st.prio[o2])
		}
	}
	return w
}

// install writes the abstract state into the model cache.
func (st *vState) install(env *vEnv) {
	ctx := context.Background()
	for _, o := range st.sc.owners {
		for _, l := range st.sc.leaves {
			if st.pres[l.id][o] {
				_ = env.model.WriteValue(ctx, "ds", &sdccache.Opts{Store: sdccache.StoreIntended, Path: [][]string{l.strs}, Owner: o, Priority: st.prio[o]}, vBytes(l.tv(st.val[l.id][o])))
			}
		}
	}
	for _, l := range st.sc.leaves {
		if st.rpres[l.id] {
			_ = env.model.WriteValue(ctx, "ds", &sdccache.Opts{Store: sdccache.StoreConfig, Path: [][]string{l.strs}}, vBytes(l.tv(st.rval[l.id])))
		}
	}
	env.model.Calls = 0
}

// vRequest is one intent of a transaction.
type vRequest struct {
	owner  string
	del    bool
	orphan bool
	prio   int32
	pres   map[string]bool
	val    map[string]vVal
}

func vArbitraryRequest(st *vState, tag string, ownerIdx int) *vRequest {
	sc := st.sc
	r := &vRequest{owner: sc.owners[ownerIdx], pres: map[string]bool{}, val: map[string]vVal{}}
	r.del = verifrt.Bool(tag + "del")
	if r.del {
		r.orphan = verifrt.Bool(tag + "orphan")
		r.prio = st.prio[r.owner]
		return r
	}
	r.prio = verifrt.Int32(tag + "nprio")
	verifrt.Assume(verifrt.And(r.prio >= 1, r.prio < 1000))
	for _, o := range sc.owners {
		if o != r.owner {
			verifrt.Assume(r.prio != st.prio[o])
		}
	}
	any := false
	for _, l := range sc.leaves {
		if l.keyOf != "" {
			continue
		}
		if l.onlyOwner != "" && l.onlyOwner != r.owner {
			continue
		}
		p := false
		if l.tiedTo != "" {
			p = r.pres[l.tiedTo]
		} else {
			p = verifrt.Bool(tag + "npres." + l.tag)
		}
		if p {
			r.pres[l.id] = true
			r.val[l.id] = l.newVal(tag + "nval." + l.tag)
			any = true
		}
	}
	verifrt.Assume(any) // an intent without content is a delete
	return r
}

// vArbitraryRequests picks Param("intents", 1) requests of distinct owners
// (priorities pairwise distinct also among the requests).
func vArbitraryRequests(pre *vState) []*vRequest {
	sc := pre.sc
	n := verifrt.Param("intents", 1)
	first := verifrt.Choice("req.owner", len(sc.owners))
	reqs := []*vRequest{vArbitraryRequest(pre, "req.", first)}
	if n >= 2 && len(sc.owners) >= 2 {
		k := verifrt.Choice("req2.owner", len(sc.owners)-1)
		if k >= first {
			k++
		}
		r2 := vArbitraryRequest(pre, "req2.", k)
		if !r2.del && !reqs[0].del {
			verifrt.Assume(r2.prio != reqs[0].prio)
		}
		// a new priority must not collide with the priority another request's owner keeps or gets
		if !reqs[0].del {
			verifrt.Assume(verifrt.Or(!r2.del, true))
		}
		reqs = append(reqs, r2)
	}
	return reqs
}

func (r *vRequest) toProto(sc *vScenario) *sdcpb.TransactionIntent {
	ti := &sdcpb.TransactionIntent{Intent: r.owner, Priority: r.prio, Delete: r.del, Orphan: r.orphan}
	if r.del {
		return ti
	}
	for _, l := range sc.leaves {
		if l.keyOf == "" && r.pres[l.id] {
			ti.Update = append(ti.Update, &sdcpb.Update{Path: l.path(), Value: l.tv(r.val[l.id])})
		}
	}
	return ti
}

// apply computes the abstract post-state of a successful transaction.
func (st *vState) apply(reqs []*vRequest) *vState {
	post := vNewState(st.sc)
	for o, p := range st.prio {
		post.prio[o] = p
	}
	for _, l := range st.sc.leaves {
		for _, o := range st.sc.owners {
			post.pres[l.id][o] = st.pres[l.id][o]
			post.val[l.id][o] = st.val[l.id][o]
		}
	}
	for _, r := range reqs {
		for _, l := range st.sc.leaves {
			if l.keyOf != "" {
				continue
			}
			post.pres[l.id][r.owner] = !r.del && r.pres[l.id]
			post.val[l.id][r.owner] = r.val[l.id]
		}
		if !r.del {
			post.prio[r.owner] = r.prio
		}
	}
	post.deriveKeys()
	return post
}

// ---- observation of the real stores

type vStored struct {
	path  string
	owner string
	prio  int32
	tv    *sdcpb.TypedValue
}

func vDecode(b []byte) *sdcpb.TypedValue {
	tv := &sdcpb.TypedValue{}
	if err := vUnmarshal(b, tv); err != nil {
		return nil
	}
	return tv
}

// assertIntended: C02 oracle. post (the receiver) is the expected content of
// the intended bucket after the step; pre and reqs are used only to name the
// situation a violation occurs in (so that a known finding is identified by
// the history that fails, and any other violation is still reported).
func (post *vState) assertIntended(env *vEnv, pre *vState, reqs []*vRequest, label string) {
	sc := post.sc
	reqOf := func(o string) *vRequest {
		for _, r := range reqs {
			if r.owner == o {
				return r
			}
		}
		return nil
	}
	// every stored entry is wanted
	for _, e := range env.model.Intended {
		var leaf *vLeaf
		for _, l := range sc.leaves {
			if strings.Join(l.strs, ",") == e.Key {
				leaf = l
			}
		}
		if leaf == nil {
			verifrt.Assert(false, label+"-unknown-path-stored")
			continue
		}
		known := false
		for _, o := range sc.owners {
			if o == e.Owner {
				known = true
			}
		}
		verifrt.Assert(known, label+"-unknown-owner-stored")
		if !known {
			continue
		}
		o := e.Owner
		r := reqOf(o)
		if r == nil {
			// not named in the transaction: must be exactly the old entry
			verifrt.Assert(pre.pres[leaf.id][o], label+"-untouched-owner-gained-entry")
			if pre.pres[leaf.id][o] {
				verifrt.Assert(e.Prio == pre.prio[o], label+"-untouched-owner-priority-changed")
				verifrt.Assert(leaf.sameVal(vDecode(e.Val), pre.val[leaf.id][o]), label+"-untouched-owner-value-changed")
			}
			continue
		}
		reprio := false
		if !r.del && pre.ownerLive(o) {
			if r.prio != pre.prio[o] { // forks: names the situation
				reprio = true
			}
		}
		if !post.pres[leaf.id][o] {
			// an entry of a removed path / deleted intent survived
			shadowed := false
			for _, o2 := range sc.owners {
				if o2 != o && pre.pres[leaf.id][o2] {
					if pre.prio[o2] < pre.prio[o] {
						shadowed = true
					}
				}
			}
			switch {
			case reprio:
				verifrt.Assert(false, label+"-superseded-entry-survives/reprioritised-intent")
			case shadowed:
				verifrt.Assert(false, label+"-superseded-entry-survives/entry-was-shadowed")
			default:
				verifrt.Assert(false, label+"-superseded-entry-survives")
			}
			continue
		}
		if reprio {
			if e.Prio == pre.prio[o] {
				verifrt.Assert(false, label+"-old-priority-entry-survives/reprioritised-intent")
				continue
			}
		}
		verifrt.Assert(e.Prio == post.prio[o], label+"-priority")
		same := leaf.sameVal(vDecode(e.Val), post.val[leaf.id][o])
		if pre.pres[leaf.id][o] && !same {
			// an older value of the same owner next to the new one?
			if leaf.sameVal(vDecode(e.Val), pre.val[leaf.id][o]) {
				verifrt.Assert(false, label+"-old-value-entry-survives/rewritten-entry")
				continue
			}
		}
		verifrt.Assert(same, label+"-value")
	}
	// every wanted entry is stored, exactly once
	for _, l := range sc.leaves {
		for _, o := range sc.owners {
			if !post.pres[l.id][o] {
				continue
			}
			n := 0
			for _, e := range env.model.Intended {
				if e.Key == strings.Join(l.strs, ",") && e.Owner == o {
					n++
				}
			}
			verifrt.Assert(n >= 1, label+"-wanted-entry-missing")
			if n > 1 {
				if r := reqOf(o); r != nil && pre.pres[l.id][o] {
					verifrt.Assert(false, label+"-duplicate-entry/rewritten-entry")
				} else {
					verifrt.Assert(false, label+"-duplicate-entry")
				}
			}
		}
	}
}

func (st *vState) ownerLive(o string) bool {
	for _, l := range st.sc.leaves {
		if st.pres[l.id][o] {
			return true
		}
	}
	return false
}

// vDevice is the device configuration over the universe: leaf id -> value.
type vDevice struct {
	pres map[string]bool
	tv   map[string]*sdcpb.TypedValue
}

func (st *vState) runningDevice() *vDevice {
	d := &vDevice{pres: map[string]bool{}, tv: map[string]*sdcpb.TypedValue{}}
	for _, l := range st.sc.leaves {
		if st.rpres[l.id] {
			d.pres[l.id] = true
			d.tv[l.id] = l.tv(st.rval[l.id])
		}
	}
	return d
}

// applyPayload applies deletes (subtree removals) then updates.
func (d *vDevice) applyPayload(sc *vScenario, upds []*sdcpb.Update, dels []*sdcpb.Path, label string) {
	for _, del := range dels {
		did := vPathID(del)
		for _, l := range sc.leaves {
			if vIsPrefix(did, l.id) {
				d.pres[l.id] = false
			}
		}
	}
	for _, u := range upds {
		uid := vPathID(u.GetPath())
		found := false
		for _, l := range sc.leaves {
			if l.id == uid {
				d.pres[l.id] = true
				d.tv[l.id] = u.GetValue()
				found = true
			}
		}
		if !found {
			// defaults and other schema nodes outside the universe are allowed;
			// they are recorded for inspection only
			verifrt.Note("update outside universe: %s", uid)
		}
	}
}

// assertDevice: C01 oracle on the device after the step.
func (post *vState) assertDevice(pre *vState, reqs []*vRequest, d *vDevice, label string) {
	sc := post.sc
	for _, l := range sc.leaves {
		live := false
		for _, o := range sc.owners {
			if post.pres[l.id][o] {
				live = true
			}
		}
		definedBefore := false
		orphaned := false // some former definer is orphan-deleted: the device may keep the path
		removed := 0      // stored definers of the path whose intents are part of this transaction
		for _, o := range sc.owners {
			if pre.pres[l.id][o] {
				definedBefore = true
				for _, r := range reqs {
					if r.owner == o && r.del && r.orphan {
						orphaned = true
					}
				}
				for _, r := range reqs {
					if r.owner == o {
						removed++
					}
				}
			}
		}
		// The pipeline loads only the two best stored priorities of a path as alternatives and
		// skips the transaction's own intents among them: the situation in which two intents of
		// one transaction already define the path is named separately.
		sfx := ""
		if removed >= 2 {
			sfx = "/two-intents-of-the-transaction-define-the-path"
		}
		switch {
		case live:
			if !d.pres[l.id] && sfx == "" {
				// removed together with an explicitly set presence container above it that
				// another intent gave up?
				for _, l2 := range sc.leaves {
					if l2.empty && l2 != l && vIsPrefix(l2.id, l.id) {
						for _, r := range reqs {
							if pre.pres[l2.id][r.owner] && !post.pres[l2.id][r.owner] {
								sfx = "/below-presence-container-given-up-by-another-intent"
							}
						}
					}
				}
			}
			verifrt.Assert(d.pres[l.id], label+"-live-path-on-device"+sfx)
			if d.pres[l.id] {
				for _, o := range sc.owners {
					if post.pres[l.id][o] {
						verifrt.Assert(verifrt.Implies(post.wins(l, o), l.sameVal(d.tv[l.id], post.val[l.id][o])), label+"-winner-value-on-device"+sfx)
					}
				}
			}
		case definedBefore && !orphaned:
			verifrt.Assert(!d.pres[l.id], label+"-dead-path-removed-from-device")
		case !definedBefore:
			touched := false
			for _, l2 := range sc.leaves {
				if l2.entry != "" && l2.entry == l.entry {
					for _, o := range sc.owners {
						if pre.pres[l2.id][o] || post.pres[l2.id][o] {
							touched = true
						}
					}
				}
			}
			if !touched {
				verifrt.Assert(d.pres[l.id] == pre.rpres[l.id], label+"-unmanaged-presence-untouched")
				if d.pres[l.id] && pre.rpres[l.id] {
					verifrt.Assert(l.sameVal(d.tv[l.id], pre.rval[l.id]), label+"-unmanaged-value-untouched")
				}
			}
		}
	}
}

// assertConfigMirrors: the CONFIG bucket equals the device over the universe.
func (st *vState) assertConfigMirrors(env *vEnv, d *vDevice, dels []*sdcpb.Path, label string) {
	for _, l := range st.sc.leaves {
		var stored *sdcpb.TypedValue
		n := 0
		for _, e := range env.model.Config {
			if e.Key == strings.Join(l.strs, ",") {
				stored = vDecode(e.Val)
				n++
			}
		}
		if n == 0 && d.pres[l.id] {
			// lost from the running mirror: because a deleted entry's textual key is a
			// byte prefix of this leaf's key although the paths are unrelated?
			collateral := false
			for _, del := range dels {
				did := vPathID(del)
				dk := strings.Join(vToStrings(del), ",")
				if !vIsPrefix(did, l.id) && strings.HasPrefix(strings.Join(l.strs, ","), dk) {
					collateral = true
				}
			}
			if collateral {
				verifrt.Assert(false, label+"-presence/key-extends-deleted-sibling")
				continue
			}
		}
		verifrt.Assert((n == 1) == d.pres[l.id] && n <= 1, label+"-presence")
		if n == 1 && d.pres[l.id] {
			verifrt.Assert(vSameTV(stored, d.tv[l.id]), label+"-value")
		}
	}
}

func vSameTV(a, b *sdcpb.TypedValue) bool {
	switch x := a.GetValue().(type) {
	case *sdcpb.TypedValue_UintVal:
		y, ok := b.GetValue().(*sdcpb.TypedValue_UintVal)
		return ok && x.UintVal == y.UintVal
	case *sdcpb.TypedValue_StringVal:
		y, ok := b.GetValue().(*sdcpb.TypedValue_StringVal)
		return ok && x.StringVal == y.StringVal
	case *sdcpb.TypedValue_EmptyVal:
		_, ok := b.GetValue().(*sdcpb.TypedValue_EmptyVal)
		return ok
	case *sdcpb.TypedValue_BoolVal:
		y, ok := b.GetValue().(*sdcpb.TypedValue_BoolVal)
		return ok && x.BoolVal == y.BoolVal
	case *sdcpb.TypedValue_LeaflistVal:
		y, ok := b.GetValue().(*sdcpb.TypedValue_LeaflistVal)
		if !ok || len(x.LeaflistVal.GetElement()) != len(y.LeaflistVal.GetElement()) {
			return false
		}
		for i, e := range x.LeaflistVal.GetElement() {
			if !vSameTV(e, y.LeaflistVal.GetElement()[i]) {
				return false
			}
		}
		return true
	}
	return false
}

func vHasErrors(rsp *sdcpb.TransactionSetResponse) bool {
	for _, in := range rsp.GetIntents() {
		if len(in.GetErrors()) > 0 {
			return true
		}
	}
	return false
}

// short transaction timeout: native replay really sleeps
const vTxnTimeout = 300 * time.Millisecond

// vStep runs the requests as one TransactionSet.
func vStep(env *vEnv, sc *vScenario, id string, reqs []*vRequest, dryRun bool) (*sdcpb.TransactionSetResponse, error) {
	ctx := context.Background()
	var tis []*types.TransactionIntent
	for _, r := range reqs {
		ti, err := env.ds.SdcpbTransactionIntentToInternalTI(ctx, r.toProto(sc))
		if err != nil {
			return nil, err
		}
		tis = append(tis, ti)
	}
	return env.ds.TransactionSet(ctx, id, tis, nil, vTxnTimeout, dryRun)
}

// VerifPipelineStep: C01 + C02 on one successful, non-dry-run transaction
// with one intent from an arbitrary Inv-state.
func VerifPipelineStep() {
	sc := vPickScenario()
	env := vNewEnv()
	pre := vArbitraryState(sc)
	pre.install(env)
	reqs := vArbitraryRequests(pre)
	verifrt.Reach("state-built")
	rsp, err := vStep(env, sc, "t1", reqs, false)
	verifrt.Reach("step-done")
	verifrt.Assert(err == nil, "valid-request-accepted")
	if err != nil {
		return
	}
	verifrt.Assert(!vHasErrors(rsp), "valid-request-no-intent-errors")
	if vHasErrors(rsp) {
		return
	}
	post := pre.apply(reqs)
	// C02
	post.assertIntended(env, pre, reqs, "C02")
	// C01
	verifrt.Assert(env.tgt.Sets == 1, "C01-one-set-call")
	dev := pre.runningDevice()
	if env.tgt.Sets == 1 {
		dev.applyPayload(sc, env.tgt.Updates[0], env.tgt.Deletes[0], "C01")
	}
	post.assertDevice(pre, reqs, dev, "C01")
	var dels []*sdcpb.Path
	if env.tgt.Sets == 1 {
		dels = env.tgt.Deletes[0]
	}
	post.assertConfigMirrors(env, dev, dels, "C01-config-mirror")
}
