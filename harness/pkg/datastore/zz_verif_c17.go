//go:build verif

package datastore

// C17: validation verdicts do not depend on scheduling. The same tree is built
// twice from the same stores; one copy is validated sequentially, the other
// with concurrent validators under the engine's exploring scheduler.

import (
	"context"
	"sort"

	"github.com/sdcio/data-server/pkg/config"
	"github.com/sdcio/data-server/pkg/tree"
	"github.com/sdcio/data-server/pkg/verifrt"
	sdcpb "github.com/sdcio/sdc-protos/sdcpb"
)

func v17Tree(env *vEnv, upds []*sdcpb.Update) *tree.RootEntry {
	ctx := context.Background()
	treeSCC := tree.NewTreeCacheClient(env.ds.Name(), env.ds.cacheClient)
	tc := tree.NewTreeContext(treeSCC, env.ds.schemaClient, env.ds.Name())
	tc.GetTreeSchemaCacheClient().RefreshCaches(ctx)
	root, err := tree.NewTreeRoot(ctx, tc)
	if err != nil {
		panic(err)
	}
	tc.SetActualOwner("A")
	cu, err := env.ds.expandAndConvertIntent(ctx, "A", 10, upds)
	if err != nil {
		panic(err)
	}
	flagNew := tree.NewUpdateInsertFlags()
	flagNew.SetNewFlag()
	if err := root.AddCacheUpdatesRecursive(ctx, cu, flagNew); err != nil {
		panic(err)
	}
	if err := populateTreeWithRunning(ctx, treeSCC, root); err != nil {
		panic(err)
	}
	root.FinishInsertionPhase(ctx)
	return root
}

func v17Verdict(root *tree.RootEntry, concurrent bool) ([]string, []string) {
	res := root.Validate(context.Background(), &config.Validation{
		DisableConcurrency: !concurrent,
		DisabledValidators: config.Validators{MustStatement: true},
	})
	errs, warns := res.ErrorsStr(), res.WarningsStr()
	sort.Strings(errs)
	sort.Strings(warns)
	return errs, warns
}

// v17Updates: an intent whose validation loads defaults (admin-state), checks
// a range (rangetestunsigned out of range), a length (interface name), a
// mandatory leaf (doublekey without mandato) and a leafref into a sibling branch.
func v17Updates(variant int) []*sdcpb.Update {
	u := []*sdcpb.Update{
		{Path: vPath(vPE("interface", "name", "lo1"), vPE("mtu")), Value: vUintTV(1500)},
		{Path: vPath(vPE("rangetestunsigned")), Value: vUintTV(1000)},
	}
	if variant >= 1 {
		u = append(u, &sdcpb.Update{Path: vPath(vPE("doublekey", "key1", "k1", "key2", "k2"), vPE("cont"), vPE("value1")), Value: vStrTV("x")})
	}
	if variant >= 2 {
		u = append(u,
			&sdcpb.Update{Path: vPath(vPE("interface", "name", "lo10"), vPE("description")), Value: vStrTV("d")},
			&sdcpb.Update{Path: vPath(vPE("network-instance", "name", "ni1"), vPE("interface", "name", "lo1.0"), vPE("interface-ref"), vPE("interface")), Value: vStrTV("lo1")})
	}
	return u
}

// VerifValidateConcurrent: for every explored interleaving the concurrent
// verdict (sorted errors and warnings) equals the sequential one.
func VerifValidateConcurrent() {
	variant := verifrt.Param("variant", 0)
	envSeq := vNewEnv()
	seqErrs, seqWarns := v17Verdict(v17Tree(envSeq, v17Updates(variant)), false)
	verifrt.Reach("sequential-done")
	verifrt.Assert(len(seqErrs) > 0, "C17-scenario-has-errors")
	envCon := vNewEnv()
	rootCon := v17Tree(envCon, v17Updates(variant))
	conErrs, conWarns := v17Verdict(rootCon, true)
	verifrt.Reach("concurrent-done")
	verifrt.Assert(verifrt.Goroutines() == 0, "C17-validators-all-finished")
	verifrt.Assert(len(conErrs) == len(seqErrs), "C17-same-number-of-errors")
	verifrt.Assert(len(conWarns) == len(seqWarns), "C17-same-number-of-warnings")
	if len(conErrs) == len(seqErrs) {
		for i := range conErrs {
			verifrt.Assert(conErrs[i] == seqErrs[i], "C17-same-errors")
		}
	}
	if len(conWarns) == len(seqWarns) {
		for i := range conWarns {
			verifrt.Assert(conWarns[i] == seqWarns[i], "C17-same-warnings")
		}
	}
}
