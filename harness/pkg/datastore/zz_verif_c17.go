//go:build verif

package datastore

// C17: validation verdicts do not depend on scheduling. The same tree is built
// twice from the same stores; one copy is validated sequentially, the other
// with concurrent validators under the engine's exploring scheduler.

import (
	"context"
	"sort"
	"strconv"
	"strings"

	sdccache "github.com/sdcio/cache/pkg/cache"
	"github.com/sdcio/data-server/pkg/config"
	"github.com/sdcio/data-server/pkg/tree"
	"github.com/sdcio/data-server/pkg/verifrt"
	sdcpb "github.com/sdcio/sdc-protos/sdcpb"
)

func v17Tree(env *vEnv, upds []*sdcpb.Update) *tree.RootEntry {
	ctx := context.Background()
	treeSCC := tree.NewTreeCacheClient(env.ds.Name(), env.ds.cacheClient)
	tc := tree.NewTreeContext(treeSCC, env.ds.schemaClient, env.ds.Name())
	// param "lazy" = 1: the up-front refresh of the store indexes did not happen (the datastore
	// ignores its error), so the validators that need an index load it themselves, possibly
	// several of them at the same time
	if verifrt.Param("lazy", 0) == 0 {
		tc.GetTreeSchemaCacheClient().RefreshCaches(ctx)
	}
	root, err := tree.NewTreeRoot(ctx, tc)
	if err != nil {
		panic(err)
	}
	tc.SetActualOwner("A")
	cu, err := env.ds.expandAndConvertIntent(ctx, "A", 10, upds)
	if err != nil {
		panic(err)
	}
	flagNew := tree.NewUpdateInsertFlags()
	flagNew.SetNewFlag()
	if err := root.AddCacheUpdatesRecursive(ctx, cu, flagNew); err != nil {
		panic(err)
	}
	if err := populateTreeWithRunning(ctx, treeSCC, root); err != nil {
		panic(err)
	}
	root.FinishInsertionPhase(ctx)
	return root
}

func v17Verdict(root *tree.RootEntry, concurrent bool) ([]string, []string) {
	if verifrt.Param("maporder", 0) == 1 {
		// Go randomises map iteration: every order of the children maps (<= 4 entries) is explored
		verifrt.MapOrderNondet(true)
		defer verifrt.MapOrderNondet(false)
	}
	res := root.Validate(context.Background(), &config.Validation{
		DisableConcurrency: !concurrent,
		// param "must" = 1: the must-statement validator is ON (all values are concrete in
		// these harnesses, so the XPath machine of yang-parser is simply interpreted)
		DisabledValidators: config.Validators{MustStatement: verifrt.Param("must", 0) == 0},
	})
	errs, warns := res.ErrorsStr(), res.WarningsStr()
	sort.Strings(errs)
	sort.Strings(warns)
	return errs, warns
}

// v17Updates: an intent whose validation loads defaults (admin-state), checks
// a range (rangetestunsigned out of range), a length (interface name), a
// mandatory leaf (doublekey without mandato) and a leafref into a sibling branch.
func v17Updates(variant int) []*sdcpb.Update {
	u := []*sdcpb.Update{
		{Path: vPath(vPE("interface", "name", "lo1"), vPE("mtu")), Value: vUintTV(1500)},
		{Path: vPath(vPE("rangetestunsigned")), Value: vUintTV(1000)},
	}
	if variant >= 1 {
		u = append(u, &sdcpb.Update{Path: vPath(vPE("doublekey", "key1", "k1", "key2", "k2"), vPE("cont"), vPE("value1")), Value: vStrTV("x")})
	}
	if variant >= 2 {
		u = append(u,
			&sdcpb.Update{Path: vPath(vPE("interface", "name", "lo10"), vPE("description")), Value: vStrTV("d")},
			&sdcpb.Update{Path: vPath(vPE("network-instance", "name", "ni1"), vPE("interface", "name", "lo1.0"), vPE("interface-ref"), vPE("interface")), Value: vStrTV("lo1")})
	}
	if variant == 3 {
		// a doublekey entry and a BGP instance, both without their mandatory leaves (see
		// v17MandatoryElsewhere): two validators (different goroutines) need the intended-store index
		u = []*sdcpb.Update{
			{Path: vPath(vPE("doublekey", "key1", "k1", "key2", "k2"), vPE("cont"), vPE("value1")), Value: vStrTV("x")},
			{Path: vPath(vPE("network-instance", "name", "ni1"), vPE("protocol"), vPE("bgp"), vPE("admin-state")), Value: vStrTV("enable")},
			{Path: vPath(vPE("rangetestunsigned")), Value: vUintTV(1000)},
		}
	}
	return u
}

// v17MandatoryElsewhere: the mandatory leaves of the doublekey entry and of the BGP instance of
// variant 3 are defined by another intent (B) - the mandatory validators find them through the
// intended-store index only.
func v17MandatoryElsewhere(env *vEnv) {
	ctx := context.Background()
	w := func(v *sdcpb.TypedValue, path ...string) {
		_ = env.model.WriteValue(ctx, "ds", &sdccache.Opts{Store: sdccache.StoreIntended, Path: [][]string{path}, Owner: "B", Priority: 20}, vBytes(v))
	}
	w(vStrTV("m"), "doublekey", "k1", "k2", "mandato")
	w(vUintTV(65001), "network-instance", "ni1", "protocol", "bgp", "autonomous-system")
	w(vStrTV("10.0.0.1"), "network-instance", "ni1", "protocol", "bgp", "router-id")
}

// v17OnDemandTree: a tree built the way replaceIntent builds it - the intent's values only,
// the running store is NOT loaded into the tree - so that validators load running values on
// demand while the tree is being walked: the leafref of interface-ref/subinterface resolves
// its key current()/../interface, which exists only in the running store and itself is a
// leafref that dangles (lo5).
func v17OnDemandTree(env *vEnv) *tree.RootEntry {
	ctx := context.Background()
	// param "dangling" = 1: the running-only leaf names an interface that does not exist, so it
	// fails its own leafref check whenever it gets validated;
	// 0: everything is valid (interface ethernet-1/1, subinterface 1 of type routed, bound to
	// network-instance default as ethernet-1/1.1; the running-only leaf names ethernet-1/1)
	ifName, sub, ni, niIf, target := "system0", uint64(0), "ni1", "system0.0", "lo5"
	if verifrt.Param("dangling", 1) == 0 {
		ifName, sub, ni, niIf, target = "ethernet-1/1", 1, "default", "ethernet-1/1.1", "ethernet-1/1"
	}
	subKey := strconv.FormatUint(sub, 10)
	ifRef := []string{"network-instance", ni, "interface", niIf, "interface-ref", "interface"}
	_ = env.model.WriteValue(ctx, "ds", &sdccache.Opts{Store: sdccache.StoreConfig, Path: [][]string{ifRef}}, vBytes(vStrTV(target)))
	treeSCC := tree.NewTreeCacheClient(env.ds.Name(), env.ds.cacheClient)
	tc := tree.NewTreeContext(treeSCC, env.ds.schemaClient, env.ds.Name())
	tc.GetTreeSchemaCacheClient().RefreshCaches(ctx)
	root, err := tree.NewTreeRoot(ctx, tc)
	if err != nil {
		panic(err)
	}
	tc.SetActualOwner("A")
	upds := []*sdcpb.Update{
		{Path: vPath(vPE("interface", "name", ifName), vPE("subinterface", "index", subKey), vPE("description")), Value: vStrTV("d")},
		{Path: vPath(vPE("network-instance", "name", ni), vPE("interface", "name", niIf), vPE("interface-ref"), vPE("subinterface")), Value: vUintTV(sub)},
	}
	if verifrt.Param("dangling", 1) == 0 {
		upds = append(upds, &sdcpb.Update{Path: vPath(vPE("interface", "name", ifName), vPE("subinterface", "index", subKey), vPE("type")),
			Value: &sdcpb.TypedValue{Value: &sdcpb.TypedValue_IdentityrefVal{IdentityrefVal: &sdcpb.IdentityRef{Value: "routed", Prefix: "sdcio_model_common", Module: "sdcio_model_common"}}}})
	}
	cu, err := env.ds.expandAndConvertIntent(ctx, "A", 10, upds)
	if err != nil {
		panic(err)
	}
	flagNew := tree.NewUpdateInsertFlags()
	flagNew.SetNewFlag()
	if err := root.AddCacheUpdatesRecursive(ctx, cu, flagNew); err != nil {
		panic(err)
	}
	root.FinishInsertionPhase(ctx)
	return root
}

// VerifValidateOnDemandLoad: sequential validation twice and concurrent validation once over
// trees in which validation loads a running value on demand; the three verdicts must be equal
// whatever the map iteration does with entries created while a children map is being ranged
// over (Go: "may be produced during the iteration or may be skipped" - the engine explores both).
func VerifValidateOnDemandLoad() {
	root1 := v17OnDemandTree(vNewEnv())
	errs1, warns1 := v17Verdict(root1, false)
	verifrt.Reach("sequential-done")
	errs2, warns2 := v17Verdict(v17OnDemandTree(vNewEnv()), false)
	verifrt.Reach("sequential-again-done")
	if verifrt.Param("dangling", 1) == 1 {
		verifrt.Assert(len(errs1) > 0, "C17-scenario-has-errors")
	}
	v17Same(errs1, errs2, "C17-repeated-sequential-run-same-errors")
	v17Same(warns1, warns2, "C17-repeated-sequential-run-same-warnings")
	if verifrt.Param("concurrent", 1) == 1 {
		errs3, warns3 := v17Verdict(v17OnDemandTree(vNewEnv()), true)
		verifrt.Reach("concurrent-done")
		verifrt.Assert(verifrt.Goroutines() == 0, "C17-validators-all-finished")
		v17Same(errs1, errs3, "C17-same-errors")
		v17Same(warns1, warns3, "C17-same-warnings")
	}
	// the SAME tree validated again: what the first run loaded on demand must not change the verdict
	errs1b, warns1b := v17Verdict(root1, false)
	verifrt.Observe("first", strings.Join(errs1, " | "))
	verifrt.Observe("again", strings.Join(errs1b, " | "))
	if verifrt.Param("dangling", 1) == 1 {
		// (situation label: the leaf loaded on demand is itself invalid)
		v17Same(errs1, errs1b, "C17-same-tree-validated-again-same-errors/leaf-loaded-on-demand-is-invalid")
	} else {
		v17Same(errs1, errs1b, "C17-same-tree-validated-again-same-errors")
	}
	v17Same(warns1, warns1b, "C17-same-tree-validated-again-same-warnings")
}

func v17Same(a, b []string, label string) {
	verifrt.Assert(len(a) == len(b), label)
	if len(a) == len(b) {
		for i := range a {
			verifrt.Assert(a[i] == b[i], label)
		}
	}
}

// VerifValidateConcurrent: for every explored interleaving the concurrent
// verdict (sorted errors and warnings) equals the sequential one.
func VerifValidateConcurrent() {
	variant := verifrt.Param("variant", 0)
	envSeq := vNewEnv()
	if variant == 3 {
		v17MandatoryElsewhere(envSeq)
	}
	seqErrs, seqWarns := v17Verdict(v17Tree(envSeq, v17Updates(variant)), false)
	verifrt.Reach("sequential-done")
	verifrt.Assert(len(seqErrs) > 0, "C17-scenario-has-errors")
	envCon := vNewEnv()
	if variant == 3 {
		v17MandatoryElsewhere(envCon)
	}
	rootCon := v17Tree(envCon, v17Updates(variant))
	conErrs, conWarns := v17Verdict(rootCon, true)
	verifrt.Reach("concurrent-done")
	verifrt.Assert(verifrt.Goroutines() == 0, "C17-validators-all-finished")
	verifrt.Assert(len(conErrs) == len(seqErrs), "C17-same-number-of-errors")
	verifrt.Assert(len(conWarns) == len(seqWarns), "C17-same-number-of-warnings")
	if len(conErrs) == len(seqErrs) {
		for i := range conErrs {
			verifrt.Assert(conErrs[i] == seqErrs[i], "C17-same-errors")
		}
	}
	if len(conWarns) == len(seqWarns) {
		for i := range conWarns {
			verifrt.Assert(conWarns[i] == seqWarns[i], "C17-same-warnings")
		}
	}
}

// VerifIndexLazyConcurrent: the on-demand loading of the store indexes that the validators rely
// on (mandatory: IntendedPathExists; leafref / must: ReadRunningPath; choice: GetBranchesHighesPrecedence).
// The up-front RefreshCaches did not happen (the datastore ignores its error), "readers" goroutines
// each ask one question at the same time; every explored interleaving must give each of them the
// answer a client with loaded indexes gives.
func VerifIndexLazyConcurrent() {
	ctx := context.Background()
	env := vNewEnv()
	v17MandatoryElsewhere(env)
	runPath := []string{"interface", "lo1", "description"}
	_ = env.model.WriteValue(ctx, "ds", &sdccache.Opts{Store: sdccache.StoreConfig, Path: [][]string{runPath}}, vBytes(vStrTV("d")))
	type answer struct {
		exists bool
		prio   int32
		owner  string
	}
	ask := func(c *tree.TreeCacheClientImpl, op int) answer {
		switch op {
		case 0:
			ok, _ := c.IntendedPathExists(ctx, []string{"doublekey", "k1", "k2", "mandato"})
			return answer{exists: ok}
		case 1:
			ok, _ := c.IntendedPathExists(ctx, []string{"network-instance", "ni1", "protocol", "bgp", "router-id"})
			return answer{exists: ok}
		case 2:
			u, _ := c.ReadRunningPath(ctx, runPath)
			if u == nil {
				return answer{}
			}
			return answer{exists: true, owner: u.Owner()}
		case 3:
			return answer{prio: c.GetBranchesHighesPrecedence(ctx, []string{"network-instance", "ni1", "protocol", "bgp"})}
		}
		// a path no store holds
		ok, _ := c.IntendedPathExists(ctx, []string{"doublekey", "k1", "k2", "nosuch"})
		return answer{exists: ok}
	}
	n := verifrt.Param("readers", 2)
	ops := make([]int, n)
	for i := range ops {
		ops[i] = verifrt.Choice("op."+strconv.Itoa(i), 5)
	}
	ref := tree.NewTreeCacheClient(env.ds.Name(), env.ds.cacheClient)
	_ = ref.RefreshCaches(ctx)
	want := make([]answer, n)
	for i, op := range ops {
		want[i] = ask(ref, op)
	}
	verifrt.Reach("reference-answers")
	lazy := tree.NewTreeCacheClient(env.ds.Name(), env.ds.cacheClient)
	got := make([]answer, n)
	done := make(chan int, n)
	for i := range ops {
		go func(i int) {
			got[i] = ask(lazy, ops[i])
			done <- i
		}(i)
	}
	for range ops {
		<-done
	}
	verifrt.AwaitQuiescence()
	verifrt.Reach("concurrent-answers")
	for i := range ops {
		verifrt.Assert(got[i].exists == want[i].exists, "C17-lazy-index-same-existence")
		verifrt.Assert(got[i].prio == want[i].prio, "C17-lazy-index-same-precedence")
		verifrt.Assert(got[i].owner == want[i].owner, "C17-lazy-index-same-running-value")
	}
}

// VerifValidateConcurrentWide: SIZE-DRIVEN variant of VerifValidateConcurrent. One list node with
// Param("entries") entries, every entry invalid in its own way (an interface name that does
// not match the pattern of the schema: one error per entry, naming the entry), plus the
// out-of-range leaf of the base scenario. The concurrent verdict must equal the sequential one
// entry for entry. The sizes come from the integer constants that meet a length in the code
// under test (fan-out thresholds of the validator), see interp.CodeSizeConstants.
func VerifValidateConcurrentWide() {
	n := verifrt.Param("entries", 3)
	mk := func() []*sdcpb.Update {
		u := []*sdcpb.Update{{Path: vPath(vPE("rangetestunsigned")), Value: vUintTV(1000)}}
		for k := 0; k < n; k++ {
			u = append(u, &sdcpb.Update{Path: vPath(vPE("interface", "name", "x"+strconv.Itoa(k)), vPE("description")), Value: vStrTV("d")})
		}
		return u
	}
	seqErrs, seqWarns := v17Verdict(v17Tree(vNewEnv(), mk()), false)
	verifrt.Reach("sequential-done")
	verifrt.Assert(len(seqErrs) >= n+1, "C17-scenario-has-one-error-per-entry")
	conErrs, conWarns := v17Verdict(v17Tree(vNewEnv(), mk()), true)
	verifrt.Reach("concurrent-done")
	verifrt.Assert(verifrt.Goroutines() == 0, "C17-validators-all-finished")
	verifrt.Assert(len(conErrs) == len(seqErrs), "C17-same-number-of-errors")
	verifrt.Assert(len(conWarns) == len(seqWarns), "C17-same-number-of-warnings")
	if len(conErrs) == len(seqErrs) {
		for i := range conErrs {
			verifrt.Assert(conErrs[i] == seqErrs[i], "C17-same-errors")
		}
	}
}
