//go:build verif

package datastore

// C17: validation verdicts do not depend on scheduling. The same tree is built
// twice from the same stores; one copy is validated sequentially, the other
// with concurrent validators under the engine's exploring scheduler.

import (
	"context"
	"sort"
	"strconv"
	"strings"

	sdccache "github.com/sdcio/cache/pkg/cache"
	"github.com/sdcio/data-server/pkg/config"
	"github.com/sdcio/data-server/pkg/tree"
	"github.com/sdcio/data-server/pkg/verifrt"
	sdcpb "github.com/sdcio/sdc-protos/sdcpb"
)

func v17Tree(env *vEnv, upds []*sdcpb.Update) *tree.RootEntry {
	ctx := context.Background()
	treeSCC := tree.NewTreeCacheClient(env.ds.Name(), env.ds.cacheClient)
	tc := tree.NewTreeContext(treeSCC, env.ds.schemaClient, env.ds.Name())
	tc.GetTreeSchemaCacheClient().RefreshCaches(ctx)
	root, err := tree.NewTreeRoot(ctx, tc)
	if err != nil {
		panic(err)
	}
	tc.SetActualOwner("A")
	cu, err := env.ds.expandAndConvertIntent(ctx, "A", 10, upds)
	if err != nil {
		panic(err)
	}
	flagNew := tree.NewUpdateInsertFlags()
	flagNew.SetNewFlag()
	if err := root.AddCacheUpdatesRecursive(ctx, cu, flagNew); err != nil {
		panic(err)
	}
	if err := populateTreeWithRunning(ctx, treeSCC, root); err != nil {
		panic(err)
	}
	root.FinishInsertionPhase(ctx)
	return root
}

func v17Verdict(root *tree.RootEntry, concurrent bool) ([]string, []string) {
	if verifrt.Param("maporder", 0) == 1 {
		// Go randomises map iteration: every order of the children maps (<= 4 entries) is explored
		verifrt.MapOrderNondet(true)
		defer verifrt.MapOrderNondet(false)
	}
	res := root.Validate(context.Background(), &config.Validation{
		DisableConcurrency: !concurrent,
		// param "must" = 1: the must-statement validator is ON (all values are concrete in
		// these harnesses, so the XPath machine of yang-parser is simply interpreted)
		DisabledValidators: config.Validators{MustStatement: verifrt.Param("must", 0) == 0},
	})
	errs, warns := res.ErrorsStr(), res.WarningsStr()
	sort.Strings(errs)
	sort.Strings(warns)
	return errs, warns
}

// v17Updates: an intent whose validation loads defaults (admin-state), checks
// a range (rangetestunsigned out of range), a length (interface name), a
// mandatory leaf (doublekey without mandato) and a leafref into a sibling branch.
func v17Updates(variant int) []*sdcpb.Update {
	u := []*sdcpb.Update{
		{Path: vPath(vPE("interface", "name", "lo1"), vPE("mtu")), Value: vUintTV(1500)},
		{Path: vPath(vPE("rangetestunsigned")), Value: vUintTV(1000)},
	}
	if variant >= 1 {
		u = append(u, &sdcpb.Update{Path: vPath(vPE("doublekey", "key1", "k1", "key2", "k2"), vPE("cont"), vPE("value1")), Value: vStrTV("x")})
	}
	if variant >= 2 {
		u = append(u,
			&sdcpb.Update{Path: vPath(vPE("interface", "name", "lo10"), vPE("description")), Value: vStrTV("d")},
			&sdcpb.Update{Path: vPath(vPE("network-instance", "name", "ni1"), vPE("interface", "name", "lo1.0"), vPE("interface-ref"), vPE("interface")), Value: vStrTV("lo1")})
	}
	return u
}

// v17OnDemandTree: a tree built the way replaceIntent builds it - the intent's values only,
// the running store is NOT loaded into the tree - so that validators load running values on
// demand while the tree is being walked: the leafref of interface-ref/subinterface resolves
// its key current()/../interface, which exists only in the running store and itself is a
// leafref that dangles (lo5).
func v17OnDemandTree(env *vEnv) *tree.RootEntry {
	ctx := context.Background()
	// param "dangling" = 1: the running-only leaf names an interface that does not exist, so it
	// fails its own leafref check whenever it gets validated;
	// 0: everything is valid (interface ethernet-1/1, subinterface 1 of type routed, bound to
	// network-instance default as ethernet-1/1.1; the running-only leaf names ethernet-1/1)
	ifName, sub, ni, niIf, target := "system0", uint64(0), "ni1", "system0.0", "lo5"
	if verifrt.Param("dangling", 1) == 0 {
		ifName, sub, ni, niIf, target = "ethernet-1/1", 1, "default", "ethernet-1/1.1", "ethernet-1/1"
	}
	subKey := strconv.FormatUint(sub, 10)
	ifRef := []string{"network-instance", ni, "interface", niIf, "interface-ref", "interface"}
	_ = env.model.WriteValue(ctx, "ds", &sdccache.Opts{Store: sdccache.StoreConfig, Path: [][]string{ifRef}}, vBytes(vStrTV(target)))
	treeSCC := tree.NewTreeCacheClient(env.ds.Name(), env.ds.cacheClient)
	tc := tree.NewTreeContext(treeSCC, env.ds.schemaClient, env.ds.Name())
	tc.GetTreeSchemaCacheClient().RefreshCaches(ctx)
	root, err := tree.NewTreeRoot(ctx, tc)
	if err != nil {
		panic(err)
	}
	tc.SetActualOwner("A")
	upds := []*sdcpb.Update{
		{Path: vPath(vPE("interface", "name", ifName), vPE("subinterface", "index", subKey), vPE("description")), Value: vStrTV("d")},
		{Path: vPath(vPE("network-instance", "name", ni), vPE("interface", "name", niIf), vPE("interface-ref"), vPE("subinterface")), Value: vUintTV(sub)},
	}
	if verifrt.Param("dangling", 1) == 0 {
		upds = append(upds, &sdcpb.Update{Path: vPath(vPE("interface", "name", ifName), vPE("subinterface", "index", subKey), vPE("type")),
			Value: &sdcpb.TypedValue{Value: &sdcpb.TypedValue_IdentityrefVal{IdentityrefVal: &sdcpb.IdentityRef{Value: "routed", Prefix: "sdcio_model_common", Module: "sdcio_model_common"}}}})
	}
	cu, err := env.ds.expandAndConvertIntent(ctx, "A", 10, upds)
	if err != nil {
		panic(err)
	}
	flagNew := tree.NewUpdateInsertFlags()
	flagNew.SetNewFlag()
	if err := root.AddCacheUpdatesRecursive(ctx, cu, flagNew); err != nil {
		panic(err)
	}
	root.FinishInsertionPhase(ctx)
	return root
}

// VerifValidateOnDemandLoad: sequential validation twice and concurrent validation once over
// trees in which validation loads a running value on demand; the three verdicts must be equal
// whatever the map iteration does with entries created while a children map is being ranged
// over (Go: "may be produced during the iteration or may be skipped" - the engine explores both).
func VerifValidateOnDemandLoad() {
	root1 := v17OnDemandTree(vNewEnv())
	errs1, warns1 := v17Verdict(root1, false)
	verifrt.Reach("sequential-done")
	errs2, warns2 := v17Verdict(v17OnDemandTree(vNewEnv()), false)
	verifrt.Reach("sequential-again-done")
	if verifrt.Param("dangling", 1) == 1 {
		verifrt.Assert(len(errs1) > 0, "C17-scenario-has-errors")
	}
	v17Same(errs1, errs2, "C17-repeated-sequential-run-same-errors")
	v17Same(warns1, warns2, "C17-repeated-sequential-run-same-warnings")
	if verifrt.Param("concurrent", 1) == 1 {
		errs3, warns3 := v17Verdict(v17OnDemandTree(vNewEnv()), true)
		verifrt.Reach("concurrent-done")
		verifrt.Assert(verifrt.Goroutines() == 0, "C17-validators-all-finished")
		v17Same(errs1, errs3, "C17-same-errors")
		v17Same(warns1, warns3, "C17-same-warnings")
	}
	// the SAME tree validated again: what the first run loaded on demand must not change the verdict
	errs1b, warns1b := v17Verdict(root1, false)
	verifrt.Observe("first", strings.Join(errs1, " | "))
	verifrt.Observe("again", strings.Join(errs1b, " | "))
	if verifrt.Param("dangling", 1) == 1 {
		// (situation label: the leaf loaded on demand is itself invalid)
		v17Same(errs1, errs1b, "C17-same-tree-validated-again-same-errors/leaf-loaded-on-demand-is-invalid")
	} else {
		v17Same(errs1, errs1b, "C17-same-tree-validated-again-same-errors")
	}
	v17Same(warns1, warns1b, "C17-same-tree-validated-again-same-warnings")
}

func v17Same(a, b []string, label string) {
	verifrt.Assert(len(a) == len(b), label)
	if len(a) == len(b) {
		for i := range a {
			verifrt.Assert(a[i] == b[i], label)
		}
	}
}

// VerifValidateConcurrent: for every explored interleaving the concurrent
// verdict (sorted errors and warnings) equals the sequential one.
func VerifValidateConcurrent() {
	variant := verifrt.Param("variant", 0)
	envSeq := vNewEnv()
	seqErrs, seqWarns := v17Verdict(v17Tree(envSeq, v17Updates(variant)), false)
	verifrt.Reach("sequential-done")
	verifrt.Assert(len(seqErrs) > 0, "C17-scenario-has-errors")
	envCon := vNewEnv()
	rootCon := v17Tree(envCon, v17Updates(variant))
	conErrs, conWarns := v17Verdict(rootCon, true)
	verifrt.Reach("concurrent-done")
	verifrt.Assert(verifrt.Goroutines() == 0, "C17-validators-all-finished")
	verifrt.Assert(len(conErrs) == len(seqErrs), "C17-same-number-of-errors")
	verifrt.Assert(len(conWarns) == len(seqWarns), "C17-same-number-of-warnings")
	if len(conErrs) == len(seqErrs) {
		for i := range conErrs {
			verifrt.Assert(conErrs[i] == seqErrs[i], "C17-same-errors")
		}
	}
	if len(conWarns) == len(seqWarns) {
		for i := range conWarns {
			verifrt.Assert(conWarns[i] == seqWarns[i], "C17-same-warnings")
		}
	}
}
