//go:build verif

package datastore

// Size-driven step of the transaction pipeline (C01, C02).
//
// The pipeline harnesses quantify over small universes (a handful of leaves). A size threshold
// in the code under test - a batch size, a "large intent" fast path - lies beyond any such
// universe. VerifLargeIntentStep runs ONE step of the pipeline from a store in which intent A
// holds exactly Param("paths") leaf paths (list entries interface[name=eK] with their key leaf
// and a description; one top-level leaf more when the number is odd). The engine derives the
// sizes from the integer constants that meet a length in the code under test
// (interp.CodeSizeConstants, "sizes_from_code" in checks/*.json), so the sizes follow the code.
//
// What is symbolic: the kind of request (delete / shrink to the first entry / shrink by the
// last entry / re-submit everything with one value changed), whether a second intent B of
// worse precedence defines the description of the LAST and of the FIRST entry as well, and
// B's values. Everything else is concrete (one path per size and choice; the value of the
// check is the size, the deciding step per path is still the engine's execution of the real
// code with the oracle's assertions discharged by the solver where they involve B's values).

import (
	"context"
	"strconv"
	"strings"

	"github.com/sdcio/data-server/pkg/datastore/types"
	"github.com/sdcio/data-server/pkg/verifrt"
	sdccache "github.com/sdcio/cache/pkg/cache"
	sdcpb "github.com/sdcio/sdc-protos/sdcpb"
)

func vLargeName(k int) string {
	// interface names have to match the pattern of the schema: ethernet-<1..99>/<1..128>
	return "ethernet-" + strconv.Itoa(1+k/128) + "/" + strconv.Itoa(1+k%128)
}

type vLargeLeaf struct {
	strs []string
	path *sdcpb.Path
	id   string
}

func vLargeLeaves(paths int) []*vLargeLeaf {
	var ls []*vLargeLeaf
	entries := paths / 2
	for k := 0; k < entries; k++ {
		n := vLargeName(k)
		for _, leaf := range []string{"description", "name"} {
			p := &sdcpb.Path{Elem: []*sdcpb.PathElem{vPE("interface", "name", n), vPE(leaf)}}
			ls = append(ls, &vLargeLeaf{strs: []string{"interface", n, leaf}, path: p, id: vPathID(p)})
		}
	}
	if paths%2 == 1 {
		p := &sdcpb.Path{Elem: []*sdcpb.PathElem{vPE("patterntest")}}
		ls = append(ls, &vLargeLeaf{strs: []string{"patterntest"}, path: p, id: vPathID(p)})
	}
	return ls
}

func (l *vLargeLeaf) isKey() bool  { return len(l.strs) == 3 && l.strs[2] == "name" }
func (l *vLargeLeaf) isDesc() bool { return len(l.strs) == 3 && l.strs[2] == "description" }

// value A holds for leaf l in version ver
func (l *vLargeLeaf) valA(ver int) string {
	switch {
	case l.isKey():
		return l.strs[1]
	case l.isDesc():
		if ver == 0 {
			return "d"
		}
		return "D"
	}
	return "hallo 0" // patterntest: pattern "hallo [0-9a-fA-F]*"
}

// VerifLargeIntentStep: see the file comment.
func VerifLargeIntentStep() {
	paths := verifrt.Param("paths", 6)
	ls := vLargeLeaves(paths)
	entries := paths / 2
	if entries < 2 {
		return
	}
	env := vNewEnv()
	ctx := context.Background()
	const prioA, prioB = 10, 20
	// B: optional second definer of the description of the last and of the first entry
	bLast := verifrt.Bool("b.last")
	bFirst := verifrt.Bool("b.first")
	bVal := map[string]string{}
	first, last := vLargeName(0), vLargeName(entries-1)
	if bLast {
		s := verifrt.String("b.val.last", 1, "xy")
		verifrt.Assume(len(s) == 1)
		bVal[last] = s
	}
	if bFirst {
		s := verifrt.String("b.val.first", 1, "xy")
		verifrt.Assume(len(s) == 1)
		bVal[first] = s
	}
	// pre-state: intended = A's paths (+ B's), running = the merge (A wins everywhere)
	for _, l := range ls {
		_ = env.model.WriteValue(ctx, "ds", &sdccache.Opts{Store: sdccache.StoreIntended, Path: [][]string{l.strs}, Owner: "A", Priority: prioA}, vBytes(vStrTV(l.valA(0))))
		_ = env.model.WriteValue(ctx, "ds", &sdccache.Opts{Store: sdccache.StoreConfig, Path: [][]string{l.strs}}, vBytes(vStrTV(l.valA(0))))
	}
	for n, v := range bVal {
		for _, leaf := range []string{"description", "name"} {
			val := v
			if leaf == "name" {
				val = n
			}
			_ = env.model.WriteValue(ctx, "ds", &sdccache.Opts{Store: sdccache.StoreIntended, Path: [][]string{{"interface", n, leaf}}, Owner: "B", Priority: prioB}, vBytes(vStrTV(val)))
		}
	}
	env.model.Calls = 0
	nIntendedOther := 2 * len(bVal)
	verifrt.Reach("state-built")

	// the request of owner A
	kind := verifrt.Choice("req.kind", 4)
	ti := &sdcpb.TransactionIntent{Intent: "A", Priority: prioA}
	keep := map[string]int{} // leaf id -> version A holds after the step
	switch kind {
	case 0: // delete
		ti.Delete = true
	case 1: // shrink to the first entry
		for _, l := range ls {
			if len(l.strs) == 3 && l.strs[1] == first {
				keep[l.id] = 0
			}
		}
	case 2: // shrink by the last entry
		for _, l := range ls {
			if !(len(l.strs) == 3 && l.strs[1] == last) {
				keep[l.id] = 0
			}
		}
	case 3: // everything again, the last entry's description changed
		for _, l := range ls {
			keep[l.id] = 0
			if l.isDesc() && l.strs[1] == last {
				keep[l.id] = 1
			}
		}
	}
	for _, l := range ls {
		if ver, ok := keep[l.id]; ok && !l.isKey() {
			ti.Update = append(ti.Update, &sdcpb.Update{Path: l.path, Value: vStrTV(l.valA(ver))})
		}
	}
	iti, err := env.ds.SdcpbTransactionIntentToInternalTI(ctx, ti)
	verifrt.Assert(err == nil, "valid-request-accepted")
	if err != nil {
		return
	}
	rsp, err := env.ds.TransactionSet(ctx, "t1", []*types.TransactionIntent{iti}, nil, vTxnTimeout, false)
	verifrt.Reach("step-done")
	verifrt.Assert(err == nil, "valid-request-accepted")
	if err != nil {
		return
	}
	if vHasErrors(rsp) {
		verifrt.Observe("intent-errors", rsp.String())
	}
	verifrt.Assert(!vHasErrors(rsp), "valid-request-no-intent-errors")
	if vHasErrors(rsp) {
		return
	}

	// C02: the intended store holds exactly A's new version (priority, value) and B's entries
	leafByKey := map[string]*vLargeLeaf{}
	for _, l := range ls {
		leafByKey[strings.Join(l.strs, ",")] = l
	}
	seenA := map[string]int{}
	nB := 0
	for _, e := range env.model.Intended {
		switch e.Owner {
		case "A":
			l := leafByKey[e.Key]
			if l == nil {
				verifrt.Assert(false, "C02-unknown-path-stored")
				continue
			}
			ver, ok := keep[l.id]
			verifrt.Assert(ok, "C02-no-entry-of-superseded-version")
			if !ok {
				continue
			}
			seenA[l.id]++
			verifrt.Assert(e.Prio == prioA, "C02-stored-priority")
			tv := vDecode(e.Val)
			verifrt.Assert(tv != nil && tv.GetStringVal() == l.valA(ver), "C02-stored-value")
		case "B":
			nB++
			verifrt.Assert(e.Prio == prioB, "C02-other-intents-unchanged")
		default:
			verifrt.Assert(false, "C02-unknown-owner-stored")
		}
	}
	verifrt.Assert(nB == nIntendedOther, "C02-other-intents-unchanged")
	for _, l := range ls {
		if _, ok := keep[l.id]; ok {
			verifrt.Assert(seenA[l.id] == 1, "C02-every-path-of-last-version-stored-once")
		}
	}

	// C01: the device after the sent deletes and updates
	verifrt.Assert(env.tgt.Sets == 1, "C01-one-set-call")
	if env.tgt.Sets != 1 {
		return
	}
	dev := map[string]string{}
	for _, l := range ls {
		dev[l.id] = l.valA(0)
	}
	for _, d := range env.tgt.Deletes[0] {
		did := vPathID(d)
		for id := range dev {
			if vIsPrefix(did, id) {
				delete(dev, id)
			}
		}
	}
	for _, u := range env.tgt.Updates[0] {
		dev[vPathID(u.GetPath())] = u.GetValue().GetStringVal()
	}
	for _, l := range ls {
		want, has := "", false
		if ver, ok := keep[l.id]; ok {
			want, has = l.valA(ver), true
		} else if len(l.strs) == 3 {
			if bv, ok := bVal[l.strs[1]]; ok {
				has = true
				want = bv
				if l.isKey() {
					want = l.strs[1]
				}
			}
		}
		got, onDev := dev[l.id]
		if has {
			verifrt.Assert(onDev, "C01-live-path-on-device")
			if onDev {
				verifrt.Assert(got == want, "C01-winner-value-on-device")
			}
		} else {
			verifrt.Assert(!onDev, "C01-dead-path-removed-from-device")
		}
	}
	verifrt.Reach("oracle-done")
}
