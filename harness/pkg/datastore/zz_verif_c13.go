//go:build verif

package datastore

// C13 "the running datastore mirrors the device after sync": the real
// Datastore.storeSyncMsg and Datastore.Sync over the model cache.
//
// Universe: interface[name=lo1]/mtu, interface[name=lo10]/mtu and their key
// leaves (vScenarioPrefix), optionally interface[name=lo1]/description as a
// state leaf (schema variant, see v13StateSchema).

import (
	"context"
	"strings"

	"golang.org/x/sync/semaphore"
	"google.golang.org/grpc"

	"github.com/sdcio/data-server/pkg/config"
	schemaClient "github.com/sdcio/data-server/pkg/datastore/clients/schema"
	"github.com/sdcio/data-server/pkg/datastore/target"
	"github.com/sdcio/data-server/pkg/verifrt"
	"github.com/sdcio/data-server/pkg/verifschema"
	sdcpb "github.com/sdcio/sdc-protos/sdcpb"

	sdccache "github.com/sdcio/cache/pkg/cache"
)

// v13StateSchema is the generated test schema with ONE change: the leaf
// interface/description is "config false" (the test YANG has no state leaf).
type v13StateSchema struct {
	*verifschema.Client
}

func (c *v13StateSchema) GetSchema(ctx context.Context, in *sdcpb.GetSchemaRequest, opts ...grpc.CallOption) (*sdcpb.GetSchemaResponse, error) {
	rsp, err := c.Client.GetSchema(ctx, in, opts...)
	if err != nil {
		return rsp, err
	}
	es := in.GetPath().GetElem()
	if len(es) == 2 && es[0].GetName() == "interface" && es[1].GetName() == "description" {
		rsp.GetSchema().GetField().IsState = true
	}
	return rsp, nil
}

// v13Kind of a message on the sync channel.
const (
	v13Start = iota
	v13End
	v13Update
	v13Delete
)

type v13Msg struct {
	kind  int
	leaf  *vLeaf      // update: the leaf written
	val   vVal        // update: its value
	del   *sdcpb.Path // delete: the path removed
	delID string
	both  bool // update: the notification also carries lo10/mtu = val2
	val2  vVal
}

func (m *v13Msg) String() string {
	switch m.kind {
	case v13Start:
		return "start"
	case v13End:
		return "end"
	case v13Update:
		return "update " + m.leaf.id
	}
	return "delete " + m.delID
}

// v13Mirror is the expected content of the running mirror over the universe.
type v13Mirror struct {
	sc      *vScenario
	state   *vLeaf // the state leaf of the universe (nil = none)
	pres    map[string]bool
	val     map[string]vVal
	inCycle bool
	written map[string]bool
}

func v13NewMirror(sc *vScenario) *v13Mirror {
	return &v13Mirror{sc: sc, pres: map[string]bool{}, val: map[string]vVal{}, written: map[string]bool{}}
}

func (m *v13Mirror) leaves() []*vLeaf {
	if m.state == nil {
		return m.sc.leaves
	}
	return append(append([]*vLeaf{}, m.sc.leaves...), m.state)
}

func (m *v13Mirror) keyLeafOf(l *vLeaf) *vLeaf {
	for _, k := range m.sc.leaves {
		if k.keyOf != "" && k.keyOf == l.entry {
			return k
		}
	}
	return nil
}

func (m *v13Mirror) set(l *vLeaf, v vVal) {
	m.pres[l.id] = true
	m.val[l.id] = v
	m.written[l.id] = true
	if k := m.keyLeafOf(l); k != nil && k != l {
		m.pres[k.id] = true
		m.val[k.id] = vVal{s: k.keyVal}
		m.written[k.id] = true
	}
}

// apply folds one message: the latest notification wins; a delete removes the
// element-wise subtree; a completed start..end cycle removes what was not
// written in it.
func (m *v13Mirror) apply(msg *v13Msg) {
	switch msg.kind {
	case v13Start:
		m.inCycle = true
		m.written = map[string]bool{}
	case v13End:
		if m.inCycle {
			for _, l := range m.leaves() {
				if !m.written[l.id] {
					m.pres[l.id] = false
				}
			}
		}
		m.inCycle = false
	case v13Update:
		m.set(msg.leaf, msg.val)
	case v13Delete:
		for _, l := range m.leaves() {
			if vIsPrefix(msg.delID, l.id) {
				m.pres[l.id] = false
			}
		}
	}
}

func v13Key(l *vLeaf) string { return strings.Join(l.strs, ",") }

// v13Install writes the expected mirror into the CONFIG / STATE buckets.
func (m *v13Mirror) install(env *vEnv) {
	ctx := context.Background()
	for _, l := range m.leaves() {
		if !m.pres[l.id] {
			continue
		}
		store := sdccache.StoreConfig
		if l == m.state {
			store = sdccache.StoreState
		}
		_ = env.model.WriteValue(ctx, "ds", &sdccache.Opts{Store: store, Path: [][]string{l.strs}}, vBytes(l.tv(m.val[l.id])))
	}
	env.model.Calls = 0
}

// v13Situation names the known-defect situation (if any) in which leaf l can
// be wrong after the messages; "" = none, a violation is then unexpected.
// workers = 0: the messages were applied sequentially.
func (mr *v13Mirror) situation(msgs []*v13Msg, l *vLeaf, workers int, wantPresent bool, stored int) string {
	touches := func(m *v13Msg) bool {
		switch m.kind {
		case v13Update:
			return m.leaf.id == l.id || (l.keyOf != "" && l.keyOf == m.leaf.entry)
		case v13Delete:
			return strings.HasPrefix(v13Key(l), strings.Join(vToStrings(m.del), ","))
		}
		return false
	}
	// a delete whose comma-joined key is a byte prefix of this leaf's key
	// although the deleted path is not an ancestor of the leaf
	if wantPresent && stored == 0 {
		for _, m := range msgs {
			if m.kind == v13Delete && touches(m) && !vIsPrefix(m.delID, l.id) {
				return "/key-extends-deleted-sibling"
			}
		}
	}
	// a state leaf below a deleted list entry / container: the delete names a
	// config node, so only the CONFIG store is asked to remove the subtree
	if l == mr.state && !wantPresent && stored > 0 {
		for _, m := range msgs {
			if m.kind == v13Delete && vIsPrefix(m.delID, l.id) && m.delID != l.id {
				return "/state-leaf-under-deleted-entry"
			}
		}
	}
	// a notification touching l can still be in flight when a later sync start
	// is handled (the start does not take a worker slot): its write then
	// carries the new cycle's mark and survives the cycle's end although the
	// cycle did not report it. With W workers notification i is certainly
	// finished at message j only if W notifications were admitted in between.
	if workers >= 1 && !wantPresent && stored > 0 {
		for i, m := range msgs {
			if !touches(m) {
				continue
			}
			between := 0
			for _, n := range msgs[i+1:] {
				if n.kind == v13Start && between < workers {
					return "/sync-start-does-not-wait-for-workers"
				}
				if n.kind == v13Update || n.kind == v13Delete {
					between++
				}
			}
		}
	}
	if workers >= 2 {
		n := 0
		for _, m := range msgs {
			if touches(m) {
				n++
			}
		}
		if n >= 2 {
			return "/two-workers-same-path"
		}
	}
	return ""
}

// assertMirror compares the CONFIG (and STATE) bucket with the expectation.
func (m *v13Mirror) assertMirror(env *vEnv, msgs []*v13Msg, workers int, validate bool, label string) {
	for _, l := range m.leaves() {
		home, other := env.model.Config, env.model.State
		if l == m.state && validate {
			home, other = env.model.State, env.model.Config
		}
		n := 0
		var stored *sdcpb.TypedValue
		for _, e := range home {
			if e.Key == v13Key(l) {
				n++
				stored = vDecode(e.Val)
			}
		}
		for _, e := range other {
			if e.Key == v13Key(l) {
				if l == m.state {
					verifrt.Assert(false, label+"-state-leaf-in-config-store")
				} else {
					verifrt.Assert(false, label+"-config-leaf-in-state-store")
				}
			}
		}
		want := m.pres[l.id]
		sit := m.situation(msgs, l, workers, want, n)
		verifrt.Assert(n <= 1, label+"-stored-once"+sit)
		if want {
			verifrt.Assert(n >= 1, label+"-reported-path-present"+sit)
		} else {
			verifrt.Assert(n == 0, label+"-absent-path-gone"+sit)
		}
		if n == 1 && want {
			verifrt.Assert(l.sameVal(stored, m.val[l.id]), label+"-latest-value"+sit)
		}
	}
	// nothing outside the universe
	for _, b := range [][]string{v13Keys(env, false), v13Keys(env, true)} {
		for _, k := range b {
			known := false
			for _, l := range m.leaves() {
				if v13Key(l) == k {
					known = true
				}
			}
			verifrt.Assert(known, label+"-only-reported-paths-stored")
		}
	}
}

func v13Keys(env *vEnv, state bool) []string {
	var out []string
	b := env.model.Config
	if state {
		b = env.model.State
	}
	for _, e := range b {
		out = append(out, e.Key)
	}
	return out
}

// v13ArbitraryMirror: an arbitrary pre-content of the mirror (key leaves
// present for the entries that have a leaf).
func v13ArbitraryMirror(sc *vScenario, withState bool) *v13Mirror {
	m := v13NewMirror(sc)
	if withState {
		m.state = vIfLeaf("lo1", "description", false)
		m.state.tag = "S"
	}
	for _, l := range m.leaves() {
		if l.keyOf != "" {
			continue
		}
		if verifrt.Bool("pre." + l.tag) {
			m.set(l, l.newVal("preval."+l.tag))
		}
	}
	m.written = map[string]bool{}
	return m
}

func v13Scenario() *vScenario {
	sc := vScenarioPrefix()
	for i, l := range sc.leaves {
		l.tag = "L" + string(rune('0'+i))
	}
	return sc
}

// v13Deletable: the paths a delete may name: the two list entries and the two mtu leaves.
func v13Deletable(sc *vScenario) []*sdcpb.Path {
	return []*sdcpb.Path{
		vPath(vPE("interface", "name", "lo1")),
		vPath(vPE("interface", "name", "lo10")),
		sc.leaves[0].path(),
		sc.leaves[1].path(),
	}
}

func v13EnvFor(validate, withState bool, workers int64, buffer int64) *vEnv {
	env := vNewEnv()
	env.ds.config.Sync = &config.Sync{Validate: validate, WriteWorkers: workers, Buffer: buffer}
	if withState {
		env.ds.schemaClient = schemaClient.NewSchemaClientBound(env.ds.config.Schema.GetSchema(), &v13StateSchema{Client: env.schema})
	}
	return env
}

// VerifStoreSyncMsg: one notification with up to ndel deletes (any order; with a
// state leaf in the universe a state path may precede or follow a config path) and
// up to nupd updates, written by storeSyncMsg into an arbitrary mirror.
//
// params: validate (0/1), state (0/1: universe has a state leaf that updates and deletes may name), ndel, nupd.
func VerifStoreSyncMsg() {
	validate := verifrt.Param("validate", 1) == 1
	// without validation the code does not look at the schema: every leaf is
	// mirrored in the CONFIG store and the property says nothing about state leaves
	withState := verifrt.Param("state", 0) == 1 && validate
	sc := v13Scenario()
	env := v13EnvFor(validate, withState, 1, 1)
	m := v13ArbitraryMirror(sc, withState)
	m.install(env)
	verifrt.Reach("mirror-built")

	// param "prev" = 1: an EARLIER notification of the same stream has been stored through the
	// same Datastore before the one under test (whatever the datastore remembers about what it
	// has written already must not change what the next notification does to the mirror)
	if verifrt.Param("prev", 0) == 1 {
		pl := []*vLeaf{sc.leaves[0], sc.leaves[1]}
		if u := verifrt.Choice("prev.upd", len(pl)+1); u > 0 {
			l := pl[u-1]
			v := l.newVal("prevval")
			psem := semaphore.NewWeighted(1)
			_ = psem.Acquire(context.Background(), 1)
			env.ds.storeSyncMsg(context.Background(), &target.SyncUpdate{Update: &sdcpb.Notification{Update: []*sdcpb.Update{{Path: l.path(), Value: l.tv(v)}}}}, psem)
			m.apply(&v13Msg{kind: v13Update, leaf: l, val: v})
			verifrt.Reach("previous-notification-stored")
		}
	}

	var msgs []*v13Msg
	notif := &sdcpb.Notification{}
	dels := v13Deletable(sc)
	if withState {
		// the device may also report the state leaf as deleted
		dels = append(dels, m.state.path())
	}
	// up to `ndel` deletes in one notification, in any order (a state path may come
	// before or after a config path), and up to `nupd` updates
	ndel := verifrt.Param("ndel", 1)
	firstDel := 0
	for k := 0; k < ndel; k++ {
		d := verifrt.Choice("del"+string(rune('0'+k)), len(dels)+1)
		if d == 0 {
			break
		}
		if k > 0 && d == firstDel {
			break // the same path twice adds nothing
		}
		if k == 0 {
			firstDel = d
		}
		p := dels[d-1]
		notif.Delete = append(notif.Delete, p)
		msgs = append(msgs, &v13Msg{kind: v13Delete, del: p, delID: vPathID(p)})
	}
	updatable := []*vLeaf{sc.leaves[0], sc.leaves[1]}
	if withState {
		updatable = append(updatable, m.state)
	}
	nupd := verifrt.Param("nupd", 1)
	firstUpd := 0
	for k := 0; k < nupd; k++ {
		u := verifrt.Choice("upd"+string(rune('0'+k)), len(updatable)+1)
		if u == 0 {
			break
		}
		if k > 0 && u <= firstUpd {
			break // unordered pairs of distinct leaves
		}
		if k == 0 {
			firstUpd = u
		}
		l := updatable[u-1]
		v := l.newVal("updval" + string(rune('0'+k)))
		notif.Update = append(notif.Update, &sdcpb.Update{Path: l.path(), Value: l.tv(v)})
		msgs = append(msgs, &v13Msg{kind: v13Update, leaf: l, val: v})
	}
	// param "bad" = 1: the notification may additionally carry an update the converter rejects
	// (a leaf the schema does not know, or a value that does not fit the leaf's type); the code
	// then drops the WHOLE notification (logged), so nothing of it reaches the mirror
	bad := 0
	if verifrt.Param("bad", 0) == 1 {
		bad = verifrt.Choice("bad", 3)
		switch bad {
		case 1:
			notif.Update = append(notif.Update, &sdcpb.Update{Path: vPath(vPE("interface", "name", "lo1"), vPE("oper-state")), Value: vStrTV("up")})
		case 2:
			notif.Update = append(notif.Update, &sdcpb.Update{Path: vPath(vPE("interface", "name", "lo1"), vPE("mtu")), Value: vStrTV("jumbo")})
		}
	}
	// within a notification deletes are applied before updates (gNMI)
	if bad == 0 {
		for _, mm := range msgs {
			m.apply(mm)
		}
	} else {
		msgs = nil
	}

	ctx := context.Background()
	sem := semaphore.NewWeighted(1)
	_ = sem.Acquire(ctx, 1)
	env.ds.storeSyncMsg(ctx, &target.SyncUpdate{Update: notif}, sem)
	verifrt.Reach("stored")
	verifrt.Assert(sem.TryAcquire(1), "C13-worker-slot-released")

	// sequential call: no concurrency situation applies (workers = 0 disables them)
	m.assertMirror(env, msgs, 0, validate, "C13")
}

// v13Options: what one message on the sync channel may be, given whether a
// re-sync cycle is open (start only outside, end only inside a cycle).
//
// params: dels (0: no deletes, 1: delete of entry lo1, 2: + delete of entry lo10 and of lo1/mtu),
// chunk (1: also one notification carrying both mtu updates).
func v13Options(sc *vScenario, inCycle bool) []*v13Msg {
	var out []*v13Msg
	if inCycle {
		out = append(out, &v13Msg{kind: v13End})
	} else {
		out = append(out, &v13Msg{kind: v13Start})
	}
	out = append(out, &v13Msg{kind: v13Update, leaf: sc.leaves[0]}, &v13Msg{kind: v13Update, leaf: sc.leaves[1]})
	dels := v13Deletable(sc)
	switch verifrt.Param("dels", 1) {
	case 0:
		dels = nil
	case 1:
		dels = dels[:1]
	default:
		dels = dels[:3]
	}
	for _, p := range dels {
		out = append(out, &v13Msg{kind: v13Delete, del: p, delID: vPathID(p)})
	}
	if verifrt.Param("chunk", 0) == 1 {
		out = append(out, &v13Msg{kind: v13Update, leaf: sc.leaves[0], both: true})
	}
	return out
}

func (m *v13Msg) syncUpdate(sc *vScenario) *target.SyncUpdate {
	switch m.kind {
	case v13Start:
		return &target.SyncUpdate{Start: true}
	case v13End:
		return &target.SyncUpdate{End: true}
	case v13Delete:
		return &target.SyncUpdate{Update: &sdcpb.Notification{Delete: []*sdcpb.Path{m.del}}}
	}
	n := &sdcpb.Notification{Update: []*sdcpb.Update{{Path: m.leaf.path(), Value: m.leaf.tv(m.val)}}}
	if m.both {
		n.Update = append(n.Update, &sdcpb.Update{Path: sc.leaves[1].path(), Value: sc.leaves[1].tv(m.val2)})
	}
	return &target.SyncUpdate{Update: n}
}

// VerifSync: the real Datastore.Sync loop with `workers` write workers is fed
// `msgs` messages (start / end / one-update notification / one-delete
// notification, in an arbitrary well-formed order: start only outside, end
// only inside a cycle) over an arbitrary mirror content; once everything has
// been processed the mirror must equal the fold of the messages in the order
// the device sent them.
//
// params: workers (1,2), msgs (2..4), validate (0/1), pre (0: empty mirror,
// 1: arbitrary, 2: both entries present), dels, chunk (see v13Options).
func VerifSync() {
	workers := verifrt.Param("workers", 1)
	n := verifrt.Param("msgs", 3)
	validate := verifrt.Param("validate", 1) == 1
	sc := v13Scenario()
	env := v13EnvFor(validate, false, int64(workers), int64(n))
	env.ds.synCh = make(chan *target.SyncUpdate, n)

	var m *v13Mirror
	switch verifrt.Param("pre", 2) {
	case 0:
		m = v13NewMirror(sc)
	case 1:
		m = v13ArbitraryMirror(sc, false)
	default:
		m = v13NewMirror(sc)
		m.set(sc.leaves[0], sc.leaves[0].newVal("preval.L0"))
		m.set(sc.leaves[1], sc.leaves[1].newVal("preval.L1"))
		m.written = map[string]bool{}
	}
	m.install(env)
	verifrt.Reach("mirror-built")

	// the device's messages
	var msgs []*v13Msg
	for i := 0; i < n; i++ {
		tag := "m" + string(rune('0'+i))
		opts := v13Options(sc, m.inCycle)
		msg := opts[verifrt.Choice(tag, len(opts))]
		if msg.kind == v13Update {
			msg.val = msg.leaf.newVal(tag + ".val")
			if msg.both {
				msg.val2 = sc.leaves[1].newVal(tag + ".val2")
			}
		}
		msgs = append(msgs, msg)
		m.apply(msg)
		if msg.both {
			m.set(sc.leaves[1], msg.val2)
		}
	}

	ctx, cancel := context.WithCancel(context.Background())
	go env.ds.Sync(ctx)
	for _, msg := range msgs {
		env.ds.synCh <- msg.syncUpdate(sc)
	}
	verifrt.AwaitQuiescence()
	verifrt.Reach("processed")
	verifrt.Assert(len(env.ds.synCh) == 0, "C13-all-messages-consumed")
	cancel()
	verifrt.AwaitQuiescence()
	verifrt.Assert(verifrt.Goroutines() == 0, "C13-sync-stops-on-cancel")

	// for the situation analysis a two-update notification touches both leaves
	hist := append([]*v13Msg{}, msgs...)
	for _, msg := range msgs {
		if msg.both {
			hist = append(hist, &v13Msg{kind: v13Update, leaf: sc.leaves[1]})
		}
	}
	msgs = hist
	m.assertMirror(env, msgs, workers, validate, "C13")
}
