//go:build verif

package datastore

// C15 "Deviation reports are exact": Datastore.runDeviationUpdate
// (datastore_rpc.go) over the datastore assembly, INTENDED and CONFIG store
// contents written directly into the model cache, recording deviation clients.

import (
	"context"

	"github.com/sdcio/data-server/pkg/verifrt"
	sdcpb "github.com/sdcio/sdc-protos/sdcpb"
	"google.golang.org/grpc/metadata"
)

// v15Stream is a recording sdcpb.DataServer_WatchDeviationsServer.
type v15Stream struct {
	msgs []*sdcpb.WatchDeviationResponse
}

func (s *v15Stream) Send(m *sdcpb.WatchDeviationResponse) error {
	s.msgs = append(s.msgs, m)
	return nil
}
func (s *v15Stream) SetHeader(metadata.MD) error  { return nil }
func (s *v15Stream) SendHeader(metadata.MD) error { return nil }
func (s *v15Stream) SetTrailer(metadata.MD)       {}
func (s *v15Stream) Context() context.Context     { return context.Background() }
func (s *v15Stream) SendMsg(m any) error          { return nil }
func (s *v15Stream) RecvMsg(m any) error          { return nil }

var _ sdcpb.DataServer_WatchDeviationsServer = (*v15Stream)(nil)

// v15ArbitraryState: intents as in vArbitraryState (one priority per owner,
// pairwise distinct, key leaves with their entries); the running configuration
// is arbitrary: presence and value of every non-key leaf are free, key leaves
// accompany the entries that have a leaf in running.
func v15ArbitraryState(sc *vScenario) *vState {
	st := vNewState(sc)
	for _, o := range sc.owners {
		p := verifrt.Int32("prio" + o)
		verifrt.Assume(verifrt.And(p >= 1, p < 1000))
		st.prio[o] = p
	}
	for i, a := range sc.owners {
		for _, b := range sc.owners[i+1:] {
			verifrt.Assume(st.prio[a] != st.prio[b])
		}
	}
	for _, l := range sc.leaves {
		if l.keyOf != "" {
			continue
		}
		for _, o := range sc.owners {
			if verifrt.Bool("pres." + l.tag + "." + o) {
				st.pres[l.id][o] = true
				v := l.newVal("val." + l.tag + "." + o)
				if l.isUint && verifrt.Param("strform", 0) == 1 {
					// the intended store may hold a number in string form
					v.strForm = verifrt.Bool("strform." + l.tag + "." + o)
				}
				st.val[l.id][o] = v
			}
		}
	}
	st.deriveKeys()
	for _, l := range sc.leaves {
		if l.keyOf != "" {
			continue
		}
		if verifrt.Bool("rpres." + l.tag) {
			st.rpres[l.id] = true
			st.rval[l.id] = l.newVal("rval." + l.tag)
		}
	}
	for _, k := range sc.leaves {
		if k.keyOf == "" {
			continue
		}
		for _, l := range sc.leaves {
			if l.keyOf == "" && l.entry == k.keyOf && st.rpres[l.id] {
				st.rpres[k.id] = true
				st.rval[k.id] = vVal{s: k.keyVal}
			}
		}
	}
	return st
}

func v15Defined(st *vState, l *vLeaf) bool {
	for _, o := range st.sc.owners {
		if st.pres[l.id][o] {
			return true
		}
	}
	return false
}

// v15DiffersFromRuling: o defines l, does not rule it, and its value differs
// from the ruling value. non-forking.
func v15DiffersFromRuling(st *vState, l *vLeaf, o string) bool {
	d := false
	for _, o2 := range st.sc.owners {
		if o2 != o && st.pres[l.id][o2] {
			d = verifrt.Or(d, verifrt.And(st.wins(l, o2), !l.eqVal(st.val[l.id][o2], st.val[l.id][o])))
		}
	}
	return d
}

// v15RulingIs: tv carries the ruling value of l. non-forking.
func v15RulingIs(st *vState, l *vLeaf, tv *sdcpb.TypedValue) bool {
	r := false
	for _, o := range st.sc.owners {
		if st.pres[l.id][o] {
			r = verifrt.Or(r, verifrt.And(st.wins(l, o), l.sameVal(tv, st.val[l.id][o])))
		}
	}
	return r
}

// v15FaultMode: a transient collaborator failure is injected into the cycle (completeness of
// the report is then not demanded, its soundness is)
var v15FaultMode bool

// v15Ideal: the model cache answers the all-intents read with every intent of a path
var v15Ideal bool

type v15Counts struct {
	unhandled  map[string]int            // leaf id
	notApplied map[string]map[string]int // leaf id -> owner
	overruled  map[string]map[string]int
}

// v15AssertCycle: one client's messages are exactly the cycle the property
// prescribes for state st.
func v15AssertCycle(st *vState, msgs []*sdcpb.WatchDeviationResponse) {
	sc := st.sc
	verifrt.Assert(len(msgs) >= 2, "C15-cycle-bracketed-by-start-and-end")
	if len(msgs) < 2 {
		return
	}
	verifrt.Assert(msgs[0].GetEvent() == sdcpb.DeviationEvent_START, "C15-cycle-bracketed-by-start-and-end")
	verifrt.Assert(msgs[len(msgs)-1].GetEvent() == sdcpb.DeviationEvent_END, "C15-cycle-bracketed-by-start-and-end")
	c := &v15Counts{unhandled: map[string]int{}, notApplied: map[string]map[string]int{}, overruled: map[string]map[string]int{}}
	for _, l := range sc.leaves {
		c.notApplied[l.id] = map[string]int{}
		c.overruled[l.id] = map[string]int{}
	}
	for _, m := range msgs {
		verifrt.Assert(m.GetName() == "ds", "C15-message-names-the-datastore")
	}
	// pass 1: which (reason, intent, path) are reported
	updates := msgs[1 : len(msgs)-1]
	leafOf := make([]*vLeaf, len(updates))
	ownerOf := make([]string, len(updates))
	for i, m := range updates {
		verifrt.Assert(m.GetEvent() == sdcpb.DeviationEvent_UPDATE, "C15-only-updates-between-start-and-end")
		if m.GetEvent() != sdcpb.DeviationEvent_UPDATE {
			continue
		}
		pid := vPathID(m.GetPath())
		var l *vLeaf
		for _, x := range sc.leaves {
			if x.id == pid {
				l = x
			}
		}
		if l == nil {
			if v15FaultMode && m.GetPath() == nil && m.GetReason() == sdcpb.DeviationReason_UNHANDLED {
				// (situation: the path conversion failed and the message went out without a path)
				verifrt.Assert(false, "C15-reported-path-exists/unhandled-sent-without-path-after-conversion-failure")
				continue
			}
			verifrt.Assert(false, "C15-reported-path-exists")
			continue
		}
		owner := ""
		for _, o := range sc.owners {
			if o == m.GetIntent() {
				owner = o
			}
		}
		switch m.GetReason() {
		case sdcpb.DeviationReason_UNHANDLED:
			verifrt.Reach("unhandled-reported")
			c.unhandled[l.id]++
			verifrt.Assert(st.rpres[l.id] && !v15Defined(st, l), "C15-unhandled-only-for-running-path-no-intent-defines")
			verifrt.Assert(m.GetIntent() == "", "C15-unhandled-names-no-intent")
		case sdcpb.DeviationReason_NOT_APPLIED:
			verifrt.Reach("not-applied-reported")
			if owner == "" || !st.pres[l.id][owner] {
				verifrt.Assert(false, "C15-not-applied-names-an-intent-defining-the-path")
				continue
			}
			c.notApplied[l.id][owner]++
			if st.rpres[l.id] {
				verifrt.Assert(st.wins(l, owner), "C15-not-applied-names-the-ruling-intent")
				verifrt.Assert(!l.eqVal(st.rval[l.id], st.val[l.id][owner]), "C15-not-applied-only-when-running-value-differs")
			} else {
				// the path is missing in the running configuration
				if st.wins(l, owner) { // forks: names the situation
					verifrt.Reach("not-applied-missing-path-ruling-intent")
				} else {
					verifrt.Assert(false, "C15-not-applied-names-the-ruling-intent/path-missing-in-running")
				}
			}
		case sdcpb.DeviationReason_OVERRULED:
			verifrt.Reach("overruled-reported")
			if owner == "" || !st.pres[l.id][owner] {
				verifrt.Assert(false, "C15-overruled-names-an-intent-defining-the-path")
				continue
			}
			c.overruled[l.id][owner]++
			verifrt.Assert(v15DiffersFromRuling(st, l, owner), "C15-overruled-only-for-lower-precedence-intent-with-different-value")
		default:
			verifrt.Assert(false, "C15-update-has-a-reason")
			continue
		}
		leafOf[i], ownerOf[i] = l, owner
	}
	// every deviation is reported, once
	for _, l := range sc.leaves {
		verifrt.Assert(c.unhandled[l.id] <= 1, "C15-reported-once")
		if v15FaultMode {
			// a collaborator failed once during the cycle: the code skips the path it was
			// working on, so a deviation may go unreported in THIS cycle; what must still hold
			// is that nothing is reported that does not deviate (checked above) and nothing twice
			for _, o := range sc.owners {
				verifrt.Assert(c.notApplied[l.id][o] <= 1, "C15-reported-once")
				verifrt.Assert(c.overruled[l.id][o] <= 1, "C15-reported-once")
			}
			continue
		}
		if st.rpres[l.id] && !v15Defined(st, l) {
			verifrt.Assert(c.unhandled[l.id] == 1, "C15-every-deviation-reported/unhandled")
		}
		for _, o := range sc.owners {
			if !st.pres[l.id][o] {
				continue
			}
			verifrt.Assert(c.notApplied[l.id][o] <= 1, "C15-reported-once")
			verifrt.Assert(c.overruled[l.id][o] <= 1, "C15-reported-once")
			if c.notApplied[l.id][o] == 0 {
				dev := st.wins(l, o)
				if st.rpres[l.id] {
					dev = verifrt.And(dev, !l.eqVal(st.rval[l.id], st.val[l.id][o]))
				}
				verifrt.Assert(!dev, "C15-every-deviation-reported/not-applied")
			}
			if c.overruled[l.id][o] == 0 {
				if v15DiffersFromRuling(st, l, o) { // forks: names the situation
					verifrt.Reach("overruled-expected")
					if v15Ideal && st.rpres[l.id] {
						// the cache hands all intents of the path to the cycle and the path is in
						// running: this is the situation the OVERRULED branch is written for
						verifrt.Assert(false, "C15-every-deviation-reported/overruled")
					} else {
						verifrt.Assert(false, "C15-every-deviation-reported/overruled-intent-never-reported")
					}
				}
			}
		}
	}
	// pass 2: the values of the reported deviations
	for i, m := range updates {
		l, owner := leafOf[i], ownerOf[i]
		if l == nil {
			continue
		}
		switch m.GetReason() {
		case sdcpb.DeviationReason_UNHANDLED:
			if st.rpres[l.id] {
				verifrt.Assert(m.GetCurrentValue() != nil && l.sameVal(m.GetCurrentValue(), st.rval[l.id]), "C15-unhandled-current-value-is-running-value")
			}
			verifrt.Assert(m.GetExpectedValue() == nil, "C15-unhandled-has-no-expected-value")
		case sdcpb.DeviationReason_NOT_APPLIED:
			if st.rpres[l.id] {
				verifrt.Assert(m.GetExpectedValue() != nil && l.sameVal(m.GetExpectedValue(), st.val[l.id][owner]), "C15-not-applied-expected-value-is-intent-value")
				verifrt.Assert(m.GetCurrentValue() != nil && l.sameVal(m.GetCurrentValue(), st.rval[l.id]), "C15-not-applied-current-value-is-running-value")
			} else {
				if m.GetExpectedValue() == nil {
					verifrt.Assert(false, "C15-not-applied-expected-value-is-intent-value/path-missing-in-running")
				} else {
					verifrt.Assert(l.sameVal(m.GetExpectedValue(), st.val[l.id][owner]), "C15-not-applied-expected-value-is-intent-value")
				}
				verifrt.Assert(m.GetCurrentValue() == nil, "C15-not-applied-no-current-value-for-missing-path")
			}
		case sdcpb.DeviationReason_OVERRULED:
			verifrt.Assert(m.GetExpectedValue() != nil && l.sameVal(m.GetExpectedValue(), st.val[l.id][owner]), "C15-overruled-expected-value-is-intent-value")
			verifrt.Assert(m.GetCurrentValue() != nil && v15RulingIs(st, l, m.GetCurrentValue()), "C15-overruled-current-value-is-ruling-value")
		}
	}
}

// VerifDeviations: one deviation cycle from arbitrary INTENDED and CONFIG
// store contents; 1 or 2 watching clients (param "clients").
func VerifDeviations() {
	sc := vPickScenario()
	env := vNewEnv()
	st := v15ArbitraryState(sc)
	st.install(env)
	// param "ideal" = 1: the cache answers the all-intents read with the entries of all intents
	// (the contract runDeviationUpdate is written against); 0: sdcio/cache v0.0.35 as observed
	env.model.IdealReads = verifrt.Param("ideal", 0) == 1
	v15Ideal = env.model.IdealReads
	v15FaultMode = false
	if verifrt.Param("fault", 0) == 1 {
		// the k-th schema request of the cycle fails once (transient: the schema client does
		// not cache errors)
		v15FaultMode = true
		env.schema.FailAt = env.schema.Calls + 1 + verifrt.Choice("fault.schemaCall", verifrt.Param("maxSchemaCalls", 6))
	}
	n := verifrt.Param("clients", 1)
	dm := map[string]sdcpb.DataServer_WatchDeviationsServer{}
	var streams []*v15Stream
	for i := 0; i < n; i++ {
		s := &v15Stream{}
		streams = append(streams, s)
		dm["peer"+string(rune('0'+i))] = s
	}
	verifrt.Reach("state-built")
	env.ds.runDeviationUpdate(context.Background(), dm)
	verifrt.Reach("cycle-done")
	for _, s := range streams {
		v15AssertCycle(st, s.msgs)
	}
}
