//go:build verif

package datastore

// C10: all southbound encodings describe the same change. One TransactionSet
// through the real pipeline; the target stub renders the SAME source as proto,
// JSON, JSON_IETF and XML (8 option combinations) and every rendering is
// normalised to (set of (instance path, value string), set of deleted subtrees).

import (
	"context"
	"errors"
	"sort"
	"strconv"
	"strings"

	"github.com/beevik/etree"
	"github.com/sdcio/data-server/pkg/config"
	"github.com/sdcio/data-server/pkg/datastore/target"
	"github.com/sdcio/data-server/pkg/utils"
	"github.com/sdcio/data-server/pkg/verifrt"
	"github.com/sdcio/data-server/pkg/verifschema"
	sdcpb "github.com/sdcio/sdc-protos/sdcpb"
)

// v10pNorm is the denotation of one rendering.
type v10pNorm struct {
	upd map[string]string // canonical instance path of a non-key leaf -> value as string
	del map[string]bool   // canonical path of a deleted subtree
	dup bool              // a leaf was written twice
	bad []string          // things the normaliser could not interpret
	xml *v10pXmlFacts
}

func v10pNewNorm() *v10pNorm {
	return &v10pNorm{upd: map[string]string{}, del: map[string]bool{}}
}

func (n *v10pNorm) setUpd(id, val string) {
	if _, ok := n.upd[id]; ok {
		n.dup = true
	}
	n.upd[id] = val
}

// v10pXmlFacts: structural facts about one XML document.
type v10pXmlFacts struct {
	unnamed              bool     // an element without a name
	keysMissing          bool     // a list entry element lacks a key element
	keysNotFirst         bool     // keys are not the first children in key-statement order ...
	keysPermuted         bool     // ... two keys appear in another relative order than in the key statement
	keysAfterOther       bool     // ... a non-key child precedes a key
	entryIDs             []string // canonical id of every list entry element
	opBadSpelling        bool     // deletion not spelled delete / remove as configured
	opBadPrefix          bool     // nc: prefix present without / absent with operationWithNamespace
	opOther              []string // operation values other than delete/remove
	nsWrong              bool     // an element resolves to another namespace than its schema node's
	nsWrongOnDeletedLeaf bool     // ... and it is a leaf element carrying the delete operation
}

// v10pTarget renders every encoding of the same source.
type v10pTarget struct {
	sets     int
	proto    []*v10pNorm
	json     []*v10pNorm
	jsonIetf []*v10pNorm
	xml      [][]*v10pNorm // per Set call: 8 option combinations (bit0 honorNamespace, bit1 operationWithNamespace, bit2 useOperationRemove)
	err      error
}

func (t *v10pTarget) Get(ctx context.Context, req *sdcpb.GetDataRequest) (*sdcpb.GetDataResponse, error) {
	return nil, errors.New("not modelled")
}
func (t *v10pTarget) Sync(ctx context.Context, syncConfig *config.Sync, syncCh chan *target.SyncUpdate) {
}
func (t *v10pTarget) Status() *target.TargetStatus {
	return target.NewTargetStatus(target.TargetStatusConnected)
}
func (t *v10pTarget) Close() error { return nil }

func (t *v10pTarget) Set(ctx context.Context, source target.TargetSource) (*sdcpb.SetDataResponse, error) {
	t.sets++
	upds, err := source.ToProtoUpdates(ctx, true)
	if err != nil {
		t.err = err
		return &sdcpb.SetDataResponse{}, nil
	}
	dels, err := source.ToProtoDeletes(ctx)
	if err != nil {
		t.err = err
		return &sdcpb.SetDataResponse{}, nil
	}
	t.proto = append(t.proto, v10pNormProto(upds, dels))
	j, err := source.ToJson(true)
	if err != nil {
		t.err = err
		return &sdcpb.SetDataResponse{}, nil
	}
	t.json = append(t.json, v10pNormJson(j))
	ji, err := source.ToJsonIETF(true)
	if err != nil {
		t.err = err
		return &sdcpb.SetDataResponse{}, nil
	}
	t.jsonIetf = append(t.jsonIetf, v10pNormJson(ji))
	var docs []*v10pNorm
	for i := 0; i < 8; i++ {
		doc, err := source.ToXML(true, i&1 != 0, i&2 != 0, i&4 != 0)
		if err != nil {
			t.err = err
			return &sdcpb.SetDataResponse{}, nil
		}
		docs = append(docs, v10pNormXml(doc, i&1 != 0, i&2 != 0, i&4 != 0))
		if i == 0 && verifrt.Param("debug", 0) == 1 && !verifrt.Symbolic() {
			doc.Indent(1)
			x, _ := doc.WriteToString()
			ds := []string{}
			for _, d := range dels {
				ds = append(ds, vPathID(d))
			}
			verifrt.Observe("debug-xml", x)
			verifrt.Observe("debug-proto-deletes", strings.Join(ds, " ; "))
		}
	}
	t.xml = append(t.xml, docs)
	return &sdcpb.SetDataResponse{}, nil
}

// ---- schema helpers (concrete)

func v10pSchema(names []string) *sdcpb.SchemaElem {
	rsp := verifschema.Lookup(strings.Join(names, "/"))
	if rsp == nil {
		return nil
	}
	return rsp.GetSchema()
}

func v10pKeyNames(se *sdcpb.SchemaElem) []string {
	var out []string
	for _, k := range se.GetContainer().GetKeys() {
		out = append(out, k.GetName())
	}
	return out
}

func v10pIsKeyLeafPath(p *sdcpb.Path) bool {
	n := len(p.GetElem())
	if n < 2 {
		return false
	}
	_, ok := p.GetElem()[n-2].GetKey()[p.GetElem()[n-1].GetName()]
	return ok
}

func v10pStripModule(name string) string {
	if i := strings.IndexByte(name, ':'); i >= 0 {
		return name[i+1:]
	}
	return name
}

// ---- proto

func v10pNormProto(upds []*sdcpb.Update, dels []*sdcpb.Path) *v10pNorm {
	n := v10pNewNorm()
	for _, u := range upds {
		if v10pIsKeyLeafPath(u.GetPath()) {
			// a key leaf's value is part of the instance path of its entry
			continue
		}
		n.setUpd(vPathID(u.GetPath()), utils.TypedValueToString(u.GetValue()))
	}
	for _, d := range dels {
		n.del[vPathID(d)] = true
	}
	return n
}

// ---- JSON / JSON_IETF

func v10pJsonScalar(v any) (string, bool) {
	switch x := v.(type) {
	case string:
		return x, true
	case bool:
		return strconv.FormatBool(x), true
	case uint64:
		return strconv.FormatUint(x, 10), true
	case int64:
		return strconv.FormatInt(x, 10), true
	case uint32:
		return strconv.FormatUint(uint64(x), 10), true
	case int32:
		return strconv.FormatInt(int64(x), 10), true
	case int:
		return strconv.Itoa(x), true
	}
	return "", false
}

func v10pNormJson(j any) *v10pNorm {
	n := v10pNewNorm()
	if j == nil {
		return n
	}
	m, ok := j.(map[string]any)
	if !ok {
		n.bad = append(n.bad, "top level is not an object")
		return n
	}
	v10pWalkJsonObj(n, m, nil, nil, nil)
	return n
}

func v10pSortedKeys(m map[string]any) []string {
	ks := make([]string, 0, len(m))
	for k := range m {
		ks = append(ks, k)
	}
	sort.Strings(ks)
	return ks
}

// v10pWalkJsonObj walks the members of a container / list entry object; skip = key names of the entry.
func v10pWalkJsonObj(n *v10pNorm, m map[string]any, names []string, elems []*sdcpb.PathElem, skip []string) {
	for _, k := range v10pSortedKeys(m) {
		v := m[k]
		name := v10pStripModule(k)
		isKey := false
		for _, s := range skip {
			if s == name {
				isKey = true
			}
		}
		if isKey {
			continue
		}
		cn := append(append([]string{}, names...), name)
		se := v10pSchema(cn)
		if se == nil {
			n.bad = append(n.bad, "no schema for "+strings.Join(cn, "/"))
			continue
		}
		switch {
		case se.GetField() != nil:
			s, ok := v10pJsonScalar(v)
			if !ok {
				n.bad = append(n.bad, "value kind of "+strings.Join(cn, "/"))
				continue
			}
			n.setUpd(vPathID(&sdcpb.Path{Elem: append(append([]*sdcpb.PathElem{}, elems...), vPE(name))}), s)
		case se.GetLeaflist() != nil:
			arr, _ := v.([]any)
			parts := []string{}
			for _, e := range arr {
				s, _ := v10pJsonScalar(e)
				parts = append(parts, s)
			}
			n.setUpd(vPathID(&sdcpb.Path{Elem: append(append([]*sdcpb.PathElem{}, elems...), vPE(name))}), strings.Join(parts, ","))
		case len(se.GetContainer().GetKeys()) > 0:
			arr, ok := v.([]any)
			if !ok {
				n.bad = append(n.bad, "list is not an array: "+strings.Join(cn, "/"))
				continue
			}
			keys := v10pKeyNames(se)
			for _, e := range arr {
				em, ok := e.(map[string]any)
				if !ok {
					n.bad = append(n.bad, "list entry is not an object: "+strings.Join(cn, "/"))
					continue
				}
				pe := &sdcpb.PathElem{Name: name, Key: map[string]string{}}
				for _, kn := range keys {
					found := false
					for mk, mv := range em {
						if v10pStripModule(mk) == kn {
							s, _ := v10pJsonScalar(mv)
							pe.Key[kn] = s
							found = true
						}
					}
					if !found {
						n.bad = append(n.bad, "list entry without key "+kn+": "+strings.Join(cn, "/"))
					}
				}
				v10pWalkJsonObj(n, em, cn, append(append([]*sdcpb.PathElem{}, elems...), pe), keys)
			}
		default:
			cm, ok := v.(map[string]any)
			if !ok {
				n.bad = append(n.bad, "container is not an object: "+strings.Join(cn, "/"))
				continue
			}
			ce := append(append([]*sdcpb.PathElem{}, elems...), vPE(name))
			if len(cm) == 0 {
				// presence container
				n.setUpd(vPathID(&sdcpb.Path{Elem: ce}), "{}")
				continue
			}
			v10pWalkJsonObj(n, cm, cn, ce, nil)
		}
	}
}

// ---- XML

const v10pNcSpace = "nc"

// v10pOperation: the operation attribute of el ("" = none).
func v10pOperation(el *etree.Element) (val, space string) {
	for _, a := range el.Attr {
		if a.Key == "operation" {
			return a.Value, a.Space
		}
	}
	return "", ""
}

func v10pOwnNs(el *etree.Element, inherited string) string {
	for _, a := range el.Attr {
		if a.Space == "" && a.Key == "xmlns" {
			return a.Value
		}
	}
	return inherited
}

func v10pNormXml(doc *etree.Document, honorNs, opWithNs, useRemove bool) *v10pNorm {
	n := v10pNewNorm()
	n.xml = &v10pXmlFacts{}
	if doc == nil {
		return n
	}
	v10pWalkXml(n, doc.ChildElements(), nil, nil, nil, "", honorNs, opWithNs, useRemove)
	return n
}

// v10pIsDelete checks the operation of el; true if el is marked as a deletion.
func v10pIsDelete(n *v10pNorm, el *etree.Element, opWithNs, useRemove bool) bool {
	op, space := v10pOperation(el)
	if op == "" {
		return false
	}
	if op != "delete" && op != "remove" {
		n.xml.opOther = append(n.xml.opOther, op)
		return false
	}
	want := "delete"
	if useRemove {
		want = "remove"
	}
	if op != want {
		n.xml.opBadSpelling = true
	}
	if (space == v10pNcSpace) != opWithNs {
		n.xml.opBadPrefix = true
	}
	return true
}

// v10pWalkXml walks sibling elements that are children of the node at names/elems; skip = key names.
func v10pWalkXml(n *v10pNorm, els []*etree.Element, names []string, elems []*sdcpb.PathElem, skip []string, ns string, honorNs, opWithNs, useRemove bool) {
	for _, el := range els {
		if el.Tag == "" {
			n.xml.unnamed = true
			continue
		}
		name := el.Tag
		cn := append(append([]string{}, names...), name)
		se := v10pSchema(cn)
		if se == nil {
			n.bad = append(n.bad, "no schema for "+strings.Join(cn, "/"))
			continue
		}
		elNs := v10pOwnNs(el, ns)
		isDel := v10pIsDelete(n, el, opWithNs, useRemove)
		if honorNs && elNs != utils.GetNamespaceFromGetSchema(se) {
			if isDel && (se.GetField() != nil || se.GetLeaflist() != nil) {
				n.xml.nsWrongOnDeletedLeaf = true
			} else {
				n.xml.nsWrong = true
			}
		}
		isKey := false
		for _, s := range skip {
			if s == name {
				isKey = true
			}
		}
		if isKey {
			continue
		}
		switch {
		case se.GetField() != nil || se.GetLeaflist() != nil:
			id := vPathID(&sdcpb.Path{Elem: append(append([]*sdcpb.PathElem{}, elems...), vPE(name))})
			if isDel {
				n.del[id] = true
			} else if se.GetLeaflist() != nil {
				if old, ok := n.upd[id]; ok {
					n.upd[id] = old + "," + el.Text()
				} else {
					n.upd[id] = el.Text()
				}
			} else {
				n.setUpd(id, el.Text())
			}
		case len(se.GetContainer().GetKeys()) > 0:
			keys := v10pKeyNames(se)
			childs := el.ChildElements()
			pe := &sdcpb.PathElem{Name: name, Key: map[string]string{}}
			pos := make([]int, len(keys))
			for i, kn := range keys {
				pos[i] = -1
				for ci, c := range childs {
					if c.Tag == kn && pos[i] < 0 {
						pos[i] = ci
						pe.Key[kn] = c.Text()
					}
				}
			}
			missing, first, within := false, true, true
			for i := range keys {
				if pos[i] < 0 {
					missing = true
				}
				if pos[i] != i {
					first = false
				}
				if pos[i] >= len(keys) {
					within = false
				}
			}
			switch {
			case missing:
				n.xml.keysMissing = true
			case !first:
				n.xml.keysNotFirst = true
				if !within {
					n.xml.keysAfterOther = true
				}
				for i := 0; i+1 < len(keys); i++ {
					if pos[i] > pos[i+1] {
						n.xml.keysPermuted = true
					}
				}
			}
			ce := append(append([]*sdcpb.PathElem{}, elems...), pe)
			id := vPathID(&sdcpb.Path{Elem: ce})
			n.xml.entryIDs = append(n.xml.entryIDs, id)
			if isDel {
				n.del[id] = true
				continue
			}
			v10pWalkXml(n, childs, cn, ce, keys, elNs, honorNs, opWithNs, useRemove)
		default:
			ce := append(append([]*sdcpb.PathElem{}, elems...), vPE(name))
			if isDel {
				n.del[vPathID(&sdcpb.Path{Elem: ce})] = true
				continue
			}
			childs := el.ChildElements()
			if len(childs) == 0 {
				n.setUpd(vPathID(&sdcpb.Path{Elem: ce}), "{}")
				continue
			}
			v10pWalkXml(n, childs, cn, ce, nil, elNs, honorNs, opWithNs, useRemove)
		}
	}
}

// ---- scenarios

func v10pDkLeaf(k1, k2 string, rest ...string) *vLeaf {
	entry := "doublekey[key1=" + k1 + "][key2=" + k2 + "]"
	l := &vLeaf{id: entry, entry: entry, strs: []string{"doublekey", k1, k2}}
	l.elems = []*sdcpb.PathElem{vPE("doublekey", "key1", k1, "key2", k2)}
	for _, r := range rest {
		l.id += "/" + r
		l.elems = append(l.elems, vPE(r))
		l.strs = append(l.strs, r)
	}
	return l
}

func v10pDkKeyLeaf(k1, k2, key, val string) *vLeaf {
	l := v10pDkLeaf(k1, k2, key)
	l.keyOf = l.entry
	l.keyVal = val
	return l
}

func v10pPickScenario() *vScenario {
	var sc *vScenario
	switch verifrt.Param("scenario", 3) {
	case 10:
		// one doublekey entry with its mandatory leaf
		sc = &vScenario{leaves: []*vLeaf{
			v10pDkLeaf("x1", "y2", "mandato"),
			v10pDkKeyLeaf("x1", "y2", "key1", "x1"),
			v10pDkKeyLeaf("x1", "y2", "key2", "y2"),
		}, owners: []string{"A", "B"}}
	case 11:
		// ... and a leaf in a container below the entry
		sc = &vScenario{leaves: []*vLeaf{
			v10pDkLeaf("x1", "y2", "mandato"),
			v10pDkLeaf("x1", "y2", "cont", "value1"),
			v10pDkKeyLeaf("x1", "y2", "key1", "x1"),
			v10pDkKeyLeaf("x1", "y2", "key2", "y2"),
		}, owners: []string{"A", "B"}}
	case 12:
		// a top-level leaf (uint32, range "10..300 | 5000..5020 | 9999"; requests with other values are rejected)
		sc = &vScenario{leaves: []*vLeaf{vRangeLeaf()}, owners: []string{"A", "B"}}
	case 13:
		// ... next to a list entry, so that the leaf can be deleted while other configuration remains
		sc = &vScenario{leaves: []*vLeaf{vRangeLeaf(), vIfLeaf("lo1", "mtu", true), vIfKeyLeaf("lo1")}, owners: []string{"A", "B"}}
	case 15:
		// as 11 with a single owner: dropping cont/value1 while the entry stays deletes the whole
		// container "cont" (a delete on a non-list container element)
		sc = &vScenario{leaves: []*vLeaf{
			v10pDkLeaf("x1", "y2", "mandato"),
			v10pDkLeaf("x1", "y2", "cont", "value1"),
			v10pDkKeyLeaf("x1", "y2", "key1", "x1"),
			v10pDkKeyLeaf("x1", "y2", "key2", "y2"),
		}, owners: []string{"A"}}
	case 16:
		// a NESTED list with two entries (interface lo1, subinterfaces 0 and 1), single owner: one
		// entry changes while its sibling stays as it is
		sub := func(idx, leaf string) *vLeaf {
			entry := "interface[name=lo1]/subinterface[index=" + idx + "]"
			return &vLeaf{id: entry + "/" + leaf, entry: entry,
				elems: []*sdcpb.PathElem{vPE("interface", "name", "lo1"), vPE("subinterface", "index", idx), vPE(leaf)},
				strs:  []string{"interface", "lo1", "subinterface", idx, leaf}}
		}
		subKey := func(idx string) *vLeaf {
			l := sub(idx, "index")
			l.keyOf, l.keyVal, l.keyUint = l.entry, idx, true
			return l
		}
		sc = &vScenario{leaves: []*vLeaf{sub("0", "description"), sub("1", "description"), subKey("0"), subKey("1"), vIfKeyLeaf("lo1")}, owners: []string{"A"}}
	case 17:
		// FOUR doublekey entries, two first-key values with two entries each, single owner: the
		// renderers that enumerate list entries level by level (FilterChilds) see more than one
		// node per key level
		// (the second entry of each first-key value accompanies the first one with a fixed value,
		// which keeps the universe at two free entries)
		var ls []*vLeaf
		for _, k1 := range []string{"x1", "z1"} {
			first := v10pDkLeaf(k1, "y2", "mandato")
			second := v10pDkLeaf(k1, "y3", "mandato")
			second.tiedTo = first.id
			second.enum = []string{"c"}
			ls = append(ls, first, second)
		}
		for _, k1 := range []string{"x1", "z1"} {
			for _, k2 := range []string{"y2", "y3"} {
				ls = append(ls, v10pDkKeyLeaf(k1, k2, "key1", k1), v10pDkKeyLeaf(k1, k2, "key2", k2))
			}
		}
		sc = &vScenario{leaves: ls, owners: []string{"A"}}
	case 14:
		// as 13 with a single owner
		sc = &vScenario{leaves: []*vLeaf{vRangeLeaf(), vIfLeaf("lo1", "mtu", true), vIfKeyLeaf("lo1")}, owners: []string{"A"}}
	default:
		return vPickScenario()
	}
	for i, l := range sc.leaves {
		l.tag = "L" + string(rune('0'+i))
		if i >= 10 {
			l.tag = "M" + string(rune('0'+i-10))
		}
	}
	return sc
}

// ---- comparison

func v10pAssertSameUpdates(ref, got *v10pNorm, label string) {
	verifrt.Assert(len(got.bad) == 0, label+"-interpretable")
	verifrt.Assert(!got.dup, label+"-writes-each-leaf-once")
	for id, v := range ref.upd {
		w, ok := got.upd[id]
		verifrt.Assert(ok, label+"-has-every-proto-update")
		if ok {
			verifrt.Assert(v == w, label+"-same-value-as-proto")
		}
	}
	for id := range got.upd {
		_, ok := ref.upd[id]
		verifrt.Assert(ok, label+"-writes-nothing-but-the-proto-updates")
	}
}

func v10pAssertSameDeletes(ref, got *v10pNorm, label string, whole, leftUnmanaged bool) {
	for id := range ref.del {
		if whole && !got.del[id] {
			verifrt.Assert(false, label+"-has-every-proto-delete/whole-configuration-deleted")
		}
		if leftUnmanaged && !got.del[id] {
			verifrt.Assert(false, label+"-has-every-proto-delete/entry-left-with-unmanaged-leaf")
		}
		verifrt.Assert(got.del[id], label+"-has-every-proto-delete")
	}
	for id := range got.del {
		verifrt.Assert(ref.del[id], label+"-deletes-nothing-but-the-proto-deletes")
	}
}

// VerifEncodingsAgree: C10 on the payload of one successful transaction.
func VerifEncodingsAgree() {
	sc := v10pPickScenario()
	env := vNewEnv()
	tgt := &v10pTarget{}
	env.ds.sbi = tgt
	pre := vArbitraryState(sc)
	pre.install(env)
	req := vArbitraryRequest(pre, "req.", verifrt.Choice("req.owner", len(sc.owners)))
	verifrt.Reach("state-built")
	rsp, err := vStep(env, sc, "t1", []*vRequest{req}, false)
	if err != nil || vHasErrors(rsp) {
		return
	}
	verifrt.Reach("step-done")
	verifrt.Assert(tgt.err == nil, "C10-every-encoding-renders")
	if tgt.err != nil || tgt.sets == 0 {
		return
	}
	verifrt.Reach("rendered")
	entries := map[string]bool{}
	for _, l := range sc.leaves {
		if l.entry != "" {
			entries[l.entry] = true
		}
	}
	// situation: the transaction removes everything the running configuration holds
	post := pre.apply([]*vRequest{req})
	whole := req.del && !req.orphan
	for _, l := range sc.leaves {
		managed := false
		for _, o := range sc.owners {
			if post.pres[l.id][o] {
				whole = false
			}
			if pre.pres[l.id][o] {
				managed = true
			}
		}
		if pre.rpres[l.id] && !managed {
			whole = false
		}
	}
	// situation: the request removes every intent-defined leaf of a list entry in which the
	// running configuration holds a further leaf that no intent defines
	leftUnmanaged := false
	if !req.orphan {
		for e := range entries {
			hadDefiner, hasDefiner, unmanaged := false, false, false
			for _, l := range sc.leaves {
				if !vIsPrefix(e, l.entry) || l.keyOf != "" {
					// (leaves of nested entries are leaves below e as well)
					continue
				}
				managed := false
				for _, o := range sc.owners {
					if pre.pres[l.id][o] {
						hadDefiner, managed = true, true
					}
					if post.pres[l.id][o] {
						hasDefiner = true
					}
				}
				if pre.rpres[l.id] && !managed {
					unmanaged = true
				}
			}
			if hadDefiner && !hasDefiner && unmanaged {
				leftUnmanaged = true
			}
		}
	}
	for s := 0; s < tgt.sets; s++ {
		ref := tgt.proto[s]
		if len(ref.upd) > 0 {
			verifrt.Reach("has-updates")
		}
		if len(ref.del) > 0 {
			verifrt.Reach("has-deletes")
		}
		// JSON bodies carry the updates only (the gNMI target sends the proto deletes next to them)
		v10pAssertSameUpdates(ref, tgt.json[s], "C10-sem-json")
		v10pAssertSameUpdates(ref, tgt.jsonIetf[s], "C10-sem-json-ietf")
		for i, x := range tgt.xml[s] {
			honorNs := i&1 != 0
			f := x.xml
			if whole && f.unnamed {
				// the root entry itself is rendered as an element to delete
				verifrt.Assert(false, "C10-form-xml-every-element-has-a-name/whole-configuration-deleted")
			}
			verifrt.Assert(!f.unnamed, "C10-form-xml-every-element-has-a-name")
			verifrt.Assert(!f.keysMissing, "C10-form-xml-list-entry-carries-all-keys")
			switch {
			case f.keysPermuted:
				verifrt.Assert(false, "C10-form-xml-list-entry-keys-first-in-key-statement-order/keys-in-another-order")
			case f.keysAfterOther:
				verifrt.Assert(false, "C10-form-xml-list-entry-keys-first-in-key-statement-order/keys-after-other-children")
			default:
				verifrt.Assert(!f.keysNotFirst, "C10-form-xml-list-entry-keys-first-in-key-statement-order")
			}
			for _, id := range f.entryIDs {
				if leftUnmanaged && !entries[id] {
					verifrt.Assert(false, "C10-form-xml-list-entry-key-values/entry-left-with-unmanaged-leaf")
				}
				if !entries[id] {
					verifrt.Observe("xml-entry-id-unknown", id)
				}
				verifrt.Assert(entries[id], "C10-form-xml-list-entry-key-values")
			}
			verifrt.Assert(!f.opBadSpelling, "C10-form-xml-deletion-spelled-as-configured")
			verifrt.Assert(!f.opBadPrefix, "C10-form-xml-operation-nc-prefix-iff-operationWithNamespace")
			verifrt.Assert(len(f.opOther) == 0, "C10-form-xml-no-other-operation")
			if honorNs {
				if f.nsWrongOnDeletedLeaf {
					verifrt.Assert(false, "C10-form-xml-element-in-namespace-of-its-schema-node/deleted-leaf-element")
				}
				verifrt.Assert(!f.nsWrong, "C10-form-xml-element-in-namespace-of-its-schema-node")
			}
			v10pAssertSameUpdates(ref, x, "C10-sem-xml")
			v10pAssertSameDeletes(ref, x, "C10-sem-xml", whole, leftUnmanaged)
		}
	}
}
