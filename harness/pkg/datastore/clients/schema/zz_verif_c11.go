//go:build verif

package schemaClient

import (
	"context"
	"fmt"
	"strings"

	sdcpb "github.com/sdcio/sdc-protos/sdcpb"
	"google.golang.org/grpc"

	"github.com/sdcio/data-server/pkg/schema"
	"github.com/sdcio/data-server/pkg/utils"
	"github.com/sdcio/data-server/pkg/verifrt"
)

// C11 - element sequence -> cache index sequence (utils.ToStrings) -> element
// sequence (SchemaClientBoundImpl.ToPath, the real code) is the identity.
//
// Harness schema, answered by vc11SchemaStub the way the schema server does
// (ContainerSchema.Keys in key-STATEMENT order):
//
//   container c
//   list l { key "k";   leaf k; leaf c; list m }
//   list m { key "c a"; leaf c; leaf a }          <- keys not declared alphabetically

const vc11Alphabet = "ac/_:=[] "

type vc11SchemaStub struct {
	schema.Client // every other method: nil interface, never called
}

func vc11Leaf(name string) *sdcpb.LeafSchema {
	return &sdcpb.LeafSchema{Name: name, Type: &sdcpb.SchemaLeafType{Type: "string"}}
}

func (s *vc11SchemaStub) GetSchema(ctx context.Context, in *sdcpb.GetSchemaRequest, opts ...grpc.CallOption) (*sdcpb.GetSchemaResponse, error) {
	names := make([]string, 0, len(in.GetPath().GetElem()))
	for _, pe := range in.GetPath().GetElem() {
		names = append(names, pe.GetName())
	}
	cont := func(c *sdcpb.ContainerSchema) (*sdcpb.GetSchemaResponse, error) {
		return &sdcpb.GetSchemaResponse{Schema: &sdcpb.SchemaElem{Schema: &sdcpb.SchemaElem_Container{Container: c}}}, nil
	}
	field := func(n string) (*sdcpb.GetSchemaResponse, error) {
		return &sdcpb.GetSchemaResponse{Schema: &sdcpb.SchemaElem{Schema: &sdcpb.SchemaElem_Field{Field: vc11Leaf(n)}}}, nil
	}
	switch strings.Join(names, "/") {
	case "c":
		return cont(&sdcpb.ContainerSchema{Name: "c"})
	case "l":
		return cont(&sdcpb.ContainerSchema{Name: "l", Keys: []*sdcpb.LeafSchema{vc11Leaf("k")}, Children: []string{"m"}, Fields: []*sdcpb.LeafSchema{vc11Leaf("c")}})
	case "m", "l/m":
		return cont(&sdcpb.ContainerSchema{Name: "m", Keys: []*sdcpb.LeafSchema{vc11Leaf("c"), vc11Leaf("a")}})
	case "l/c", "m/c", "l/m/c":
		return field("c")
	case "l/k":
		return field("k")
	case "m/a", "l/m/a":
		return field("a")
	}
	return nil, fmt.Errorf("no schema for %v", names)
}

func vc11Val(name string) string {
	v := verifrt.String(name, verifrt.Param("valLen", 2), vc11Alphabet)
	verifrt.Assume(len(v) > 0)
	return v
}

// shapes: 0 /l[k]  1 /l[k]/c  2 /m[c][a]  3 /m[c][a]/a  4 /l[k]/m[c][a]  5 /c
func vc11Path(shape int) *sdcpb.Path {
	l := func() *sdcpb.PathElem {
		return &sdcpb.PathElem{Name: "l", Key: map[string]string{"k": vc11Val("lk")}}
	}
	m := func() *sdcpb.PathElem {
		return &sdcpb.PathElem{Name: "m", Key: map[string]string{"c": vc11Val("mc"), "a": vc11Val("ma")}}
	}
	switch shape {
	case 0:
		return &sdcpb.Path{Elem: []*sdcpb.PathElem{l()}}
	case 1:
		return &sdcpb.Path{Elem: []*sdcpb.PathElem{l(), {Name: "c"}}}
	case 2:
		return &sdcpb.Path{Elem: []*sdcpb.PathElem{m()}}
	case 3:
		return &sdcpb.Path{Elem: []*sdcpb.PathElem{m(), {Name: "a"}}}
	case 4:
		return &sdcpb.Path{Elem: []*sdcpb.PathElem{l(), m()}}
	}
	return &sdcpb.Path{Elem: []*sdcpb.PathElem{{Name: "c"}}}
}

// vc11Same: element-wise equality (names, key names, key values).
func vc11Same(p, q *sdcpb.Path) bool {
	if len(p.GetElem()) != len(q.GetElem()) {
		return false
	}
	r := true
	for i, a := range p.GetElem() {
		b := q.GetElem()[i]
		if a.GetName() != b.GetName() || len(a.GetKey()) != len(b.GetKey()) {
			return false
		}
		for k, v := range a.GetKey() {
			w, ok := b.GetKey()[k]
			if !ok {
				return false
			}
			r = verifrt.And(r, v == w)
		}
	}
	return r
}

// VerifPathToStringsToPath: for every instance path p of the harness schema,
// ToPath(ToStrings(p)) == p.
func VerifPathToStringsToPath() {
	shape := verifrt.Choice("shape", 6)
	p := vc11Path(shape)
	ts := utils.ToStrings(p, false, false)
	verifrt.Observe("strings", ts)
	scb := NewSchemaClientBound(&sdcpb.Schema{Name: "verif", Vendor: "v", Version: "1"}, &vc11SchemaStub{})
	q, err := scb.ToPath(context.Background(), ts)
	verifrt.Reach("converted")
	verifrt.Assert(err == nil, "ToPath-accepts-index-sequence")
	if err != nil {
		return
	}
	verifrt.Assert(vc11Same(p, q), "ToStrings-then-ToPath-is-identity")
	// and forth again: the index sequence of the rebuilt path is the one we started from
	ts2 := utils.ToStrings(q, false, false)
	same := len(ts) == len(ts2)
	if same {
		for i := range ts {
			same = verifrt.And(same, ts[i] == ts2[i])
		}
	}
	verifrt.Assert(same, "ToPath-then-ToStrings-is-identity")
}
