//go:build verif

package schemaClient

import (
	"context"
	"fmt"
	"strings"

	sdcpb "github.com/sdcio/sdc-protos/sdcpb"
	"google.golang.org/grpc"

	"github.com/sdcio/data-server/pkg/schema"
	"github.com/sdcio/data-server/pkg/utils"
	"github.com/sdcio/data-server/pkg/verifrt"
)

// C11 - element sequence -> cache index sequence (utils.ToStrings) -> element
// sequence (SchemaClientBoundImpl.ToPath, the real code) is the identity.
//
// Harness schema, answered by vc11SchemaStub the way the schema server does
// (ContainerSchema.Keys in key-STATEMENT order):
//
//   container c
//   list l { key "k";   leaf k; leaf c; list m }
//   list m { key "c a"; leaf c; leaf a }          <- keys not declared alphabetically

const vc11Alphabet = "ac/_:=[] "

type vc11SchemaStub struct {
	schema.Client // every other method: nil interface, never called
}

func vc11Leaf(name string) *sdcpb.LeafSchema {
	return &sdcpb.LeafSchema{Name: name, Type: &sdcpb.SchemaLeafType{Type: "string"}}
}

func (s *vc11SchemaStub) GetSchema(ctx context.Context, in *sdcpb.GetSchemaRequest, opts ...grpc.CallOption) (*sdcpb.GetSchemaResponse, error) {
	names := make([]string, 0, len(in.GetPath().GetElem()))
	for _, pe := range in.GetPath().GetElem() {
		names = append(names, pe.GetName())
	}
	cont := func(c *sdcpb.ContainerSchema) (*sdcpb.GetSchemaResponse, error) {
		return &sdcpb.GetSchemaResponse{Schema: &sdcpb.SchemaElem{Schema: &sdcpb.SchemaElem_Container{Container: c}}}, nil
	}
	field := func(n string) (*sdcpb.GetSchemaResponse, error) {
		return &sdcpb.GetSchemaResponse{Schema: &sdcpb.SchemaElem{Schema: &sdcpb.SchemaElem_Field{Field: vc11Leaf(n)}}}, nil
	}
	switch strings.Join(names, "/") {
	case "c":
		return cont(&sdcpb.ContainerSchema{Name: "c"})
	case "l":
		return cont(&sdcpb.ContainerSchema{Name: "l", Keys: []*sdcpb.LeafSchema{vc11Leaf("k")}, Children: []string{"m"}, Fields: []*sdcpb.LeafSchema{vc11Leaf("c")}})
	case "m", "l/m":
		return cont(&sdcpb.ContainerSchema{Name: "m", Keys: []*sdcpb.LeafSchema{vc11Leaf("c"), vc11Leaf("a")}})
	case "l/c", "m/c", "l/m/c":
		return field("c")
	case "l/k":
		return field("k")
	case "m/a", "l/m/a":
		return field("a")
	}
	return nil, fmt.Errorf("no schema for %v", names)
}

func vc11Val(name string) string {
	v := verifrt.String(name, verifrt.Param("valLen", 2), vc11Alphabet)
	verifrt.Assume(len(v) > 0)
	return v
}

var vc11EqualMKeys bool

// shapes: 0 /l[k]  1 /l[k]/c  2 /m[c][a]  3 /m[c][a]/a  4 /l[k]/m[c][a]  5 /c
func vc11Path(shape int) *sdcpb.Path {
	l := func() *sdcpb.PathElem {
		return &sdcpb.PathElem{Name: "l", Key: map[string]string{"k": vc11Val("lk")}}
	}
	m := func() *sdcpb.PathElem {
		if vc11EqualMKeys {
			// both keys of m carry the same value: the known swap of differing values of a list
			// whose keys are not declared alphabetically cannot show
			v := vc11Val("mc")
			return &sdcpb.PathElem{Name: "m", Key: map[string]string{"c": v, "a": v}}
		}
		return &sdcpb.PathElem{Name: "m", Key: map[string]string{"c": vc11Val("mc"), "a": vc11Val("ma")}}
	}
	switch shape {
	case 0:
		return &sdcpb.Path{Elem: []*sdcpb.PathElem{l()}}
	case 1:
		return &sdcpb.Path{Elem: []*sdcpb.PathElem{l(), {Name: "c"}}}
	case 2:
		return &sdcpb.Path{Elem: []*sdcpb.PathElem{m()}}
	case 3:
		return &sdcpb.Path{Elem: []*sdcpb.PathElem{m(), {Name: "a"}}}
	case 4:
		return &sdcpb.Path{Elem: []*sdcpb.PathElem{l(), m()}}
	}
	return &sdcpb.Path{Elem: []*sdcpb.PathElem{{Name: "c"}}}
}

// vc11Same: element-wise equality (names, key names, key values).
func vc11Same(p, q *sdcpb.Path) bool {
	if len(p.GetElem()) != len(q.GetElem()) {
		return false
	}
	r := true
	for i, a := range p.GetElem() {
		b := q.GetElem()[i]
		if a.GetName() != b.GetName() || len(a.GetKey()) != len(b.GetKey()) {
			return false
		}
		for k, v := range a.GetKey() {
			w, ok := b.GetKey()[k]
			if !ok {
				return false
			}
			r = verifrt.And(r, v == w)
		}
	}
	return r
}

// VerifPathToStringsToPath: for every instance path p of the harness schema,
// ToPath(ToStrings(p)) == p.
func VerifPathToStringsToPath() {
	shape := verifrt.Choice("shape", 6)
	p := vc11Path(shape)
	ts := utils.ToStrings(p, false, false)
	verifrt.Observe("strings", ts)
	scb := NewSchemaClientBound(&sdcpb.Schema{Name: "verif", Vendor: "v", Version: "1"}, &vc11SchemaStub{})
	q, err := scb.ToPath(context.Background(), ts)
	verifrt.Reach("converted")
	verifrt.Assert(err == nil, "ToPath-accepts-index-sequence")
	if err != nil {
		return
	}
	verifrt.Assert(vc11Same(p, q), "ToStrings-then-ToPath-is-identity")
	// and forth again: the index sequence of the rebuilt path is the one we started from
	ts2 := utils.ToStrings(q, false, false)
	same := len(ts) == len(ts2)
	if same {
		for i := range ts {
			same = verifrt.And(same, ts[i] == ts2[i])
		}
	}
	verifrt.Assert(same, "ToPath-then-ToStrings-is-identity")
}

// VerifToPathSequence: ONE schema client converts two instance paths, one after the other
// (any pair of shapes, key values symbolic and independent): the second conversion must
// yield the second path - whatever the first one was, in particular when the textual
// renderings of the two index sequences collide (key values containing '/', ',' ...).
// (A client lives as long as the datastore: what it remembers from earlier conversions must
// not leak into later ones.)
func VerifToPathSequence() {
	s1 := verifrt.Choice("shape1", 6)
	s2 := verifrt.Choice("shape2", 6)
	vc11EqualMKeys = true
	p1 := vc11Path(s1)
	p2 := vc11Path(s2)
	ts1 := utils.ToStrings(p1, false, false)
	ts2 := utils.ToStrings(p2, false, false)
	scb := NewSchemaClientBound(&sdcpb.Schema{Name: "verif", Vendor: "v", Version: "1"}, &vc11SchemaStub{})
	q1, err := scb.ToPath(context.Background(), ts1)
	verifrt.Assert(err == nil, "ToPath-accepts-index-sequence")
	if err != nil {
		return
	}
	verifrt.Assert(vc11Same(p1, q1), "ToStrings-then-ToPath-is-identity")
	q2, err := scb.ToPath(context.Background(), ts2)
	verifrt.Reach("second-converted")
	verifrt.Assert(err == nil, "ToPath-accepts-index-sequence")
	if err != nil {
		return
	}
	verifrt.Assert(vc11Same(p2, q2), "second-ToPath-on-the-same-client-is-identity")
	// the first result is not disturbed by the second conversion either
	verifrt.Assert(vc11Same(p1, q1), "first-result-unchanged-by-second-conversion")
}

// VerifToPathConcurrentColdIndex (C11, explored interleavings): two goroutines convert index
// sequences that share schema nodes on ONE bound schema client whose index is still empty (the
// first requests after a start): each gets the path a single-threaded client computes - a
// lookup that finds another goroutine's index entry under construction waits for it instead
// of taking it for "no keys here".
func VerifToPathConcurrentColdIndex() {
	s1 := verifrt.Choice("shape1", 6)
	s2 := verifrt.Choice("shape2", 6)
	vc11EqualMKeys = true
	p1 := vc11Path(s1)
	p2 := vc11Path(s2)
	ts1 := utils.ToStrings(p1, false, false)
	ts2 := utils.ToStrings(p2, false, false)
	scb := NewSchemaClientBound(&sdcpb.Schema{Name: "verif", Vendor: "v", Version: "1"}, &vc11SchemaStub{})
	var q1, q2 *sdcpb.Path
	var e1, e2 error
	done1, done2 := false, false
	go func() {
		q1, e1 = scb.ToPath(context.Background(), ts1)
		done1 = true
	}()
	go func() {
		q2, e2 = scb.ToPath(context.Background(), ts2)
		done2 = true
	}()
	verifrt.AwaitQuiescence()
	verifrt.Reach("both-converted")
	verifrt.Assert(done1 && done2, "concurrent-ToPath-returns")
	if !done1 || !done2 {
		return
	}
	verifrt.Assert(e1 == nil && e2 == nil, "concurrent-ToPath-accepts-index-sequence")
	if e1 == nil {
		verifrt.Assert(vc11Same(p1, q1), "concurrent-ToPath-is-identity")
	}
	if e2 == nil {
		verifrt.Assert(vc11Same(p2, q2), "concurrent-ToPath-is-identity")
	}
}
