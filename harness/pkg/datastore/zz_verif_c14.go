//go:build verif

package datastore

// C14 "GetData returns exactly what is stored under the requested paths":
// Datastore.Get (data_rpc.go) with its readers handleGetDataUpdatesSTRING /
// JSON / PROTO, validatePath and getStores, over the datastore assembly with
// store contents written directly into the model cache.

import (
	"context"
	"sort"
	"strconv"
	"strings"

	sdccache "github.com/sdcio/cache/pkg/cache"
	"github.com/sdcio/data-server/pkg/cache"
	"github.com/sdcio/data-server/pkg/tree"
	"github.com/sdcio/data-server/pkg/verifrt"
	sdcpb "github.com/sdcio/sdc-protos/sdcpb"
)

// v14Leaf is one leaf instance of the store universe.
type v14Leaf struct {
	tag    string
	ifname string
	leaf   string
	path   *sdcpb.Path
	strs   []string
	isUint bool
	keyVal string // non-empty: key leaf, value fixed
	state  bool   // kept in the STATE store (else CONFIG)

	pres bool
	u    uint64
	s    string
}

func (l *v14Leaf) id() string { return vPathID(l.path) }

func (l *v14Leaf) tv() *sdcpb.TypedValue {
	if l.isUint {
		return vUintTV(l.u)
	}
	return vStrTV(l.s)
}

func v14NewLeaf(tag, ifname, leaf string, isUint bool) *v14Leaf {
	l := &v14Leaf{tag: tag, ifname: ifname, leaf: leaf, isUint: isUint,
		path: vPath(vPE("interface", "name", ifname), vPE(leaf)),
		strs: []string{"interface", ifname, leaf}}
	if leaf == "name" {
		l.keyVal = ifname
		l.s = ifname
	}
	return l
}

// v14Universe: list entries with prefix-related keys (lo1 / lo10).
// param "universe": 0 = mtu + key leaf of both entries (CONFIG store);
// 1 = additionally one leaf in the STATE store (description of lo10);
// 2 = additionally a description (string) leaf on lo1 in the CONFIG store.
func v14Universe() []*v14Leaf {
	ls := []*v14Leaf{
		v14NewLeaf("L0", "lo1", "mtu", true),
		v14NewLeaf("L1", "lo1", "name", false),
		v14NewLeaf("L2", "lo10", "mtu", true),
		v14NewLeaf("L3", "lo10", "name", false),
	}
	if verifrt.Param("universe", 0) >= 1 {
		s := v14NewLeaf("S0", "lo10", "description", false)
		s.state = true
		ls = append(ls, s)
	}
	if verifrt.Param("universe", 0) >= 2 {
		ls = append(ls, v14NewLeaf("L4", "lo1", "description", false))
	}
	return ls
}

// v14Arbitrary picks presence and value of every leaf.
func v14Arbitrary(ls []*v14Leaf, prefix string) {
	for _, l := range ls {
		if !verifrt.Bool(prefix + "pres." + l.tag) {
			continue
		}
		l.pres = true
		switch {
		case l.keyVal != "":
		case l.isUint:
			if verifrt.Param("hival", 0) == 1 {
				// the upper half of the leaf's type (mtu is a uint16): five digits, one digit count
				l.u = uint64(verifrt.IntRange(prefix+"val."+l.tag, 32768, 65535))
			} else {
				l.u = uint64(verifrt.IntRange(prefix+"val."+l.tag, 1000, 9999))
			}
		default:
			s := verifrt.String(prefix+"val."+l.tag, 1, "ab")
			verifrt.Assume(len(s) == 1)
			l.s = s
		}
	}
}

// v14Request is a requested path set.
type v14Request struct {
	name       string
	paths      []*sdcpb.Path
	unknown    bool // names a node the schema does not have
	unknownKey bool // names a key the list does not have
}

func v14Requests() []*v14Request {
	return []*v14Request{
		{name: "root", paths: []*sdcpb.Path{{}}},
		{name: "list", paths: []*sdcpb.Path{vPath(vPE("interface"))}},
		{name: "entry-lo1", paths: []*sdcpb.Path{vPath(vPE("interface", "name", "lo1"))}},
		{name: "leaf-lo1-mtu", paths: []*sdcpb.Path{vPath(vPE("interface", "name", "lo1"), vPE("mtu"))}},
		{name: "entry-lo10", paths: []*sdcpb.Path{vPath(vPE("interface", "name", "lo10"))}},
		{name: "unknown-leaf", paths: []*sdcpb.Path{vPath(vPE("interface", "name", "lo1"), vPE("nosuchleaf"))}, unknown: true},
		{name: "entry-lo10+leaf-lo1-mtu", paths: []*sdcpb.Path{vPath(vPE("interface", "name", "lo10")), vPath(vPE("interface", "name", "lo1"), vPE("mtu"))}},
		{name: "known+unknown", paths: []*sdcpb.Path{vPath(vPE("interface", "name", "lo1")), vPath(vPE("nosuchcontainer"))}, unknown: true},
		{name: "unknown-key-name", paths: []*sdcpb.Path{vPath(vPE("interface", "nosuchkey", "lo1"))}, unknown: true, unknownKey: true},
		// the unknown path at every position of a path set (first, middle), not only last
		{name: "unknown+known", paths: []*sdcpb.Path{vPath(vPE("nosuchcontainer")), vPath(vPE("interface", "name", "lo1"))}, unknown: true},
		{name: "known+unknown-leaf+known", paths: []*sdcpb.Path{vPath(vPE("interface", "name", "lo10")), vPath(vPE("interface", "name", "lo1"), vPE("nosuchleaf")), vPath(vPE("interface", "name", "lo1"), vPE("mtu"))}, unknown: true},
	}
}

// v14Covers: is req an ELEMENT-WISE prefix of p? (an element without keys
// stands for every entry of the list)
func v14Covers(req, p *sdcpb.Path) bool {
	re, pe := req.GetElem(), p.GetElem()
	if len(re) > len(pe) {
		return false
	}
	for i, e := range re {
		if e.GetName() != pe[i].GetName() {
			return false
		}
		for k, v := range e.GetKey() {
			if pe[i].GetKey()[k] != v {
				return false
			}
		}
	}
	return true
}

// v14BytePrefix: the comma-joined textual key of p starts with that of req
// although req is no element-wise prefix of p.
func v14BytePrefix(req, p *sdcpb.Path) bool {
	return !v14Covers(req, p) && strings.HasPrefix(strings.Join(vToStrings(p), ","), strings.Join(vToStrings(req), ","))
}

func (r *v14Request) covers(p *sdcpb.Path) bool {
	for _, q := range r.paths {
		if v14Covers(q, p) {
			return true
		}
	}
	return false
}

func (r *v14Request) bytePrefix(p *sdcpb.Path) bool {
	if r.covers(p) {
		return false
	}
	for _, q := range r.paths {
		if v14BytePrefix(q, p) {
			return true
		}
	}
	return false
}

// v14Get calls Datastore.Get the way server.GetData does: unbuffered channel,
// a collector on the other side. A panic inside Get is caught so that the
// oracle can name the situation.
func v14Get(env *vEnv, req *sdcpb.GetDataRequest) (msgs []*sdcpb.GetDataResponse, gerr error, panicked bool) {
	nCh := make(chan *sdcpb.GetDataResponse)
	done := make(chan struct{})
	go func() {
		defer close(done)
		defer func() {
			if r := recover(); r != nil {
				panicked = true
			}
		}()
		gerr = env.ds.Get(context.Background(), req, nCh)
	}()
	for m := range nCh {
		msgs = append(msgs, m)
	}
	<-done
	return msgs, gerr, panicked
}

// v14SameValue: tv carries the value (u / s) of l (number as number or as its
// decimal text: the encodings may differ in representation, not in content).
func v14SameValue(l *v14Leaf, tv *sdcpb.TypedValue, u uint64, s string) bool {
	switch x := tv.GetValue().(type) {
	case *sdcpb.TypedValue_UintVal:
		return verifrt.And(l.isUint, x.UintVal == u)
	case *sdcpb.TypedValue_StringVal:
		if l.isUint {
			return x.StringVal == strconv.FormatUint(u, 10)
		}
		return x.StringVal == s
	}
	return false
}

// v14AssertUpdates: the per-leaf messages (STRING / PROTO) are exactly the
// leaves accepted by sel that the request covers.
func v14AssertUpdates(ls []*v14Leaf, sel func(*v14Leaf) bool, r *v14Request, msgs []*sdcpb.GetDataResponse) {
	count := map[string]int{}
	for _, m := range msgs {
		for _, n := range m.GetNotification() {
			verifrt.Assert(len(n.GetDelete()) == 0, "C14-no-delete-in-get-response")
			for _, u := range n.GetUpdate() {
				pid := vPathID(u.GetPath())
				var leaf *v14Leaf
				for _, l := range ls {
					if l.id() == pid {
						leaf = l
					}
				}
				if leaf == nil || !leaf.pres {
					verifrt.Assert(false, "C14-delivered-leaf-is-stored")
					continue
				}
				if !sel(leaf) {
					verifrt.Assert(false, "C14-no-leaf-of-another-store")
					continue
				}
				if !r.covers(leaf.path) {
					if r.bytePrefix(leaf.path) {
						// the entry's key textually extends the requested entry's key
						verifrt.Assert(false, "C14-no-leaf-outside-request/key-extends-requested-entry")
					} else {
						verifrt.Assert(false, "C14-no-leaf-outside-request")
					}
					continue
				}
				count[leaf.tag]++
				verifrt.Assert(v14SameValue(leaf, u.GetValue(), leaf.u, leaf.s), "C14-value-as-stored")
			}
		}
	}
	for _, l := range ls {
		if l.pres && sel(l) && r.covers(l.path) {
			verifrt.Assert(count[l.tag] >= 1, "C14-every-leaf-below-request-returned")
			verifrt.Assert(count[l.tag] <= 1, "C14-leaf-returned-once")
		}
	}
}

// v14JsonEntry is one rendered list entry: member name -> rendered JSON value.
type v14JsonEntry struct {
	ifname  string
	members map[string]string
}

// v14JsonEntries: the list entries a JSON document must hold for the leaves
// accepted by keep. The key member is part of every rendered entry: it is
// implied by the path of the returned leaves.
func v14JsonEntries(ls []*v14Leaf, keep func(*v14Leaf) bool) []*v14JsonEntry {
	var out []*v14JsonEntry
	for _, l := range ls {
		if !l.pres || !keep(l) {
			continue
		}
		var e *v14JsonEntry
		for _, x := range out {
			if x.ifname == l.ifname {
				e = x
			}
		}
		if e == nil {
			e = &v14JsonEntry{ifname: l.ifname, members: map[string]string{"name": "\"" + l.ifname + "\""}}
			out = append(out, e)
		}
		if l.isUint {
			e.members[l.leaf] = strconv.FormatUint(l.u, 10)
		} else {
			e.members[l.leaf] = "\"" + l.s + "\""
		}
	}
	sort.Slice(out, func(i, j int) bool { return out[i].ifname < out[j].ifname })
	return out
}

// v14JsonText renders entries as encoding/json renders the tree's document:
// {"interface":[{<members sorted by name>}, ...]}; JSON_IETF prefixes the
// top-level member with the module name.
func v14JsonText(es []*v14JsonEntry, ietf bool) string {
	if len(es) == 0 {
		return "{}"
	}
	var entries []string
	for _, e := range es {
		names := make([]string, 0, len(e.members))
		for n := range e.members {
			names = append(names, n)
		}
		sort.Strings(names)
		var ms []string
		for _, n := range names {
			ms = append(ms, "\""+n+"\":"+e.members[n])
		}
		entries = append(entries, "{"+strings.Join(ms, ",")+"}")
	}
	top := "interface"
	if ietf {
		top = "sdcio_model_if:interface"
	}
	return "{\"" + top + "\":[" + strings.Join(entries, ",") + "]}"
}

// v14AssertJson: the single JSON message carries exactly the covered leaves.
func v14AssertJson(ls []*v14Leaf, sel func(*v14Leaf) bool, r *v14Request, msgs []*sdcpb.GetDataResponse, ietf bool) {
	verifrt.Assert(len(msgs) == 1, "C14-json-one-message")
	if len(msgs) != 1 {
		return
	}
	var doc []byte
	n := 0
	for _, no := range msgs[0].GetNotification() {
		for _, u := range no.GetUpdate() {
			n++
			doc = u.GetValue().GetJsonVal()
		}
	}
	verifrt.Assert(n == 1, "C14-json-one-document")
	if n != 1 {
		return
	}
	got := string(doc)
	want := v14JsonText(v14JsonEntries(ls, func(l *v14Leaf) bool { return sel(l) && r.covers(l.path) }), ietf)
	extended := false
	for _, l := range ls {
		if l.pres && sel(l) && r.bytePrefix(l.path) {
			extended = true
		}
	}
	if extended {
		wantByte := v14JsonText(v14JsonEntries(ls, func(l *v14Leaf) bool { return sel(l) && (r.covers(l.path) || r.bytePrefix(l.path)) }), ietf)
		if got == wantByte {
			// the document also holds the entry whose key textually extends the requested one
			verifrt.Assert(false, "C14-json-content-exact/key-extends-requested-entry")
			return
		}
	}
	verifrt.Assert(got == want, "C14-json-content-exact")
}

// v14AssertNoPanic names the situation of a panic inside Get.
func v14AssertNoPanic(panicked bool, json bool, ls []*v14Leaf, sel func(*v14Leaf) bool, r *v14Request) {
	if !panicked {
		return
	}
	if json {
		// what the byte-prefix read hands to the tree
		read := func(l *v14Leaf) bool { return l.pres && sel(l) && (r.covers(l.path) || r.bytePrefix(l.path)) }
		entries := map[string]bool{}
		hasKey := map[string]bool{}
		keyStored := map[string]bool{}
		for _, l := range ls {
			if l.keyVal != "" && l.pres && sel(l) {
				keyStored[l.ifname] = true
			}
			if read(l) {
				entries[l.ifname] = true
				if l.keyVal != "" {
					hasKey[l.ifname] = true
				}
			}
		}
		if len(entries) >= 2 {
			notSelected, notStored := false, false
			for n := range entries {
				if !hasKey[n] {
					if keyStored[n] {
						notSelected = true
					} else {
						notStored = true
					}
				}
			}
			switch {
			case notSelected:
				// several list entries are rendered and one of them came without its key leaf,
				// because the request names a leaf of that entry, not the entry
				verifrt.Assert(false, "C14-get-does-not-panic/json-entry-key-leaf-not-requested")
				return
			case notStored:
				// several list entries are rendered and the store holds one of them without its key leaf
				verifrt.Assert(false, "C14-get-does-not-panic/json-entry-key-leaf-not-stored")
				return
			}
		}
	}
	verifrt.Assert(false, "C14-get-does-not-panic")
}

// v14Encodings: param "encset" 0 = STRING, PROTO, (unknown encoding);
// 1 = JSON, JSON_IETF; 2 = all five. param "onlyenc" (>= 0) pins one of
// STRING, PROTO, unknown, JSON, JSON_IETF.
func v14Encoding() sdcpb.Encoding {
	all := []sdcpb.Encoding{sdcpb.Encoding_STRING, sdcpb.Encoding_PROTO, sdcpb.Encoding(7), sdcpb.Encoding_JSON, sdcpb.Encoding_JSON_IETF}
	if ei := verifrt.Param("onlyenc", -1); ei >= 0 && ei < len(all) {
		return all[ei]
	}
	encs := all[:3]
	switch verifrt.Param("encset", 0) {
	case 1:
		encs = all[3:]
	case 2:
		encs = all
	}
	return encs[verifrt.Choice("req.encoding", len(encs))]
}

func v14PickRequest() *v14Request {
	reqs := v14Requests()
	// param "onlyreq" (>= 0) pins the request (diagnosis)
	ri := verifrt.Param("onlyreq", -1)
	if ri < 0 || ri >= len(reqs) {
		ri = verifrt.Choice("req.paths", len(reqs))
	}
	return reqs[ri]
}

// VerifGetData: MAIN datastore, CONFIG (and STATE) store content arbitrary
// over the universe, one request (path set x encoding x data type).
func VerifGetData() {
	env := vNewEnv()
	ctx := context.Background()
	ls := v14Universe()
	v14Arbitrary(ls, "")
	hasState := false
	for _, l := range ls {
		if l.state {
			hasState = true
		}
		if l.pres {
			st := sdccache.StoreConfig
			if l.state {
				st = sdccache.StoreState
			}
			_ = env.model.WriteValue(ctx, "ds", &sdccache.Opts{Store: st, Path: [][]string{l.strs}}, vBytes(l.tv()))
		}
	}
	r := v14PickRequest()
	enc := v14Encoding()
	dts := []sdcpb.DataType{sdcpb.DataType_CONFIG, sdcpb.DataType_ALL}
	if hasState {
		dts = append(dts, sdcpb.DataType_STATE)
	}
	dt := dts[verifrt.Choice("req.datatype", len(dts))]
	// which stored leaves the data type selects
	sel := func(l *v14Leaf) bool {
		switch dt {
		case sdcpb.DataType_CONFIG:
			return !l.state
		case sdcpb.DataType_STATE:
			return l.state
		}
		return true
	}
	req := &sdcpb.GetDataRequest{
		Name:      "ds",
		Datastore: &sdcpb.DataStore{Type: sdcpb.Type_MAIN},
		Path:      r.paths,
		DataType:  dt,
		Encoding:  enc,
	}
	verifrt.Reach("state-built")
	msgs, err, panicked := v14Get(env, req)
	verifrt.Reach("get-returned")
	isJson := enc == sdcpb.Encoding_JSON || enc == sdcpb.Encoding_JSON_IETF
	v14AssertNoPanic(panicked, isJson, ls, sel, r)
	if panicked {
		return
	}

	if enc == sdcpb.Encoding(7) {
		verifrt.Reach("unknown-encoding")
		verifrt.Assert(err != nil, "C14-unknown-encoding-is-error")
		verifrt.Assert(len(msgs) == 0, "C14-error-without-data")
		return
	}
	if r.unknown {
		verifrt.Reach("unknown-path")
		if r.unknownKey {
			verifrt.Assert(err != nil, "C14-unknown-path-is-error/unknown-key-name")
		} else {
			verifrt.Assert(err != nil, "C14-unknown-path-is-error")
		}
		verifrt.Assert(len(msgs) == 0 || err == nil, "C14-error-without-data")
		// the SAME request once more on the same datastore (a client retrying): the answer of a
		// request does not depend on what was asked before
		msgs2, err2, panicked2 := v14Get(env, req)
		verifrt.Reach("unknown-path-asked-again")
		if !panicked2 {
			verifrt.Assert(err2 != nil, "C14-unknown-path-is-error-when-asked-again")
			verifrt.Assert(len(msgs2) == 0 || err2 == nil, "C14-error-without-data")
		}
		return
	}
	verifrt.Assert(err == nil, "C14-valid-request-accepted")
	if err != nil {
		return
	}
	switch enc {
	case sdcpb.Encoding_STRING, sdcpb.Encoding_PROTO:
		verifrt.Reach("per-leaf-encoding")
		v14AssertUpdates(ls, sel, r, msgs)
	case sdcpb.Encoding_JSON:
		verifrt.Reach("json-encoding")
		v14AssertJson(ls, sel, r, msgs, false)
	case sdcpb.Encoding_JSON_IETF:
		verifrt.Reach("json-encoding")
		v14AssertJson(ls, sel, r, msgs, true)
	}
}

// ---- JSON content without encoding/json

// v14JsonTree repeats the statement sequence of handleGetDataUpdatesJSON up to
// (not including) json.Marshal: the engine has no model of encoding/json
// (reflect over unsafe pointers). Every callee is the real one: getStores,
// cacheClient.ReadCh, schemaClient.ToPath, the tree and its ToJson/ToJsonIETF.
func v14JsonTree(ctx context.Context, d *Datastore, req *sdcpb.GetDataRequest, paths [][]string, ietf bool) (any, error) {
	name := req.GetName()
	treeSCC := tree.NewTreeCacheClient(d.Name(), d.cacheClient)
	tc := tree.NewTreeContext(treeSCC, d.schemaClient, "")
	root, err := tree.NewTreeRoot(ctx, tc)
	if err != nil {
		return nil, err
	}
	flagsExisting := tree.NewUpdateInsertFlags()
	for _, store := range getStores(req) {
		in := d.cacheClient.ReadCh(ctx, name, &cache.Opts{
			Store:    store,
			Owner:    req.GetDatastore().GetOwner(),
			Priority: req.GetDatastore().GetPriority(),
		}, paths, 0)
		for upd := range in {
			if len(upd.GetPath()) == 0 {
				continue
			}
			scp, err := d.schemaClient.ToPath(ctx, upd.GetPath())
			if err != nil {
				return nil, err
			}
			switch len(scp.GetElem()) {
			case 0:
				continue
			case 1:
				if scp.GetElem()[0].GetName() == "" {
					continue
				}
			}
			root.AddCacheUpdateRecursive(ctx, upd, flagsExisting)
		}
	}
	root.FinishInsertionPhase(ctx)
	if ietf {
		return root.ToJsonIETF(false)
	}
	return root.ToJson(false)
}

// v14JsonMember: does the document value v carry the rendered text want
// (a number or a quoted string)?
func v14JsonMember(v any, l *v14Leaf) bool {
	switch x := v.(type) {
	case uint64:
		return verifrt.And(l.isUint, x == l.u)
	case string:
		if l.isUint {
			return x == strconv.FormatUint(l.u, 10)
		}
		return x == l.s
	}
	return false
}

// v14AssertJsonDoc: the document (as the tree hands it to json.Marshal) holds
// exactly the covered leaves.
func v14AssertJsonDoc(ls []*v14Leaf, sel func(*v14Leaf) bool, r *v14Request, doc any, ietf bool) {
	top := "interface"
	if ietf {
		top = "sdcio_model_if:interface"
	}
	covered := func(l *v14Leaf) bool { return l.pres && sel(l) && r.covers(l.path) }
	m, ok := doc.(map[string]any)
	verifrt.Assert(ok, "C14-json-document-is-object")
	if !ok {
		return
	}
	var list []any
	for k, v := range m {
		if k != top {
			verifrt.Assert(false, "C14-json-no-member-outside-request")
			continue
		}
		list, _ = v.([]any)
	}
	seen := map[string]bool{} // leaf tag
	for _, ev := range list {
		em, ok := ev.(map[string]any)
		verifrt.Assert(ok, "C14-json-entry-is-object")
		if !ok {
			continue
		}
		ifname, _ := em["name"].(string)
		known := false
		anyCovered := false
		for _, l := range ls {
			if l.ifname == ifname {
				known = true
				if covered(l) {
					anyCovered = true
				}
			}
		}
		verifrt.Assert(known, "C14-json-entry-is-stored")
		if !known {
			continue
		}
		if !anyCovered {
			extended := false
			for _, l := range ls {
				if l.ifname == ifname && l.pres && sel(l) && r.bytePrefix(l.path) {
					extended = true
				}
			}
			if extended {
				verifrt.Assert(false, "C14-json-no-entry-outside-request/key-extends-requested-entry")
			} else {
				verifrt.Assert(false, "C14-json-no-entry-outside-request")
			}
			continue
		}
		for k, v := range em {
			var leaf *v14Leaf
			for _, l := range ls {
				if l.ifname == ifname && l.leaf == k {
					leaf = l
				}
			}
			if k == "name" {
				// the key member is implied by the path of the entry's leaves
				continue
			}
			if leaf == nil || !covered(leaf) {
				verifrt.Assert(false, "C14-json-no-member-outside-request")
				continue
			}
			verifrt.Assert(!seen[leaf.tag], "C14-json-leaf-once")
			seen[leaf.tag] = true
			verifrt.Assert(v14JsonMember(v, leaf), "C14-json-value-as-stored")
		}
		for _, l := range ls {
			if l.ifname == ifname && l.keyVal != "" && covered(l) {
				seen[l.tag] = true
			}
		}
	}
	for _, l := range ls {
		if covered(l) {
			verifrt.Assert(seen[l.tag], "C14-json-every-leaf-below-request-present")
		}
	}
}

// VerifGetDataJsonTree: the content of the JSON / JSON_IETF document for the
// MAIN datastore. Get itself is called too (request validation, reader up to
// json.Marshal); the document is taken from v14JsonTree.
func VerifGetDataJsonTree() {
	env := vNewEnv()
	ctx := context.Background()
	ls := v14Universe()
	v14Arbitrary(ls, "")
	for _, l := range ls {
		if l.pres {
			st := sdccache.StoreConfig
			if l.state {
				st = sdccache.StoreState
			}
			_ = env.model.WriteValue(ctx, "ds", &sdccache.Opts{Store: st, Path: [][]string{l.strs}}, vBytes(l.tv()))
		}
	}
	// the running store holds the key leaf of every entry it holds a leaf of
	// (the sync writes keys as leaves); param "freekeys" = 1 lifts this
	if verifrt.Param("freekeys", 0) == 0 {
		for _, k := range ls {
			if k.keyVal == "" {
				continue
			}
			for _, l := range ls {
				if l.ifname == k.ifname && l.pres {
					verifrt.Assume(k.pres)
				}
			}
		}
	}
	r := v14PickRequest()
	verifrt.Assume(!r.unknown)
	ietf := verifrt.Choice("req.ietf", 2) == 1
	enc := sdcpb.Encoding_JSON
	if ietf {
		enc = sdcpb.Encoding_JSON_IETF
	}
	req := &sdcpb.GetDataRequest{
		Name:      "ds",
		Datastore: &sdcpb.DataStore{Type: sdcpb.Type_MAIN},
		Path:      r.paths,
		DataType:  sdcpb.DataType_CONFIG,
		Encoding:  enc,
	}
	var paths [][]string
	for _, p := range r.paths {
		paths = append(paths, vToStrings(p))
	}
	sel := func(l *v14Leaf) bool { return !l.state }
	verifrt.Reach("state-built")
	panicked := false
	var doc any
	var err error
	func() {
		defer func() {
			if rec := recover(); rec != nil {
				panicked = true
			}
		}()
		doc, err = v14JsonTree(ctx, env.ds, req, paths, ietf)
	}()
	verifrt.Reach("document-built")
	v14AssertNoPanic(panicked, true, ls, sel, r)
	if panicked {
		return
	}
	verifrt.Assert(err == nil, "C14-valid-request-accepted")
	if err != nil {
		return
	}
	v14AssertJsonDoc(ls, sel, r, doc, ietf)
}

// ---- INTENDED selection

// VerifGetDataIntended: Datastore{Type: INTENDED}. The intended store holds
// the leaves of two intents A and B; the request selects the store as a whole
// (no owner, priority 0) or one intent (owner, priority).
func VerifGetDataIntended() {
	env := vNewEnv()
	ctx := context.Background()
	owners := []string{"A", "B"}
	prio := map[string]int32{}
	for _, o := range owners {
		p := verifrt.Int32("prio" + o)
		verifrt.Assume(verifrt.And(p >= 1, p < 1000))
		prio[o] = p
	}
	verifrt.Assume(prio["A"] != prio["B"])
	content := map[string][]*v14Leaf{}
	for _, o := range owners {
		ls := []*v14Leaf{
			v14NewLeaf("L0", "lo1", "mtu", true),
			v14NewLeaf("L1", "lo1", "name", false),
			v14NewLeaf("L2", "lo10", "mtu", true),
			v14NewLeaf("L3", "lo10", "name", false),
		}
		for _, l := range ls {
			if l.keyVal != "" {
				continue
			}
			if verifrt.Bool("pres." + l.tag + "." + o) {
				l.pres = true
				l.u = uint64(verifrt.IntRange("val."+l.tag+"."+o, 1000, 9999))
			}
		}
		// an intent holds the key leaf of every entry it has a leaf of
		for _, k := range ls {
			if k.keyVal == "" {
				continue
			}
			for _, l := range ls {
				if l.keyVal == "" && l.ifname == k.ifname && l.pres {
					k.pres = true
				}
			}
		}
		content[o] = ls
		for _, l := range ls {
			if l.pres {
				_ = env.model.WriteValue(ctx, "ds", &sdccache.Opts{Store: sdccache.StoreIntended, Path: [][]string{l.strs}, Owner: o, Priority: prio[o]}, vBytes(l.tv()))
			}
		}
	}
	r := v14PickRequest()
	enc := v14Encoding()
	verifrt.Assume(enc != sdcpb.Encoding_JSON && enc != sdcpb.Encoding_JSON_IETF)
	dts := []sdcpb.DataType{sdcpb.DataType_CONFIG, sdcpb.DataType_ALL, sdcpb.DataType_STATE}
	dt := dts[verifrt.Choice("req.datatype", len(dts))]
	byOwner := verifrt.Choice("req.selection", 2) == 1
	ds := &sdcpb.DataStore{Type: sdcpb.Type_INTENDED}
	if byOwner {
		ds.Owner = "A"
		ds.Priority = prio["A"]
	}
	req := &sdcpb.GetDataRequest{Name: "ds", Datastore: ds, Path: r.paths, DataType: dt, Encoding: enc}
	verifrt.Reach("state-built")
	msgs, err, panicked := v14Get(env, req)
	verifrt.Reach("get-returned")
	verifrt.Assert(!panicked, "C14-get-does-not-panic")
	if panicked {
		return
	}
	if dt == sdcpb.DataType_STATE {
		verifrt.Reach("unsupported-combination")
		verifrt.Assert(err != nil, "C14-state-of-intended-is-error")
		verifrt.Assert(len(msgs) == 0, "C14-error-without-data")
		return
	}
	if enc == sdcpb.Encoding(7) {
		verifrt.Assert(err != nil, "C14-unknown-encoding-is-error")
		verifrt.Assert(len(msgs) == 0, "C14-error-without-data")
		return
	}
	if r.unknown {
		verifrt.Reach("unknown-path")
		if r.unknownKey {
			verifrt.Assert(err != nil, "C14-unknown-path-is-error/unknown-key-name")
		} else {
			verifrt.Assert(err != nil, "C14-unknown-path-is-error")
		}
		verifrt.Assert(len(msgs) == 0 || err == nil, "C14-error-without-data")
		return
	}
	verifrt.Assert(err == nil, "C14-valid-request-accepted")
	if err != nil {
		return
	}
	isRoot := len(r.paths) == 1 && len(r.paths[0].GetElem()) == 0
	if byOwner {
		verifrt.Reach("one-intent")
	} else {
		verifrt.Reach("whole-store")
	}
	// the owners the request selects
	var sel []string
	if byOwner {
		sel = []string{"A"}
	} else {
		sel = owners
	}
	ref := content["A"] // paths of the universe
	count := map[string]int{}
	for _, m := range msgs {
		for _, n := range m.GetNotification() {
			for _, u := range n.GetUpdate() {
				pid := vPathID(u.GetPath())
				idx := -1
				for i, l := range ref {
					if l.id() == pid {
						idx = i
					}
				}
				if idx < 0 {
					verifrt.Assert(false, "C14-intended-delivered-leaf-is-stored")
					continue
				}
				if !r.covers(ref[idx].path) {
					if r.bytePrefix(ref[idx].path) {
						verifrt.Assert(false, "C14-intended-no-leaf-outside-request/key-extends-requested-entry")
					} else {
						verifrt.Assert(false, "C14-intended-no-leaf-outside-request")
					}
					continue
				}
				// the value is the value some selected owner stores there
				some := false
				isRuling := false
				stored := false
				for _, o := range sel {
					l := content[o][idx]
					if !l.pres {
						continue
					}
					stored = true
					same := v14SameValue(l, u.GetValue(), l.u, l.s)
					some = verifrt.Or(some, same)
					wins := true
					for _, o2 := range sel {
						if o2 != o && content[o2][idx].pres {
							wins = verifrt.And(wins, prio[o] < prio[o2])
						}
					}
					isRuling = verifrt.Or(isRuling, verifrt.And(wins, same))
				}
				if !stored {
					verifrt.Assert(false, "C14-intended-delivered-leaf-is-stored")
					continue
				}
				verifrt.Assert(some, "C14-intended-value-as-stored")
				verifrt.Assert(isRuling, "C14-intended-value-is-the-ruling-one")
				count[ref[idx].tag]++
			}
		}
	}
	// every stored path the request covers is returned
	for idx, l := range ref {
		definers := 0
		for _, o := range sel {
			if content[o][idx].pres {
				definers++
			}
		}
		if definers == 0 || !r.covers(l.path) {
			continue
		}
		if count[l.tag] >= 1 {
			continue
		}
		// name the situation
		requestAbove := false
		for _, q := range r.paths {
			if v14Covers(q, l.path) && len(q.GetElem()) < len(l.path.GetElem()) {
				requestAbove = true
			}
			if v14Covers(q, l.path) && len(q.GetElem()) == len(l.path.GetElem()) {
				requestAbove = false
				break
			}
		}
		// (ref is in store key order: "interface,lo1,..." sorts before "interface,lo10,...")
		shadowedBefore := false
		if !byOwner {
			for j := 0; j < idx; j++ {
				if r.covers(ref[j].path) && content["A"][j].pres && content["B"][j].pres {
					shadowedBefore = true
				}
			}
		}
		switch {
		case isRoot:
			verifrt.Assert(false, "C14-intended-every-path-below-request-returned/root-request")
		case byOwner && requestAbove:
			verifrt.Assert(false, "C14-intended-every-path-below-request-returned/intent-selected-and-request-above-leaf")
		case shadowedBefore:
			verifrt.Assert(false, "C14-intended-every-path-below-request-returned/after-path-defined-by-two-intents")
		default:
			verifrt.Assert(false, "C14-intended-every-path-below-request-returned")
		}
	}
}

// VerifGetDataJsonDoubleKey: the JSON / JSON_IETF document for requests at and BELOW an entry
// of a list with two keys (doublekey[key1=alpha][key2=one]; leaves mandato and cont/value1):
// the entry of the document carries both keys with the values of the stored entry - also when
// the request names a leaf or container below the entry, so that the key leaves are not read
// from the store but synthesised from the path - and exactly the covered leaves.
func VerifGetDataJsonDoubleKey() {
	env := vNewEnv()
	ctx := context.Background()
	k1, k2 := "alpha", "one"
	base := []string{"doublekey", k1, k2}
	entry := vPE("doublekey", "key1", k1, "key2", k2)
	type dkLeaf struct {
		name  []string
		pres  bool
		val   string
		isKey bool
	}
	leaves := []*dkLeaf{
		{name: []string{"key1"}, val: k1, isKey: true}, {name: []string{"key2"}, val: k2, isKey: true},
		{name: []string{"mandato"}}, {name: []string{"cont", "value1"}},
	}
	anyPres := false
	for i, l := range leaves {
		if l.isKey {
			continue
		}
		if verifrt.Bool("pres.D" + string(rune('0'+i))) {
			l.pres, anyPres = true, true
			s := verifrt.String("val.D"+string(rune('0'+i)), 1, "ab")
			verifrt.Assume(len(s) == 1)
			l.val = s
		}
	}
	verifrt.Assume(anyPres)
	leaves[0].pres, leaves[1].pres = true, true // the sync writes the keys as leaves
	for _, l := range leaves {
		if l.pres {
			_ = env.model.WriteValue(ctx, "ds", &sdccache.Opts{Store: sdccache.StoreConfig, Path: [][]string{append(append([]string{}, base...), l.name...)}}, vBytes(vStrTV(l.val)))
		}
	}
	reqs := [][]*sdcpb.PathElem{
		{vPE("doublekey")},
		{entry},
		{entry, vPE("mandato")},
		{entry, vPE("cont")},
		{entry, vPE("cont"), vPE("value1")},
	}
	ri := verifrt.Choice("req.path", len(reqs))
	rp := &sdcpb.Path{Elem: reqs[ri]}
	ietf := verifrt.Choice("req.ietf", 2) == 1
	enc := sdcpb.Encoding_JSON
	if ietf {
		enc = sdcpb.Encoding_JSON_IETF
	}
	req := &sdcpb.GetDataRequest{Name: "ds", Datastore: &sdcpb.DataStore{Type: sdcpb.Type_MAIN}, Path: []*sdcpb.Path{rp}, DataType: sdcpb.DataType_CONFIG, Encoding: enc}
	covered := func(l *dkLeaf) bool {
		if !l.pres {
			return false
		}
		switch ri {
		case 2:
			return len(l.name) == 1 && l.name[0] == "mandato"
		case 3, 4:
			return l.name[0] == "cont"
		}
		return true
	}
	anyCovered := false
	for _, l := range leaves {
		if !l.isKey && covered(l) {
			anyCovered = true
		}
	}
	verifrt.Reach("state-built")
	doc, err := v14JsonTree(ctx, env.ds, req, [][]string{vToStrings(rp)}, ietf)
	verifrt.Reach("document-built")
	verifrt.Assert(err == nil, "C14-valid-request-accepted")
	if err != nil {
		return
	}
	m, ok := doc.(map[string]any)
	verifrt.Assert(ok, "C14-json-document-is-object")
	if !ok {
		return
	}
	var list []any
	for k, v := range m {
		if !strings.HasSuffix(k, "doublekey") {
			verifrt.Assert(false, "C14-json-no-member-outside-request")
			continue
		}
		list, _ = v.([]any)
	}
	if !anyCovered && ri >= 2 {
		verifrt.Assert(len(list) == 0, "C14-json-no-entry-outside-request")
		return
	}
	verifrt.Assert(len(list) == 1, "C14-json-one-entry-for-the-stored-entry")
	if len(list) != 1 {
		return
	}
	em, ok := list[0].(map[string]any)
	verifrt.Assert(ok, "C14-json-entry-is-object")
	if !ok {
		return
	}
	verifrt.Reach("entry-rendered")
	g1, _ := em["key1"].(string)
	g2, _ := em["key2"].(string)
	verifrt.Assert(g1 == k1 && g2 == k2, "C14-json-entry-keys-as-stored")
	for _, l := range leaves {
		if l.isKey {
			continue
		}
		var v any
		var have bool
		if len(l.name) == 1 {
			v, have = em[l.name[0]]
		} else if cm, ok := em[l.name[0]].(map[string]any); ok {
			v, have = cm[l.name[1]]
		}
		if covered(l) {
			s, _ := v.(string)
			verifrt.Assert(have && s == l.val, "C14-json-every-leaf-below-request-present")
		} else {
			verifrt.Assert(!have, "C14-json-no-member-outside-request")
		}
	}
}
