//go:build verif

package datastore

// C14 "GetData returns exactly what is stored under the requested paths":
// Datastore.Get (data_rpc.go) with its readers handleGetDataUpdatesSTRING /
// JSON / PROTO, validatePath and getStores, over the datastore assembly with
// store contents written directly into the model cache.

import (
	"context"
	"sort"
	"strconv"
	"strings"

	sdccache "github.com/sdcio/cache/pkg/cache"
	"github.com/sdcio/data-server/pkg/verifrt"
	sdcpb "github.com/sdcio/sdc-protos/sdcpb"
)

// v14Leaf is one leaf instance of the store universe.
type v14Leaf struct {
	tag    string
	ifname string
	leaf   string
	path   *sdcpb.Path
	strs   []string
	isUint bool
	keyVal string // non-empty: key leaf, value fixed

	pres bool
	u    uint64
	s    string
}

func (l *v14Leaf) id() string { return vPathID(l.path) }

func (l *v14Leaf) tv() *sdcpb.TypedValue {
	if l.isUint {
		return vUintTV(l.u)
	}
	return vStrTV(l.s)
}

func v14NewLeaf(tag, ifname, leaf string, isUint bool) *v14Leaf {
	l := &v14Leaf{tag: tag, ifname: ifname, leaf: leaf, isUint: isUint,
		path: vPath(vPE("interface", "name", ifname), vPE(leaf)),
		strs: []string{"interface", ifname, leaf}}
	if leaf == "name" {
		l.keyVal = ifname
		l.s = ifname
	}
	return l
}

// v14Universe: list entries with prefix-related keys (lo1 / lo10).
// param "universe": 0 = mtu + key leaf of both entries, 1 = additionally a
// description (string) leaf on each entry.
func v14Universe() []*v14Leaf {
	ls := []*v14Leaf{
		v14NewLeaf("L0", "lo1", "mtu", true),
		v14NewLeaf("L1", "lo1", "name", false),
		v14NewLeaf("L2", "lo10", "mtu", true),
		v14NewLeaf("L3", "lo10", "name", false),
	}
	if verifrt.Param("universe", 0) >= 1 {
		ls = append(ls,
			v14NewLeaf("L4", "lo1", "description", false),
			v14NewLeaf("L5", "lo10", "description", false))
	}
	return ls
}

// v14Arbitrary picks presence and value of every leaf.
func v14Arbitrary(ls []*v14Leaf, prefix string) {
	for _, l := range ls {
		if !verifrt.Bool(prefix + "pres." + l.tag) {
			continue
		}
		l.pres = true
		switch {
		case l.keyVal != "":
		case l.isUint:
			l.u = uint64(verifrt.IntRange(prefix+"val."+l.tag, 1000, 9999))
		default:
			s := verifrt.String(prefix+"val."+l.tag, 1, "ab")
			verifrt.Assume(len(s) == 1)
			l.s = s
		}
	}
}

// v14Request is a requested path set.
type v14Request struct {
	name    string
	paths   []*sdcpb.Path
	unknown bool // names a node the schema does not have
}

func v14Requests() []*v14Request {
	return []*v14Request{
		{name: "root", paths: []*sdcpb.Path{{}}},
		{name: "list", paths: []*sdcpb.Path{vPath(vPE("interface"))}},
		{name: "entry-lo1", paths: []*sdcpb.Path{vPath(vPE("interface", "name", "lo1"))}},
		{name: "leaf-lo1-mtu", paths: []*sdcpb.Path{vPath(vPE("interface", "name", "lo1"), vPE("mtu"))}},
		{name: "entry-lo10", paths: []*sdcpb.Path{vPath(vPE("interface", "name", "lo10"))}},
		{name: "unknown-leaf", paths: []*sdcpb.Path{vPath(vPE("interface", "name", "lo1"), vPE("nosuchleaf"))}, unknown: true},
		{name: "entry-lo10+leaf-lo1-mtu", paths: []*sdcpb.Path{vPath(vPE("interface", "name", "lo10")), vPath(vPE("interface", "name", "lo1"), vPE("mtu"))}},
		{name: "known+unknown", paths: []*sdcpb.Path{vPath(vPE("interface", "name", "lo1")), vPath(vPE("nosuchcontainer"))}, unknown: true},
	}
}

// v14Covers: is req an ELEMENT-WISE prefix of p? (an element without keys
// stands for every entry of the list)
func v14Covers(req, p *sdcpb.Path) bool {
	re, pe := req.GetElem(), p.GetElem()
	if len(re) > len(pe) {
		return false
	}
	for i, e := range re {
		if e.GetName() != pe[i].GetName() {
			return false
		}
		for k, v := range e.GetKey() {
			if pe[i].GetKey()[k] != v {
				return false
			}
		}
	}
	return true
}

// v14BytePrefix: the comma-joined textual key of p starts with that of req
// although req is no element-wise prefix of p.
func v14BytePrefix(req, p *sdcpb.Path) bool {
	return !v14Covers(req, p) && strings.HasPrefix(strings.Join(vToStrings(p), ","), strings.Join(vToStrings(req), ","))
}

func (r *v14Request) covers(p *sdcpb.Path) bool {
	for _, q := range r.paths {
		if v14Covers(q, p) {
			return true
		}
	}
	return false
}

func (r *v14Request) bytePrefix(p *sdcpb.Path) bool {
	for _, q := range r.paths {
		if v14BytePrefix(q, p) {
			return true
		}
	}
	return false
}

// v14Get calls Datastore.Get the way server.GetData does: unbuffered channel,
// a collector on the other side.
func v14Get(env *vEnv, req *sdcpb.GetDataRequest) ([]*sdcpb.GetDataResponse, error) {
	nCh := make(chan *sdcpb.GetDataResponse)
	done := make(chan struct{})
	var gerr error
	go func() {
		defer close(done)
		gerr = env.ds.Get(context.Background(), req, nCh)
	}()
	var msgs []*sdcpb.GetDataResponse
	for m := range nCh {
		msgs = append(msgs, m)
	}
	<-done
	return msgs, gerr
}

// v14SameValue: tv carries the stored value of l (number as number or as its
// decimal text: the encodings may differ in representation, not in content).
func v14SameValue(l *v14Leaf, tv *sdcpb.TypedValue) bool {
	switch x := tv.GetValue().(type) {
	case *sdcpb.TypedValue_UintVal:
		return verifrt.And(l.isUint, x.UintVal == l.u)
	case *sdcpb.TypedValue_StringVal:
		if l.isUint {
			return x.StringVal == strconv.FormatUint(l.u, 10)
		}
		return x.StringVal == l.s
	}
	return false
}

// v14AssertUpdates: the per-leaf messages (STRING / PROTO) are exactly the
// stored leaves the request covers.
func v14AssertUpdates(ls []*v14Leaf, r *v14Request, msgs []*sdcpb.GetDataResponse) {
	count := map[string]int{}
	for _, m := range msgs {
		for _, n := range m.GetNotification() {
			verifrt.Assert(len(n.GetDelete()) == 0, "C14-no-delete-in-get-response")
			for _, u := range n.GetUpdate() {
				pid := vPathID(u.GetPath())
				var leaf *v14Leaf
				for _, l := range ls {
					if l.id() == pid {
						leaf = l
					}
				}
				if leaf == nil || !leaf.pres {
					verifrt.Assert(false, "C14-delivered-leaf-is-stored")
					continue
				}
				if !r.covers(leaf.path) {
					if r.bytePrefix(leaf.path) {
						// the entry's key textually extends the requested entry's key
						verifrt.Assert(false, "C14-no-leaf-outside-request/key-extends-requested-entry")
					} else {
						verifrt.Assert(false, "C14-no-leaf-outside-request")
					}
					continue
				}
				count[leaf.tag]++
				verifrt.Assert(v14SameValue(leaf, u.GetValue()), "C14-value-as-stored")
			}
		}
	}
	for _, l := range ls {
		if l.pres && r.covers(l.path) {
			verifrt.Assert(count[l.tag] >= 1, "C14-every-leaf-below-request-returned")
			verifrt.Assert(count[l.tag] <= 1, "C14-leaf-returned-once")
		}
	}
}

// v14Json renders the leaves selected by keep as the JSON document the tree
// produces: {"interface":[{<members sorted by name>}, ...]} with entries in key
// order; ietf prefixes the top-level member with the module name.
func v14Json(ls []*v14Leaf, keep func(*v14Leaf) bool, ietf bool) string {
	ifnames := []string{}
	type member struct{ name, text string }
	members := map[string][]member{}
	for _, l := range ls {
		if !l.pres || !keep(l) {
			continue
		}
		if _, ok := members[l.ifname]; !ok {
			ifnames = append(ifnames, l.ifname)
		}
		var v string
		if l.isUint {
			v = strconv.FormatUint(l.u, 10)
		} else {
			v = "\"" + l.s + "\""
		}
		members[l.ifname] = append(members[l.ifname], member{l.leaf, "\"" + l.leaf + "\":" + v})
	}
	if len(ifnames) == 0 {
		return "{}"
	}
	sort.Strings(ifnames)
	var entries []string
	for _, n := range ifnames {
		ms := members[n]
		sort.Slice(ms, func(i, j int) bool { return ms[i].name < ms[j].name }) // concrete names
		var texts []string
		for _, m := range ms {
			texts = append(texts, m.text)
		}
		entries = append(entries, "{"+strings.Join(texts, ",")+"}")
	}
	top := "interface"
	if ietf {
		top = "sdcio_model_if:interface"
	}
	return "{\"" + top + "\":[" + strings.Join(entries, ",") + "]}"
}

// v14AssertJson: the single JSON message carries exactly the covered leaves.
func v14AssertJson(ls []*v14Leaf, r *v14Request, msgs []*sdcpb.GetDataResponse, ietf bool) {
	verifrt.Assert(len(msgs) == 1, "C14-json-one-message")
	if len(msgs) != 1 {
		return
	}
	var doc []byte
	n := 0
	for _, no := range msgs[0].GetNotification() {
		for _, u := range no.GetUpdate() {
			n++
			doc = u.GetValue().GetJsonVal()
		}
	}
	verifrt.Assert(n == 1, "C14-json-one-document")
	if n != 1 {
		return
	}
	got := string(doc)
	want := v14Json(ls, func(l *v14Leaf) bool { return r.covers(l.path) }, ietf)
	extended := false
	for _, l := range ls {
		if l.pres && r.bytePrefix(l.path) {
			extended = true
		}
	}
	if extended {
		wantByte := v14Json(ls, func(l *v14Leaf) bool { return r.covers(l.path) || r.bytePrefix(l.path) }, ietf)
		if got == wantByte {
			// the document also holds the entry whose key textually extends the requested one
			verifrt.Assert(false, "C14-json-content-exact/key-extends-requested-entry")
			return
		}
	}
	verifrt.Assert(got == want, "C14-json-content-exact")
}

// VerifGetData: MAIN datastore, CONFIG store content arbitrary over the
// universe, one request (path set x encoding x data type).
func VerifGetData() {
	env := vNewEnv()
	ctx := context.Background()
	ls := v14Universe()
	v14Arbitrary(ls, "")
	for _, l := range ls {
		if l.pres {
			_ = env.model.WriteValue(ctx, "ds", &sdccache.Opts{Store: sdccache.StoreConfig, Path: [][]string{l.strs}}, vBytes(l.tv()))
		}
	}
	reqs := v14Requests()
	r := reqs[verifrt.Choice("req.paths", len(reqs))]
	// encodings: param "encodings" = number of encodings explored, in the order
	// STRING, PROTO, JSON, JSON_IETF, (unknown)
	encs := []sdcpb.Encoding{sdcpb.Encoding_STRING, sdcpb.Encoding_PROTO, sdcpb.Encoding_JSON, sdcpb.Encoding_JSON_IETF, sdcpb.Encoding(7)}
	nenc := verifrt.Param("encodings", len(encs))
	if nenc > len(encs) {
		nenc = len(encs)
	}
	enc := encs[verifrt.Choice("req.encoding", nenc)]
	dts := []sdcpb.DataType{sdcpb.DataType_CONFIG, sdcpb.DataType_ALL}
	dt := dts[verifrt.Choice("req.datatype", len(dts))]
	req := &sdcpb.GetDataRequest{
		Name:      "ds",
		Datastore: &sdcpb.DataStore{Type: sdcpb.Type_MAIN},
		Path:      r.paths,
		DataType:  dt,
		Encoding:  enc,
	}
	verifrt.Reach("state-built")
	msgs, err := v14Get(env, req)
	verifrt.Reach("get-returned")

	if enc == sdcpb.Encoding(7) {
		verifrt.Assert(err != nil, "C14-unknown-encoding-is-error")
		verifrt.Assert(len(msgs) == 0, "C14-error-without-data")
		return
	}
	if r.unknown {
		verifrt.Reach("unknown-path")
		verifrt.Assert(err != nil, "C14-unknown-path-is-error")
		verifrt.Assert(len(msgs) == 0, "C14-error-without-data")
		return
	}
	verifrt.Assert(err == nil, "C14-valid-request-accepted")
	if err != nil {
		return
	}
	switch enc {
	case sdcpb.Encoding_STRING, sdcpb.Encoding_PROTO:
		verifrt.Reach("per-leaf-encoding")
		v14AssertUpdates(ls, r, msgs)
	case sdcpb.Encoding_JSON:
		verifrt.Reach("json-encoding")
		v14AssertJson(ls, r, msgs, false)
	case sdcpb.Encoding_JSON_IETF:
		verifrt.Reach("json-encoding")
		v14AssertJson(ls, r, msgs, true)
	}
}
