//go:build verif

package server

// C20 "no request ... leaves the server hanging", the part that lives in package server: the
// front-end handlers share one lock (Server.md) for the datastore map. While streaming RPCs of
// other clients are open - a Subscribe, a GetData whose consumer stalls, a deviation watch -
// every other protobuf-valid request still gets its answer (a response or an error).

import (
	"context"
	"time"

	"github.com/sdcio/data-server/pkg/datastore"
	"github.com/sdcio/data-server/pkg/verifrt"
	sdcpb "github.com/sdcio/sdc-protos/sdcpb"
	"google.golang.org/grpc/metadata"
)

type v20SubStream struct {
	ctx   context.Context
	sends int
}

func (s *v20SubStream) Send(r *sdcpb.SubscribeResponse) error {
	s.sends++
	return s.ctx.Err()
}
func (s *v20SubStream) Context() context.Context     { return s.ctx }
func (s *v20SubStream) SetHeader(metadata.MD) error  { return nil }
func (s *v20SubStream) SendHeader(metadata.MD) error { return nil }
func (s *v20SubStream) SetTrailer(metadata.MD)       {}
func (s *v20SubStream) SendMsg(m any) error          { return nil }
func (s *v20SubStream) RecvMsg(m any) error          { return nil }

// VerifRequestsAnsweredWhileStreamsOpen: one client holds a streaming RPC open (param "stream":
// 0 Subscribe, 1 WatchDeviations, 2 a GetData whose consumer does not read); another client sends
// one unary request (any of the handlers that look the datastore up). The request is answered
// without the first client having to go away.
func VerifRequestsAnsweredWhileStreamsOpen() {
	v19Begin()
	ds, model := datastore.VerifNewDatastore()
	v19Fill(model, 1)
	s := v19Server(ds)

	sctx, scancel := v19ClientCtx("10.0.0.1:4242")
	defer scancel()
	streamOver := false
	switch verifrt.Choice("stream", 3) {
	case 0:
		st := &v20SubStream{ctx: sctx}
		req := &sdcpb.SubscribeRequest{Name: "ds", Subscription: []*sdcpb.Subscription{{
			Path:           []*sdcpb.Path{{Elem: []*sdcpb.PathElem{{Name: "interface"}}}},
			DataType:       sdcpb.DataType_CONFIG,
			SampleInterval: uint64(10 * time.Second),
		}}}
		go func() {
			_ = s.Subscribe(req, st)
			streamOver = true
		}()
	case 1:
		st := &v19DevStream{ctx: sctx, cancel: scancel}
		go func() {
			_ = s.WatchDeviations(&sdcpb.WatchDeviationRequest{Name: []string{"ds"}}, st)
			streamOver = true
		}()
	default:
		st := &v19GetStream{ctx: sctx, mode: v19SendStall, at: 1}
		go func() {
			_, _ = v19CallGetData(s, v19GetRequest(1, sdcpb.Encoding_STRING), st)
			streamOver = true
		}()
	}
	verifrt.AwaitQuiescence()
	verifrt.Reach("stream-open")

	ctx, cancel := v19ClientCtx("10.0.0.2:4242")
	defer cancel()
	answered := false
	which := verifrt.Choice("rpc", 3)
	go func() {
		switch which {
		case 0:
			_, _ = s.TransactionConfirm(ctx, &sdcpb.TransactionConfirmRequest{DatastoreName: "ds", TransactionId: "t"})
		case 1:
			_, _ = s.TransactionCancel(ctx, &sdcpb.TransactionCancelRequest{DatastoreName: "ds", TransactionId: "t"})
		default:
			_, _ = s.GetIntent(ctx, &sdcpb.GetIntentRequest{Name: "ds", Intent: "i", Priority: 10})
			// (GetDataStore / ListDataStore render protobuf enums by reflection, which the engine does not execute)
		}
		answered = true
	}()
	verifrt.AwaitQuiescence()
	verifrt.Reach("request-sent")
	verifrt.Assert(answered, "C20-request-answered-while-another-client-streams")

	// the first client leaves: everything ends
	scancel()
	verifrt.AwaitQuiescence()
	verifrt.Reach("stream-closed")
	_ = streamOver
}
