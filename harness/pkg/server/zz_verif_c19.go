//go:build verif

package server

// C19 "streaming RPCs end when their client does", the RPCs whose lifetime is
// managed in package server:
//
//   - the real (*Server).GetData (sender goroutine + ds.Get) with the real
//     (*Datastore).Get and its readers handleGetDataUpdatesSTRING/PROTO/JSON,
//   - the real (*Server).WatchDeviations with the real Datastore.WatchDeviations,
//     StopDeviationsWatch, DeviationMgr and runDeviationUpdate,
//
// against stub server streams. The Server is a struct literal with the two
// fields these handlers use (md, datastores); the Datastore is the assembly of
// package datastore (model cache, generated test schema).

import (
	"context"
	"errors"
	"io"
	"runtime"
	"sync"
	"time"

	sdccache "github.com/sdcio/cache/pkg/cache"
	"github.com/sdcio/data-server/pkg/cache"
	"github.com/sdcio/data-server/pkg/datastore"
	"github.com/sdcio/data-server/pkg/verifrt"
	sdcpb "github.com/sdcio/sdc-protos/sdcpb"
	"google.golang.org/grpc/metadata"
	"google.golang.org/grpc/peer"
	"google.golang.org/protobuf/proto"
)

// ---------------------------------------------------------------- common

// v19Addr is the peer address of a stub client.
type v19Addr string

func (a v19Addr) Network() string { return "tcp" }
func (a v19Addr) String() string  { return string(a) }

// v19PeerCtx stands for peer.NewContext(ctx, p) under the engine, which cannot
// run context.WithValue (internal/reflectlite.TypeOf converts through
// unsafe.Pointer). Keys of package context itself (the cancelCtx lookup of
// context.WithCancel) are answered by the wrapped context; the only other key
// the code under test asks for is grpc's unexported peer key, answered with p.
type v19PeerCtx struct {
	context.Context
	p *peer.Peer
}

func (c v19PeerCtx) Value(key any) any {
	if v := c.Context.Value(key); v != nil {
		return v
	}
	return c.p
}

// v19ClientCtx is the stream context gRPC hands to a handler: cancellable by
// the client, carrying the peer.
func v19ClientCtx(addr string) (context.Context, context.CancelFunc) {
	ctx, cancel := context.WithCancel(context.Background())
	p := &peer.Peer{Addr: v19Addr(addr)}
	if verifrt.Symbolic() {
		return v19PeerCtx{Context: ctx, p: p}, cancel
	}
	return peer.NewContext(ctx, p), cancel
}

// v19Goroutines: goroutines other than the harness goroutine that have not
// finished. Under the engine this is the scheduler's count; in a native replay
// (where verifrt.Goroutines is a constant 0) it is the growth of
// runtime.NumGoroutine over the baseline taken when the harness started, so
// that a leaked goroutine reproduces natively as well.
var v19Baseline int

func v19Begin() {
	if !verifrt.Symbolic() {
		v19Baseline = runtime.NumGoroutine()
	}
}

func v19Goroutines() int {
	if verifrt.Symbolic() {
		return verifrt.Goroutines()
	}
	n := runtime.NumGoroutine() - v19Baseline
	if n < 0 {
		n = 0
	}
	return n
}

var v19ErrTransport = errors.New("rpc error: code = Unavailable desc = transport is closing")

var v19Names = []string{"lo1", "lo10", "ethernet-1/1"}

func v19Bytes(tv *sdcpb.TypedValue) []byte {
	b, err := proto.Marshal(tv)
	if err != nil {
		panic(err)
	}
	return b
}

// v19Fill stores n interfaces in the CONFIG store, each as the running
// configuration holds it: the key leaf /interface[name=..]/name and the leaf
// /interface[name=..]/mtu (2 cache entries per interface).
func v19Fill(model *cache.VerifModelCache, n int) {
	for i := 0; i < n && i < len(v19Names); i++ {
		_ = model.WriteValue(context.Background(), "ds", &sdccache.Opts{Store: sdccache.StoreConfig,
			Path: [][]string{{"interface", v19Names[i], "name"}}},
			v19Bytes(&sdcpb.TypedValue{Value: &sdcpb.TypedValue_StringVal{StringVal: v19Names[i]}}))
		_ = model.WriteValue(context.Background(), "ds", &sdccache.Opts{Store: sdccache.StoreConfig,
			Path: [][]string{{"interface", v19Names[i], "mtu"}}},
			v19Bytes(&sdcpb.TypedValue{Value: &sdcpb.TypedValue_UintVal{UintVal: 1500}}))
	}
}

func v19Server(ds *datastore.Datastore) *Server {
	return &Server{
		md:         &sync.RWMutex{},
		datastores: map[string]*datastore.Datastore{"ds": ds},
	}
}

// ---------------------------------------------------------------- GetData

const (
	v19SendOK      = iota // every Send succeeds (until the context is done)
	v19SendFail           // Send fails from call `at` on: the transport broke, not (yet) the context
	v19SendFailEOF        // same, the error reads "EOF"
	v19SendStall          // call `at` blocks (flow control, client does not read) until the context is done
	v19SendCancel         // the client cancels on receiving message `at`
)

// v19GetStream is the server side of a GetData stream as gRPC presents it.
type v19GetStream struct {
	ctx    context.Context
	cancel context.CancelFunc
	mode   int
	at     int // 1-based Send call the mode refers to

	sends       int
	sent        int
	failed      int
	stalled     int
	over        bool // the handler has returned
	afterReturn int  // Send calls after the handler returned
}

func (s *v19GetStream) Send(r *sdcpb.GetDataResponse) error {
	s.sends++
	if s.over {
		s.afterReturn++
	}
	switch s.mode {
	case v19SendFail, v19SendFailEOF:
		if s.sends >= s.at {
			s.failed++
			if s.mode == v19SendFailEOF {
				return io.EOF
			}
			return v19ErrTransport
		}
	case v19SendStall:
		if s.sends == s.at {
			s.stalled++
			<-s.ctx.Done()
			s.failed++
			return s.ctx.Err()
		}
	}
	if err := s.ctx.Err(); err != nil {
		s.failed++
		return err
	}
	s.sent++
	if s.mode == v19SendCancel && s.sends == s.at {
		s.cancel()
	}
	return nil
}
func (s *v19GetStream) Context() context.Context     { return s.ctx }
func (s *v19GetStream) SetHeader(metadata.MD) error  { return nil }
func (s *v19GetStream) SendHeader(metadata.MD) error { return nil }
func (s *v19GetStream) SetTrailer(metadata.MD)       {}
func (s *v19GetStream) SendMsg(m any) error          { return nil }
func (s *v19GetStream) RecvMsg(m any) error          { return nil }

var _ sdcpb.DataServer_GetDataServer = (*v19GetStream)(nil)

var v19Encodings = []sdcpb.Encoding{sdcpb.Encoding_STRING, sdcpb.Encoding_PROTO, sdcpb.Encoding_JSON, sdcpb.Encoding_JSON_IETF}

// v19GetRequest: CONFIG data of datastore "ds"; path 1 = /interface (all the
// stored entries), path 2 = /interface[name=lo1]/mtu (one entry once more).
func v19GetRequest(paths int, enc sdcpb.Encoding) *sdcpb.GetDataRequest {
	req := &sdcpb.GetDataRequest{
		Name:      "ds",
		Datastore: &sdcpb.DataStore{Type: sdcpb.Type_MAIN},
		DataType:  sdcpb.DataType_CONFIG,
		Encoding:  enc,
		Path:      []*sdcpb.Path{{Elem: []*sdcpb.PathElem{{Name: "interface"}}}},
	}
	if paths >= 2 {
		req.Path = append(req.Path, &sdcpb.Path{Elem: []*sdcpb.PathElem{
			{Name: "interface", Key: map[string]string{"name": "lo1"}}, {Name: "mtu"}}})
	}
	return req
}

// v19Entries: how many cache entries the request reads.
func v19Entries(leaves, paths int) int {
	n := 2 * leaves
	if paths >= 2 && leaves >= 1 {
		n++
	}
	return n
}

// v19Responses: how many responses a complete answer has.
func v19Responses(leaves, paths int, enc sdcpb.Encoding) int {
	switch enc {
	case sdcpb.Encoding_JSON, sdcpb.Encoding_JSON_IETF:
		return 1
	}
	return v19Entries(leaves, paths)
}

func v19PickEncoding() sdcpb.Encoding {
	e := verifrt.Param("enc", -1)
	if e < 0 {
		e = verifrt.Choice("enc", len(v19Encodings))
	}
	return v19Encodings[e]
}

// v19PickMode chooses how the stream behaves. Param "mode": -1 any, else fixed.
func v19PickMode(st *v19GetStream, responses int, modes int) {
	st.mode = verifrt.Param("mode", -1)
	if st.mode < 0 {
		st.mode = verifrt.Choice("mode", modes)
	}
	if st.mode != v19SendOK {
		n := responses
		if n < 1 {
			n = 1
		}
		st.at = 1 + verifrt.Choice("at", n)
	}
}

// v19LeakSuffix names the situation in which the reader goroutine of
// pkg/cache/local.go ReadCh can be left behind: the answer was cut short (the
// client went away before the data was exhausted) and the cache held more
// entries for the request than fit into the ReadCh buffer (capacity = number
// of requested paths).
func v19LeakSuffix(cutShort bool, leaves, paths int) string {
	if cutShort && v19Entries(leaves, paths) > paths {
		return "/answer-cut-short-with-more-entries-than-read-buffer"
	}
	return ""
}

// v19CallGetData runs the handler and hands back a panic instead of dying
// from it, so that the situation can be named.
func v19CallGetData(s *Server, req *sdcpb.GetDataRequest, st *v19GetStream) (err error, panicked bool) {
	defer func() {
		if r := recover(); r != nil {
			panicked = true
		}
	}()
	err = s.GetData(req, st)
	return err, false
}

// v19AssertNoPanic: a panic of the handler crashes the server (nothing in
// pkg/server recovers). Named situation: a JSON answer rendered from a cache
// read that the cancelled context had cut short (list entry without key leaf).
func v19AssertNoPanic(panicked bool, enc sdcpb.Encoding, ctx context.Context) {
	if panicked && ctx.Err() != nil && (enc == sdcpb.Encoding_JSON || enc == sdcpb.Encoding_JSON_IETF) {
		verifrt.Assert(false, "C19-getdata-no-panic/json-rendered-from-read-cut-short-by-cancel")
	}
	verifrt.Assert(!panicked, "C19-getdata-no-panic")
}

// VerifGetData: deterministic scheduler. `leaves` stored interfaces (0..3, each
// its key leaf and its mtu leaf = 2 cache entries), `paths` requested paths
// (1..2), every encoding; the stream (param mode, -1 = any):
// all Sends succeed and the client stays / Send fails from the k-th call on
// (error text with and without "EOF") / the k-th Send stalls until the client
// cancels / the client cancels on receiving the k-th message; additionally the
// client may have cancelled before the call. Whenever the handler cannot know
// that the client is gone (stalled, or transport broken while the context is
// still alive) the harness then cancels the context, as gRPC does.
func VerifGetData() {
	v19Begin()
	leaves := verifrt.Param("leaves", -1) // -1: any of 0..3
	if leaves < 0 {
		leaves = verifrt.Choice("leaves", 4)
	}
	paths := verifrt.Param("paths", -1) // -1: 1 or 2
	if paths < 0 {
		paths = 1 + verifrt.Choice("paths", 2)
	}
	enc := v19PickEncoding()

	ds, model := datastore.VerifNewDatastore()
	v19Fill(model, leaves)
	s := v19Server(ds)
	ctx, cancel := v19ClientCtx("10.0.0.1:4242")
	defer cancel()
	st := &v19GetStream{ctx: ctx, cancel: cancel}
	responses := v19Responses(leaves, paths, enc)
	v19PickMode(st, responses, 5)
	req := v19GetRequest(paths, enc)

	cancelledBefore := false
	if st.mode == v19SendOK && verifrt.Choice("cancel-before-call", 2) == 1 {
		cancel()
		cancelledBefore = true
	}
	// param "txn" = 1: a transaction is in flight on the datastore while the client reads (its
	// device does not answer the Set): the stream still ends with its data or with its client
	var releaseTxn func()
	if verifrt.Param("txn", 0) == 1 {
		releaseTxn = ds.VerifStalledTransaction()
		verifrt.AwaitQuiescence()
		verifrt.Reach("transaction-in-flight")
	}

	returned, panicked := false, false
	var rerr error
	go func() {
		rerr, panicked = v19CallGetData(s, req, st)
		st.over = true
		returned = true
	}()
	verifrt.AwaitQuiescence()
	verifrt.Reach("getdata-driven")
	if !returned {
		// legitimate only while the handler cannot know that the client is gone
		// legitimate only while the handler waits for something that will come: a Send that does
		// not come back (flow control) ends with the client's cancellation; a Send answered io.EOF
		// means gRPC has ended the stream and cancels its context (the stub leaves the context
		// alive a little longer). A Send that fails with any OTHER error (message too large,
		// resource exhausted) leaves the stream and its context alive: nothing else will come,
		// the handler has to get to the end of the data by itself
		verifrt.Assert(st.stalled > 0 || (st.mode == v19SendFailEOF && st.failed > 0 && ctx.Err() == nil), "C19-getdata-returns-when-data-exhausted")
		if st.stalled > 0 {
			verifrt.Reach("send-stalled")
		}
		cancel() // the client gives up / gRPC cancels the context of a broken stream
		verifrt.AwaitQuiescence()
	}
	returnedInTime := returned
	if releaseTxn != nil {
		// the verdict is taken with the transaction still in flight; it is let go only so that
		// the goroutine census below sees the stream's goroutines alone
		releaseTxn()
		verifrt.AwaitQuiescence()
		_ = ds.TransactionConfirm(context.Background(), "stalled")
		verifrt.AwaitQuiescence()
		verifrt.Assert(returnedInTime, "C19-getdata-returns-while-a-transaction-is-in-flight")
	}
	v19AssertNoPanic(panicked, enc, ctx)
	cutShort := rerr != nil
	if st.mode == v19SendOK && !cancelledBefore {
		verifrt.Reach("answer-complete")
		verifrt.Assert(rerr == nil && st.sent == responses, "C19-getdata-undisturbed-answer-complete")
	}
	if st.failed > 0 {
		verifrt.Reach("send-failed")
	}
	sfx := v19LeakSuffix(cutShort, leaves, paths)
	verifrt.Assert(returned, "C19-getdata-returns")
	if returned {
		verifrt.Assert(v19Goroutines() == 0, "C19-getdata-no-goroutine-left"+sfx)
		free := s.md.TryLock()
		verifrt.Assert(free, "C19-getdata-server-lock-released")
		if free {
			s.md.Unlock()
		}
		if st.afterReturn > 0 {
			verifrt.Reach("send-after-handler-returned") // observation, not part of C19
		}
	}
}

// VerifGetDataExplore: interleavings of the producer (Datastore.Get and the
// cache reader), the sender goroutine of Server.GetData and a client that
// cancels at an arbitrary point (a goroutine of its own). Stream modes: all
// Sends succeed / fail from the k-th on / fail with EOF / the k-th stalls.
// GetData runs on the harness goroutine: not returning is a deadlock verdict.
func VerifGetDataExplore() {
	v19Begin()
	leaves := verifrt.Param("leaves", 1)
	paths := verifrt.Param("paths", 1)
	enc := v19PickEncoding()

	ds, model := datastore.VerifNewDatastore()
	v19Fill(model, leaves)
	s := v19Server(ds)
	ctx, cancel := v19ClientCtx("10.0.0.1:4242")
	defer cancel()
	st := &v19GetStream{ctx: ctx, cancel: cancel}
	v19PickMode(st, v19Responses(leaves, paths, enc), 4)
	req := v19GetRequest(paths, enc)

	go func() {
		verifrt.Yield("cancel")
		cancel()
	}()
	rerr, panicked := v19CallGetData(s, req, st)
	st.over = true
	verifrt.Reach("getdata-returned")
	v19AssertNoPanic(panicked, enc, ctx)
	if rerr != nil {
		verifrt.Reach("answer-cut-short")
	} else {
		verifrt.Reach("answer-complete")
	}
	verifrt.AwaitQuiescence()
	sfx := v19LeakSuffix(rerr != nil, leaves, paths)
	verifrt.Assert(v19Goroutines() == 0, "C19-getdata-no-goroutine-left"+sfx)
	free := s.md.TryLock()
	verifrt.Assert(free, "C19-getdata-server-lock-released")
	if free {
		s.md.Unlock()
	}
	if st.afterReturn > 0 {
		// GetData returns Get's error without waiting for its sender goroutine,
		// which may then still call stream.Send once: an observation, C19 only
		// demands that the goroutine ends (checked above)
		verifrt.Reach("send-after-handler-returned")
	}
}

// ---------------------------------------------------------------- WatchDeviations

// v19DevStream is the server side of a WatchDeviations stream.
type v19DevStream struct {
	ctx      context.Context
	cancel   context.CancelFunc
	stallAt  int // 1-based Send call that blocks until the context is done (0 = never)
	cancelAt int // 1-based Send call on whose message the client cancels (0 = never)

	sends       int
	sent        int
	failed      int
	stalled     int
	over        bool // the handler has returned
	afterReturn int  // Send calls after the handler returned
}

func (s *v19DevStream) Send(m *sdcpb.WatchDeviationResponse) error {
	s.sends++
	if s.over {
		s.afterReturn++
	}
	if s.stallAt != 0 && s.sends == s.stallAt {
		s.stalled++
		<-s.ctx.Done()
	}
	if err := s.ctx.Err(); err != nil {
		s.failed++
		return err
	}
	s.sent++
	if s.cancelAt != 0 && s.sends == s.cancelAt {
		s.cancel()
	}
	return nil
}
func (s *v19DevStream) Context() context.Context     { return s.ctx }
func (s *v19DevStream) SetHeader(metadata.MD) error  { return nil }
func (s *v19DevStream) SendHeader(metadata.MD) error { return nil }
func (s *v19DevStream) SetTrailer(metadata.MD)       {}
func (s *v19DevStream) SendMsg(m any) error          { return nil }
func (s *v19DevStream) RecvMsg(m any) error          { return nil }

var _ sdcpb.DataServer_WatchDeviationsServer = (*v19DevStream)(nil)

const v19DevPeriod = 30 * time.Second // the ticker of Datastore.DeviationMgr

// VerifWatchDeviations: `clients` clients (distinct peers) watch datastore
// "ds" (`leaves` interfaces = 2*leaves unhandled CONFIG entries => START +
// 2*leaves UPDATE + END per cycle)
// while the real DeviationMgr runs. Client 0 leaves after `cycles` complete
// deviation cycles (param stall 0), or in the middle of the next one: its k-th
// Send of that cycle stalls until it cancels (stall 1), or it cancels from a
// goroutine of its own racing with that cycle (stall 2, for exploration mode),
// or it cancels on receiving the k-th message of that cycle (stall 3).
// stall -1 = 0, 1 or 3.
// Oracle: its RPC returns, it is deregistered, no cycle that starts after the
// return sends to it, a cycle in flight completes for the other client without
// further time, the other client keeps being served; when everybody has left
// and the datastore is stopped no goroutine is left.
func VerifWatchDeviations() {
	v19Begin()
	clients := verifrt.Param("clients", 2)
	leaves := verifrt.Param("leaves", 1)
	cycles := verifrt.Param("cycles", 1)
	perCycle := 2*leaves + 2

	ds, model := datastore.VerifNewDatastore()
	v19Fill(model, leaves)
	s := v19Server(ds)
	dsCtx, dsStop := context.WithCancel(context.Background())
	defer dsStop()
	go ds.DeviationMgr(dsCtx)

	req := &sdcpb.WatchDeviationRequest{Name: []string{"ds"}}
	sts := make([]*v19DevStream, clients)
	cancels := make([]context.CancelFunc, clients)
	for i := 0; i < clients; i++ {
		ctx, cancel := v19ClientCtx("10.0.0." + string(rune('1'+i)) + ":4242")
		defer cancel()
		st := &v19DevStream{ctx: ctx, cancel: cancel}
		sts[i], cancels[i] = st, cancel
		go func() {
			_ = s.WatchDeviations(req, st)
			st.over = true
		}()
	}
	stall := verifrt.Param("stall", -1)
	if stall < 0 {
		stall = []int{0, 1, 3}[verifrt.Choice("stall", 3)]
	}
	switch stall {
	case 1:
		sts[0].stallAt = cycles*perCycle + 1 + verifrt.Choice("stall-at", perCycle)
	case 3:
		sts[0].cancelAt = cycles*perCycle + 1 + verifrt.Choice("cancel-at", perCycle)
	case 4:
		// ANOTHER client (1) is the stalled consumer; client 0 is healthy and simply leaves
		sts[1].stallAt = cycles*perCycle + 1 + verifrt.Choice("stall-at", perCycle)
	}
	verifrt.AwaitQuiescence()
	verifrt.Assert(ds.VerifDeviationClients() == clients, "C19-watchdeviations-registered")
	verifrt.Reach("registered")
	for c := 1; c <= cycles; c++ {
		verifrt.Advance(v19DevPeriod)
		verifrt.AwaitQuiescence()
		verifrt.Reach("cycle-done")
		for _, st := range sts {
			verifrt.Assert(st.sent == c*perCycle, "C19-watchdeviations-cycle-delivered")
		}
	}
	for _, st := range sts {
		verifrt.Assert(!st.over, "C19-watchdeviations-stays-while-client-stays")
	}
	inFlight := false
	switch stall {
	case 1:
		verifrt.Advance(v19DevPeriod)
		verifrt.AwaitQuiescence()
		inFlight = sts[0].stalled > 0
		if inFlight {
			verifrt.Reach("cycle-in-flight-at-cancel")
		}
	case 3:
		verifrt.Advance(v19DevPeriod)
		verifrt.AwaitQuiescence()
		inFlight = sts[0].sends >= sts[0].cancelAt
		if inFlight {
			verifrt.Reach("cycle-in-flight-at-cancel")
		}
	case 2:
		// exploration: the client cancels from a goroutine of its own while the
		// next cycle runs (before, in the middle of, or after it)
		go func() {
			verifrt.Yield("cancel")
			cancels[0]()
		}()
		verifrt.Advance(v19DevPeriod)
		verifrt.AwaitQuiescence()
		inFlight = true
		if sts[0].failed > 0 {
			verifrt.Reach("cycle-in-flight-at-cancel")
		}
	}

	if stall == 4 {
		verifrt.Advance(v19DevPeriod)
		verifrt.AwaitQuiescence()
		verifrt.Assert(sts[1].stalled > 0, "C19-watchdeviations-other-client-stalled")
		verifrt.Reach("other-client-stalled")
		// client 0 leaves while the cycle is stuck in the Send to client 1: its RPC ends with
		// its client, it does not have to wait for the stalled peer
		cancels[0]()
		verifrt.AwaitQuiescence()
		verifrt.Reach("client-left")
		verifrt.Assert(sts[0].over, "C19-watchdeviations-returns-despite-stalled-peer")
		verifrt.Assert(ds.VerifDeviationClients() == clients-1, "C19-watchdeviations-deregistered")
		for _, cancel := range cancels[1:] {
			cancel()
		}
		dsStop()
		verifrt.AwaitQuiescence()
		for _, st := range sts {
			verifrt.Assert(st.over, "C19-watchdeviations-returns")
		}
		verifrt.Assert(v19Goroutines() == 0, "C19-watchdeviations-no-goroutine-left")
		return
	}

	// client 0 leaves
	cancels[0]()
	verifrt.AwaitQuiescence()
	verifrt.Reach("client-left")
	verifrt.Assert(sts[0].over, "C19-watchdeviations-returns")
	verifrt.Assert(ds.VerifDeviationClients() == clients-1, "C19-watchdeviations-deregistered")
	if inFlight {
		// The cycle that was in flight when the client left works on a copy of
		// the client map: it goes on calling Send on the stream of the handler
		// that has returned (every call fails). The property does not forbid
		// that; it is recorded as an observation. What it does demand: the
		// departed (stalled, cancelled) client does not hold up the cycle - the
		// other clients have their complete cycle without any further time.
		if sts[0].afterReturn > 0 {
			verifrt.Reach("send-after-handler-returned-by-cycle-in-flight")
		}
		for _, st := range sts[1:] {
			verifrt.Assert(st.failed == 0 && st.sent == (cycles+1)*perCycle, "C19-watchdeviations-cycle-in-flight-completes-after-cancel")
		}
	} else {
		verifrt.Assert(sts[0].afterReturn == 0, "C19-watchdeviations-no-send-after-return")
	}
	n0 := sts[0].sends
	verifrt.Advance(v19DevPeriod)
	verifrt.AwaitQuiescence()
	verifrt.Reach("cycle-after-leave")
	// a cycle that starts after the handler returned does not know the client
	verifrt.Assert(sts[0].sends == n0, "C19-watchdeviations-no-send-after-return")
	for _, st := range sts[1:] {
		verifrt.Assert(!st.over && st.failed == 0 && st.sent%perCycle == 0 && st.sent >= (cycles+1)*perCycle, "C19-watchdeviations-other-client-still-served")
	}

	// everybody leaves, the datastore stops
	for _, cancel := range cancels[1:] {
		cancel()
	}
	dsStop()
	verifrt.AwaitQuiescence()
	for _, st := range sts {
		verifrt.Assert(st.over, "C19-watchdeviations-returns")
	}
	verifrt.Assert(ds.VerifDeviationClients() == 0, "C19-watchdeviations-deregistered")
	verifrt.Assert(v19Goroutines() == 0, "C19-watchdeviations-no-goroutine-left")
}
