//go:build verif

package cache

// Model of github.com/sdcio/cache/pkg/cache.Cache (v0.0.35) as data-server
// uses it, transcribed from cacheInstance{Read,Write,Prune}.go and
// store/impl_badgerdb.go (see /verif/DESIGN.md Appendix A). localCache
// (local.go) runs as real code on top of it.

import (
	"context"
	"errors"
	"strings"
	"time"

	"github.com/sdcio/cache/pkg/cache"
)

const vDelim = ","

// VEntry is one stored entry.
type VEntry struct {
	Path  []string
	Key   string // strings.Join(Path, ",")
	Prio  int32  // intended only
	Owner string // intended only
	Ts    uint64
	Val   []byte
	Prune uint64 // config/state: prune index the entry was last written in
}

type VerifModelCache struct {
	Intended []*VEntry // kept in store key order: (Key+",", Prio, Owner, Ts)
	Config   []*VEntry // kept in key order
	State    []*VEntry
	Clock    uint64
	PruneIdx uint64

	// IdealReads: intended reads with Priority 0 return the entries of ALL intents below the
	// requested paths (limited to the PriorityCount best priorities per path when
	// PriorityCount > 0) instead of what sdcio/cache v0.0.35 really answers (best priority
	// only, scan stops at the first rejected key). Used by harness variants that check the
	// callers' logic under the contract they were evidently written against.
	IdealReads bool

	Calls  int
	FailAt int // 1-based index of the collaborator call that fails once (0 = never)
	Log    []string
}

var ErrVerifInjected = errors.New("verif: injected cache failure")

func NewVerifModelCache() *VerifModelCache { return &VerifModelCache{Clock: 1000} }

// NewVerifLocalCache returns the real localCache client over the model.
func NewVerifLocalCache(m *VerifModelCache) Client { return &localCache{c: m} }

func (m *VerifModelCache) fault(op string) error {
	m.Calls++
	if m.FailAt != 0 && m.Calls == m.FailAt {
		m.Log = append(m.Log, "FAIL "+op)
		return ErrVerifInjected
	}
	return nil
}

func (m *VerifModelCache) bucket(s cache.Store) *[]*VEntry {
	switch s {
	case cache.StoreState:
		return &m.State
	case cache.StoreIntended:
		return &m.Intended
	}
	return &m.Config
}

// less orders entries as the store orders keys. For the intended bucket the
// key is Key + "," + BE32(prio) + owner + BE16(len owner) + BE64(ts); since the
// byte after the path is 0x00 for priorities < 2^24, an entry of path P sorts
// before every entry of a path extending P.
func vLess(a, b *VEntry, intended bool) bool {
	if !intended {
		return a.Key < b.Key
	}
	ka, kb := a.Key+vDelim, b.Key+vDelim
	if ka != kb {
		if strings.HasPrefix(kb, ka) {
			return true
		}
		if strings.HasPrefix(ka, kb) {
			return false
		}
		return ka < kb
	}
	if a.Prio != b.Prio {
		return a.Prio < b.Prio
	}
	if a.Owner != b.Owner {
		return a.Owner < b.Owner
	}
	return a.Ts < b.Ts
}

func vInsert(b *[]*VEntry, e *VEntry, intended bool) {
	// first position whose entry sorts after e (the bucket is sorted: binary search)
	i, j := 0, len(*b)
	for i < j {
		h := (i + j) / 2
		if vLess(e, (*b)[h], intended) {
			j = h
		} else {
			i = h + 1
		}
	}
	*b = append(*b, nil)
	copy((*b)[i+1:], (*b)[i:])
	(*b)[i] = e
}

func vNormPrio(p int32) int32 {
	if p == 0 {
		return 2147483647
	}
	return p
}

// ---- the methods data-server uses

func (m *VerifModelCache) WriteValue(ctx context.Context, name string, wo *cache.Opts, vb []byte) error {
	if err := m.fault("WriteValue"); err != nil {
		return err
	}
	if len(wo.Path) != 1 {
		return errors.New("only one path is allowed in writeValue")
	}
	p := wo.Path[0]
	m.Clock++
	e := &VEntry{Path: append([]string{}, p...), Key: strings.Join(p, vDelim), Ts: m.Clock, Val: vb}
	switch wo.Store {
	case cache.StoreIntended:
		e.Prio = vNormPrio(wo.Priority)
		e.Owner = wo.Owner
		// the library appends: an existing entry with the same (path, priority, owner) stays
		vInsert(&m.Intended, e, true)
	default:
		b := m.bucket(wo.Store)
		e.Prune = m.PruneIdx
		for i, x := range *b {
			if x.Key == e.Key {
				(*b)[i] = e
				return nil
			}
		}
		vInsert(b, e, false)
	}
	return nil
}

func (m *VerifModelCache) DeletePrefix(ctx context.Context, name string, wo *cache.Opts) error {
	if err := m.fault("DeletePrefix"); err != nil {
		return err
	}
	for _, p := range wo.Path {
		key := strings.Join(p, vDelim)
		switch wo.Store {
		case cache.StoreIntended:
			prio := vNormPrio(wo.Priority)
			out := m.Intended[:0:0]
			for _, x := range m.Intended {
				// exact path, priority and owner; every timestamp
				if x.Key == key && x.Prio == prio && x.Owner == wo.Owner {
					continue
				}
				out = append(out, x)
			}
			m.Intended = out
		default:
			b := m.bucket(wo.Store)
			out := (*b)[:0:0]
			for _, x := range *b {
				// byte prefix of the joined key, no trailing delimiter
				if strings.HasPrefix(x.Key, key) {
					continue
				}
				out = append(out, x)
			}
			*b = out
		}
	}
	return nil
}

func vToEntry(x *VEntry, withValue bool) *cache.Entry {
	e := &cache.Entry{Timestamp: x.Ts, Owner: x.Owner, Priority: x.Prio, P: append([]string{}, x.Path...)}
	if withValue {
		e.V = x.Val
	}
	return e
}

func (m *VerifModelCache) ReadValue(ctx context.Context, name string, ro *cache.Opts) (chan *cache.Entry, error) {
	if err := m.fault("ReadValue"); err != nil {
		return nil, err
	}
	var res []*cache.Entry
	switch ro.Store {
	case cache.StoreIntended:
		for _, p := range ro.Path {
			prefix := strings.Join(p, vDelim) + vDelim
			switch {
			case ro.Priority > 0:
				for _, x := range m.Intended {
					if x.Key+vDelim != prefix || x.Prio != ro.Priority {
						continue
					}
					if ro.Owner != "" && x.Owner != ro.Owner {
						continue
					}
					res = append(res, vToEntry(x, true))
				}
			case ro.Priority < 0:
				for _, x := range m.Intended {
					if strings.HasPrefix(x.Key+vDelim, prefix) {
						res = append(res, vToEntry(x, true))
					}
				}
			case m.IdealReads:
				for _, x := range m.Intended {
					if !strings.HasPrefix(x.Key+vDelim, prefix) {
						continue
					}
					if ro.PriorityCount > 0 {
						// x is among the PriorityCount best priorities of its path?
						better := map[int32]bool{}
						for _, y := range m.Intended {
							if y.Key == x.Key && y.Prio < x.Prio {
								better[y.Prio] = true
							}
						}
						if len(better) >= int(int32(ro.PriorityCount)) {
							continue
						}
					}
					res = append(res, vToEntry(x, true))
				}
			default:
				// highest priorities per entry path, owner ignored; the iteration over
				// this requested prefix stops at the first rejected key
				type seen struct {
					key   string
					prios []int32
				}
				var readPaths []*seen
				for _, x := range m.Intended {
					if !strings.HasPrefix(x.Key+vDelim, prefix) {
						continue
					}
					var sp *seen
					for _, s := range readPaths {
						if s.key == x.Key {
							sp = s
						}
					}
					accept := false
					if sp == nil {
						readPaths = append(readPaths, &seen{key: x.Key, prios: []int32{x.Prio}})
						accept = true
					} else {
						known := false
						for _, pr := range sp.prios {
							if pr == x.Prio {
								known = true
							}
						}
						if known {
							accept = true
						} else if len(sp.prios) >= int(int32(ro.PriorityCount)) {
							accept = false
						} else {
							sp.prios = append(sp.prios, x.Prio)
							accept = true
						}
					}
					if !accept {
						break
					}
					res = append(res, vToEntry(x, true))
				}
			}
		}
	default:
		b := m.bucket(ro.Store)
		for _, p := range ro.Path {
			key := strings.Join(p, vDelim)
			for _, x := range *b {
				if strings.HasPrefix(x.Key, key) {
					e := &cache.Entry{P: strings.Split(x.Key, vDelim), V: x.Val}
					res = append(res, e)
				}
			}
		}
	}
	ch := make(chan *cache.Entry, len(res))
	for _, e := range res {
		ch <- e
	}
	close(ch)
	return ch, nil
}

func (m *VerifModelCache) ReadKeys(ctx context.Context, name string, store cache.Store) (chan *cache.Entry, error) {
	if err := m.fault("ReadKeys"); err != nil {
		return nil, err
	}
	b := m.bucket(store)
	ch := make(chan *cache.Entry, len(*b))
	for _, x := range *b {
		if store == cache.StoreIntended {
			ch <- vToEntry(x, false)
		} else {
			ch <- &cache.Entry{P: strings.Split(x.Key, vDelim), V: x.Val}
		}
	}
	close(ch)
	return ch, nil
}

func (m *VerifModelCache) CreatePruneID(ctx context.Context, name string, force bool) (string, error) {
	if err := m.fault("CreatePruneID"); err != nil {
		return "", err
	}
	m.PruneIdx++
	return "prune", nil
}

func (m *VerifModelCache) ApplyPrune(ctx context.Context, name, id string) error {
	if err := m.fault("ApplyPrune"); err != nil {
		return err
	}
	for _, b := range []*[]*VEntry{&m.Config, &m.State} {
		out := (*b)[:0:0]
		for _, x := range *b {
			if x.Prune < m.PruneIdx {
				continue
			}
			out = append(out, x)
		}
		*b = out
	}
	return nil
}

// ---- unused parts of the interface

func (m *VerifModelCache) Init(ctx context.Context) error  { return nil }
func (m *VerifModelCache) List(ctx context.Context) []string { return []string{"ds"} }
func (m *VerifModelCache) Create(ctx context.Context, cfg *cache.CacheInstanceConfig) error {
	return nil
}
func (m *VerifModelCache) GetDetails(ctx context.Context, name string) (*cache.CacheInstanceConfig, error) {
	return nil, errors.New("verif: not modelled")
}
func (m *VerifModelCache) Delete(ctx context.Context, name string) error { return nil }
func (m *VerifModelCache) Exists(ctx context.Context, name string) bool  { return true }
func (m *VerifModelCache) Clone(ctx context.Context, name, cname string) (string, error) {
	return "", errors.New("verif: not modelled")
}
func (m *VerifModelCache) CreateCandidate(ctx context.Context, name, candidate, owner string, priority int32) (string, error) {
	return "", errors.New("verif: not modelled")
}
func (m *VerifModelCache) GetCandidate(ctx context.Context, name, cname string) (*cache.CandidateDetails, error) {
	return nil, errors.New("verif: not modelled")
}
func (m *VerifModelCache) Candidates(ctx context.Context, name string) ([]*cache.CandidateDetails, error) {
	return nil, nil
}
func (m *VerifModelCache) ReadValuePeriodic(ctx context.Context, name string, ro *cache.Opts, period time.Duration) (chan *cache.Entry, error) {
	return nil, errors.New("verif: not modelled")
}
func (m *VerifModelCache) DeleteValue(ctx context.Context, name string, wo *cache.Opts) error {
	return errors.New("verif: not modelled")
}
func (m *VerifModelCache) Diff(ctx context.Context, name, candidate string) ([][]string, []*cache.Entry, error) {
	return nil, nil, errors.New("verif: not modelled")
}
func (m *VerifModelCache) Discard(ctx context.Context, name, candidate string) error {
	return errors.New("verif: not modelled")
}
func (m *VerifModelCache) Close() error { return nil }
func (m *VerifModelCache) Commit(ctx context.Context, name, candidate string) error {
	return errors.New("verif: not modelled")
}
func (m *VerifModelCache) Clear(ctx context.Context, name string) error { return nil }
func (m *VerifModelCache) NumInstances() int                           { return 1 }
func (m *VerifModelCache) Watch(ctx context.Context, name string, store cache.Store, prefixes [][]string) (chan *cache.Entry, error) {
	return nil, errors.New("verif: not modelled")
}
func (m *VerifModelCache) Stats(ctx context.Context, name string, withKeyCount bool) (*cache.StatsResponse, error) {
	return nil, errors.New("verif: not modelled")
}
