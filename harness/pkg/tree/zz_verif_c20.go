//go:build verif

package tree

// C20 - no request or device message crashes the server: the configuration
// importers. A decoded JSON document (any tree) / a parsed XML document
// (*etree.Element tree) of arbitrary shape over the test schema is fed through
// the real importer adapters to the real (*RootEntry).ImportConfig. Nothing is
// asserted: a panic or hang on any path is the violation.

import (
	"context"

	"github.com/beevik/etree"

	"github.com/sdcio/data-server/pkg/cache"
	schemaClient "github.com/sdcio/data-server/pkg/datastore/clients/schema"
	jsonImporter "github.com/sdcio/data-server/pkg/tree/importer/json"
	xmlImporter "github.com/sdcio/data-server/pkg/tree/importer/xml"
	"github.com/sdcio/data-server/pkg/verifrt"
	"github.com/sdcio/data-server/pkg/verifschema"
	sdcpb "github.com/sdcio/sdc-protos/sdcpb"
)

// vc20Root: a fresh tree root over the generated test schema and an empty
// model cache.
func vc20Root(ctx context.Context) *RootEntry {
	scb := schemaClient.NewSchemaClientBound(&sdcpb.Schema{Name: "testschema", Vendor: "sdcio", Version: "v0.0.0"}, &verifschema.Client{})
	cc := cache.NewVerifLocalCache(cache.NewVerifModelCache())
	tc := NewTreeContext(NewTreeCacheClient("ds", cc), scb, "ds")
	root, err := NewTreeRoot(ctx, tc)
	if err != nil {
		panic("verif: NewTreeRoot: " + err.Error())
	}
	return root
}

// vc20Owner: imported as running configuration, or (param owners=2) also as an
// intent - the only difference is the "new" flag of the leaf entries.
func vc20Owner() (string, int32) {
	if verifrt.Param("owners", 1) == 2 && verifrt.Choice("asIntent", 2) == 1 {
		return "intent1", int32(10)
	}
	return RunningIntentName, RunningValuesPrio
}

// vc20After: what every caller does with a successfully imported tree.
func vc20After(ctx context.Context, root *RootEntry) {
	root.FinishInsertionPhase(ctx)
	_ = root.GetHighestPrecedence(false)
	_ = root.String()
}

// vc20ValAlphabet: what matters to the numeric / boolean / identityref
// conversions plus a letter.
const vc20ValAlphabet = "019-.:ae"

func vc20Str(tag string) string {
	return verifrt.String(tag, verifrt.Param("valLen", 3), vc20ValAlphabet)
}

// ---------------------------------------------------------------------------
// JSON

// vc20jAny: every kind encoding/json decodes into, as the value of a member.
func vc20jAny(tag string) any {
	switch verifrt.Choice(tag+".kind", 8) {
	case 0:
		return nil
	case 1:
		return verifrt.Bool(tag + ".b")
	case 2:
		return []float64{1.5, -1, 1e19}[verifrt.Choice(tag+".f", 3)]
	case 3:
		return vc20Str(tag + ".s")
	case 4:
		return []any{}
	case 5:
		return []any{vc20Str(tag + ".e0"), nil}
	case 6:
		return map[string]any{}
	default:
		return map[string]any{"a": vc20Str(tag + ".m")}
	}
}

// vc20jName: a member name as written, as JSON_IETF writes it (module:name),
// with a foreign / empty prefix.
func vc20jName(tag, name, module string) string {
	switch verifrt.Choice(tag+".prefix", 4) {
	case 0:
		return name
	case 1:
		return module + ":" + name
	case 2:
		return "x:" + name
	default:
		return ":" + name
	}
}

// vc20Vary: a list entry has two independent aspects, its key members and its
// body. With param wide=0 one of them varies while the other is fixed (the body
// is only looked at once every key was found, and the key's shape only decides
// the name of the entry); with wide=1 both vary together.
// Returns (key varies, body varies).
func vc20Vary(tag string) (bool, bool) {
	if verifrt.Param("wide", 0) == 1 {
		return true, true
	}
	if verifrt.Choice(tag+".vary", 2) == 0 {
		return true, false
	}
	return false, true
}

// vc20jKey puts the key member into a list entry - or not.
func vc20jKey(tag string, vary bool, entry map[string]any, key, module string) {
	if !vary {
		entry[key] = "lo1"
		return
	}
	switch verifrt.Choice(tag+".key", 7) {
	case 0: // absent
	case 1:
		entry[key] = vc20Str(tag + ".keyval")
	case 2:
		entry[module+":"+key] = vc20Str(tag + ".keyval")
	case 3:
		entry[key] = float64(1)
	case 4:
		entry[key] = nil
	case 5:
		entry[key] = map[string]any{"a": "b"}
	default:
		entry[key] = []any{"lo1", "lo2"}
	}
}

// vc20jList: a list given as an array of 0-2 entries, as a single object, as a
// scalar, as nil, or as an array holding something that is no object.
func vc20jList(tag string, mk func(tag string) map[string]any) any {
	switch verifrt.Choice(tag+".list", 8) {
	case 0:
		return []any{mk(tag + ".e0")}
	case 1:
		return []any{map[string]any{"name": "lo1", "index": float64(1), "key1": "lo1", "key2": "k2", "mtu": float64(9000)}, mk(tag + ".e0")}
	case 2:
		return mk(tag + ".e0") // object instead of array
	case 3:
		return []any{}
	case 4:
		return nil
	case 5:
		return vc20Str(tag + ".scalar")
	case 6:
		return []any{nil, "x", float64(1)}
	default:
		return []any{[]any{mk(tag + ".e0")}} // array in array
	}
}

func vc20jSubinterface(tag string) map[string]any {
	e := map[string]any{}
	vk, vb := vc20Vary(tag)
	vc20jKey(tag, vk, e, "index", "sdcio_model_if")
	if !vb {
		e["description"] = "d"
		return e
	}
	switch verifrt.Choice(tag+".body", 4) {
	case 1:
		e["type"] = vc20jAny(tag + ".type") // identityref
	case 2:
		e["description"] = vc20jAny(tag + ".description")
	case 3:
		e["nosuch"] = vc20jAny(tag + ".nosuch")
	}
	return e
}

func vc20jInterface(tag string) map[string]any {
	e := map[string]any{}
	vk, vb := vc20Vary(tag)
	vc20jKey(tag, vk, e, "name", "sdcio_model_if")
	if !vb {
		e["mtu"] = float64(1500)
		return e
	}
	switch verifrt.Choice(tag+".body", 7) {
	case 1:
		e["mtu"] = vc20jAny(tag + ".mtu") // uint16
	case 2:
		e["description"] = vc20jAny(tag + ".description") // string 1..255
	case 3:
		e["admin-state"] = vc20jAny(tag + ".admin-state") // enumeration
	case 4:
		e["subinterface"] = vc20jList(tag+".sub", vc20jSubinterface)
	case 5:
		e[vc20jName(tag+".mtu", "mtu", "sdcio_model_if")] = float64(1500)
		e["description"] = vc20Str(tag + ".description")
	case 6:
		e["nosuch"] = vc20jAny(tag + ".nosuch")
	}
	return e
}

func vc20jDoublekey(tag string) map[string]any {
	e := map[string]any{}
	vk, vb := vc20Vary(tag)
	vc20jKey(tag+".k1", vk, e, "key1", "sdcio_model_doublekey")
	vc20jKey(tag+".k2", vk, e, "key2", "sdcio_model_doublekey")
	if !vb {
		e["mandato"] = "m"
		return e
	}
	switch verifrt.Choice(tag+".body", 4) {
	case 1:
		e["mandato"] = vc20jAny(tag + ".mandato")
	case 2:
		e["cont"] = vc20jAny(tag + ".cont") // a container given as anything
	case 3:
		e["cont"] = map[string]any{"value1": vc20jAny(tag + ".value1"), "value2": "x"}
	}
	return e
}

// vc20jDoc: the decoded document.
func vc20jDoc() any {
	switch verifrt.Choice("focus", 10) {
	case 0: // the document is no object
		switch verifrt.Choice("root", 4) {
		case 0:
			return nil
		case 1:
			return vc20Str("root.s")
		case 2:
			return float64(1)
		default:
			return []any{map[string]any{"interface": []any{map[string]any{"name": "lo1"}}}}
		}
	case 1:
		return map[string]any{vc20jName("if", "interface", "sdcio_model_if"): []any{vc20jInterface("if.e0")}}
	case 2:
		return map[string]any{"interface": vc20jList("if", vc20jInterface)}
	case 3:
		return map[string]any{"doublekey": vc20jList("dk", vc20jDoublekey)}
	case 4: // leaf-list below a container
		var ll any
		switch verifrt.Choice("ll", 8) {
		case 0:
			ll = []any{vc20Str("ll.e0"), vc20Str("ll.e1")}
		case 1:
			ll = vc20Str("ll.scalar") // leaf-list given as a scalar
		case 2:
			ll = nil
		case 3:
			ll = []any{}
		case 4:
			ll = []any{nil, true, float64(1)}
		case 5:
			ll = []any{map[string]any{"a": "b"}}
		case 6:
			ll = map[string]any{"a": "b"}
		default:
			ll = []any{[]any{"x"}}
		}
		switch verifrt.Choice("llc", 3) {
		case 0:
			return map[string]any{"leaflist": map[string]any{vc20jName("ll.entry", "entry", "sdcio_model_leaflist"): ll}}
		case 1:
			return map[string]any{"leaflist": ll} // the container itself given as that
		default:
			return map[string]any{"rangetestLeaflist": ll} // top-level leaf-list of uint32
		}
	case 5: // choice / case, presence container
		var c any
		switch verifrt.Choice("ch", 6) {
		case 0:
			c = map[string]any{"case1": map[string]any{"case-elem": map[string]any{"elem": vc20jAny("ch.elem")}}}
		case 1:
			c = map[string]any{"case1": vc20jAny("ch.case1")} // presence container given as anything
		case 2:
			c = map[string]any{"case1": map[string]any{"log": vc20jAny("ch.log")}, "case2": map[string]any{"log": vc20jAny("ch.log2")}}
		case 3:
			c = map[string]any{"case1": map[string]any{"case-elem": vc20jAny("ch.case-elem")}}
		case 4:
			c = vc20jAny("ch.choices")
		default:
			c = map[string]any{"case2": []any{map[string]any{"log": true}}}
		}
		return map[string]any{"choices": c}
	case 6: // top-level leaves of every type given as anything
		names := []string{"emptyconf", "patterntest", "rangetestsigned", "rangetestunsigned"}
		n := names[verifrt.Choice("leaf", len(names))]
		return map[string]any{n: vc20jAny("leaf.v")}
	case 7: // names the schema does not know
		switch verifrt.Choice("unknown", 5) {
		case 0:
			return map[string]any{"nosuch": vc20jAny("unk.v")}
		case 1:
			return map[string]any{"": vc20jAny("unk.v")}
		case 2:
			return map[string]any{"a:b:c": "x"}
		case 3:
			return map[string]any{"sdcio_model": map[string]any{"interface": []any{map[string]any{"name": "lo1"}}}} // a module name is a schema entry
		default:
			return map[string]any{verifrt.String("unk.name", 3, ":ab"): vc20jAny("unk.v")}
		}
	case 8: // two members, second one after a valid first
		return map[string]any{
			"interface": []any{map[string]any{"name": "lo1", "mtu": float64(1500)}, vc20jInterface("if.e1")},
			"leaflist":  map[string]any{"entry": []any{"a", vc20Str("ll.e1")}},
		}
	default: // network-instance: identityref, nested containers, leafref
		ni := map[string]any{}
		vk, vb := vc20Vary("ni")
		vc20jKey("ni", vk, ni, "name", "sdcio_model_ni")
		if !vb {
			ni["description"] = "d"
			return map[string]any{"network-instance": []any{ni}}
		}
		switch verifrt.Choice("ni.body", 5) {
		case 0:
			ni["type"] = vc20jAny("ni.type")
		case 1:
			ni["protocol"] = map[string]any{"bgp": vc20jAny("ni.bgp")}
		case 2:
			ni["protocol"] = vc20jAny("ni.protocol")
		case 3:
			ni["interface"] = []any{map[string]any{"name": vc20jAny("ni.ifname")}}
		default:
			ni["protocol"] = map[string]any{"bgp": map[string]any{"autonomous-system": vc20jAny("ni.as"), "router-id": vc20jAny("ni.rid")}}
		}
		return map[string]any{"network-instance": []any{ni}}
	}
}

// VerifNoPanic_JsonImportConfig: NewJsonTreeImporter(decoded document) through
// ImportConfig, as running configuration or as an intent.
func VerifNoPanic_JsonImportConfig() {
	ctx := context.Background()
	root := vc20Root(ctx)
	doc := vc20jDoc()
	owner, prio := vc20Owner()
	verifrt.Reach("built")
	err := root.ImportConfig(ctx, jsonImporter.NewJsonTreeImporter(doc), owner, prio)
	verifrt.Reach("returned")
	if err != nil {
		return
	}
	verifrt.Reach("imported")
	vc20After(ctx, root)
}

// ---------------------------------------------------------------------------
// XML

// vc20xLeaf adds <name>text</name> with arbitrary short text, empty text, an
// attribute, or child elements where text is expected.
func vc20xLeaf(tag string, parent *etree.Element, name string) {
	e := parent.CreateElement(name)
	switch verifrt.Choice(tag+".text", 5) {
	case 0: // <name/>
	case 1:
		e.SetText(vc20Str(tag + ".s"))
	case 2:
		e.SetText(" " + vc20Str(tag+".s") + "\n")
	case 3:
		e.CreateAttr("operation", "delete")
		e.CreateAttr("xmlns", "urn:x")
		e.SetText(vc20Str(tag + ".s"))
	default:
		e.CreateElement("a").SetText("b") // element content in a leaf
		e.CreateText(vc20Str(tag + ".s"))
	}
}

// vc20xKey adds the key child element - or not, or twice, or empty, or with a
// namespace prefix.
func vc20xKey(tag string, vary bool, entry *etree.Element, key string) {
	if !vary {
		entry.CreateElement(key).SetText("lo1")
		return
	}
	switch verifrt.Choice(tag+".key", 6) {
	case 0: // absent
	case 1:
		entry.CreateElement(key).SetText(vc20Str(tag + ".keyval"))
	case 2:
		entry.CreateElement(key) // <key/>
	case 3:
		entry.CreateElement(key).SetText(vc20Str(tag + ".keyval"))
		entry.CreateElement(key).SetText("lo2")
	case 4:
		entry.CreateElement("p:" + key).SetText(vc20Str(tag + ".keyval")) // Space p, Tag key
	default:
		entry.CreateElement(key).CreateElement("a").SetText("lo1")
	}
}

func vc20xInterface(tag string, parent *etree.Element) {
	e := parent.CreateElement("interface")
	vk, vb := vc20Vary(tag)
	body := 6
	if vb {
		body = verifrt.Choice(tag+".body", 7)
	}
	if body == 6 {
		// key after the other children
		e.CreateElement("mtu").SetText("1500")
	}
	vc20xKey(tag, vk, e, "name")
	switch body {
	case 1:
		vc20xLeaf(tag+".mtu", e, "mtu")
	case 2:
		vc20xLeaf(tag+".description", e, "description")
		vc20xLeaf(tag+".admin-state", e, "admin-state")
	case 3:
		s := e.CreateElement("subinterface")
		svk, svb := vc20Vary(tag + ".sub")
		vc20xKey(tag+".sub", svk, s, "index")
		if svb {
			vc20xLeaf(tag+".sub.type", s, "type")
		}
	case 4:
		vc20xLeaf(tag+".nosuch", e, "nosuch")
	case 5:
		e.CreateText("text in a list entry")
		e.CreateComment("c")
	}
}

func vc20xDoc() *etree.Element {
	doc := etree.NewDocument()
	root := &doc.Element
	switch verifrt.Choice("focus", 8) {
	case 0: // empty document
	case 1:
		vc20xInterface("if.e0", root)
	case 2:
		root.CreateElement("interface").CreateElement("name").SetText("lo1")
		vc20xInterface("if.e0", root) // a second entry, possibly the same one again
	case 3:
		e := root.CreateElement("doublekey")
		vk, vb := vc20Vary("dk")
		vc20xKey("dk.k1", vk, e, "key1")
		vc20xKey("dk.k2", vk, e, "key2")
		if !vb {
			break
		}
		switch verifrt.Choice("dk.body", 3) {
		case 1:
			vc20xLeaf("dk.mandato", e, "mandato")
		case 2:
			vc20xLeaf("dk.cont", e, "cont") // container with text
		}
	case 4:
		var ll *etree.Element
		switch verifrt.Choice("llc", 3) {
		case 0:
			ll = root.CreateElement("leaflist")
		case 1:
			ll = root // <entry> at top level: unknown there
		default:
			vc20xLeaf("ll.top0", root, "rangetestLeaflist")
			vc20xLeaf("ll.top1", root, "rangetestLeaflist")
			return root
		}
		switch verifrt.Choice("ll", 3) {
		case 0:
		case 1:
			vc20xLeaf("ll.e0", ll, "entry")
		default:
			vc20xLeaf("ll.e0", ll, "entry")
			vc20xLeaf("ll.e1", ll, "entry")
		}
	case 5:
		c := root.CreateElement("choices")
		switch verifrt.Choice("ch", 4) {
		case 0:
			c.CreateElement("case1") // presence
		case 1:
			vc20xLeaf("ch.case1", c, "case1")
		case 2:
			vc20xLeaf("ch.elem", c.CreateElement("case1").CreateElement("case-elem"), "elem")
		default:
			vc20xLeaf("ch.log1", c.CreateElement("case1"), "log")
			vc20xLeaf("ch.log2", c.CreateElement("case2"), "log")
		}
	case 6:
		names := []string{"emptyconf", "patterntest", "rangetestsigned", "rangetestunsigned", "nosuch", "sdcio_model"}
		vc20xLeaf("leaf", root, names[verifrt.Choice("leaf", len(names))])
	default:
		ni := root.CreateElement("network-instance")
		vk, vb := vc20Vary("ni")
		vc20xKey("ni", vk, ni, "name")
		if !vb {
			break
		}
		switch verifrt.Choice("ni.body", 4) {
		case 0:
			vc20xLeaf("ni.type", ni, "type")
		case 1:
			vc20xLeaf("ni.bgp", ni.CreateElement("protocol"), "bgp")
		case 2:
			vc20xLeaf("ni.protocol", ni, "protocol")
		default:
			bgp := ni.CreateElement("protocol").CreateElement("bgp")
			vc20xLeaf("ni.as", bgp, "autonomous-system")
			vc20xLeaf("ni.rid", bgp, "router-id")
		}
	}
	return root
}

// VerifNoPanic_XmlImportConfig: NewXmlTreeImporter(document element) through
// ImportConfig.
func VerifNoPanic_XmlImportConfig() {
	ctx := context.Background()
	root := vc20Root(ctx)
	doc := vc20xDoc()
	owner, prio := vc20Owner()
	verifrt.Reach("built")
	err := root.ImportConfig(ctx, xmlImporter.NewXmlTreeImporter(doc), owner, prio)
	verifrt.Reach("returned")
	if err != nil {
		return
	}
	verifrt.Reach("imported")
	vc20After(ctx, root)
}
