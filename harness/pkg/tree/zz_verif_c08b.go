//go:build verif

package tree

// C08 kernel: the precedence value of a branch (sharedEntryAttributes.
// getHighestPrecedenceValueOfBranch), from which the choice resolvers pick the winning case, is
// the best priority among ALL live (not delete-flagged, non-default) leaf entries below the node
// - whatever the choice resolvers of the node or of nodes below it currently say. The resolvers
// are filled top-down in FinishInsertionPhase, so when a node is asked its own and its
// descendants' resolvers are still empty: a value that depends on them ("only the active case
// counts") hides every case member and the choice is decided without them.

import (
	"context"

	"github.com/sdcio/data-server/pkg/cache"
	"github.com/sdcio/data-server/pkg/verifrt"
	sdcpb "github.com/sdcio/sdc-protos/sdcpb"
	"google.golang.org/protobuf/proto"
)

// VerifBranchPrecedenceIsMinOfSubtree: arbitrary presence / priority / delete flag of four
// leaf entries around the choice of the test schema (choices/case1/log,
// choices/case1/case-elem/elem, choices/case2/log, and interface[name=lo1]/description outside
// the choice); the branch value of the root, of container choices and of choices/case1 is asked
// BEFORE and AFTER FinishInsertionPhase.
func VerifBranchPrecedenceIsMinOfSubtree() {
	ctx := context.Background()
	root := vc20Root(ctx)
	type ent struct {
		tag    string
		path   []string
		val    []byte
		pres   bool
		prio   int32
		delete bool
	}
	tvBool, _ := proto.Marshal(&sdcpb.TypedValue{Value: &sdcpb.TypedValue_BoolVal{BoolVal: true}})
	tvStr, _ := proto.Marshal(&sdcpb.TypedValue{Value: &sdcpb.TypedValue_StringVal{StringVal: "x"}})
	entries := []*ent{
		{tag: "c1log", path: []string{"choices", "case1", "log"}, val: tvBool},
		{tag: "c1elem", path: []string{"choices", "case1", "case-elem", "elem"}, val: tvStr},
		{tag: "c2log", path: []string{"choices", "case2", "log"}, val: tvBool},
		{tag: "ifdesc", path: []string{"interface", "lo1", "description"}, val: tvStr},
	}
	owners := []string{"A", "B", "C", "D"}
	for i, e := range entries {
		if !verifrt.Bool("pres." + e.tag) {
			continue
		}
		e.pres = true
		e.prio = verifrt.Int32("prio." + e.tag)
		verifrt.Assume(verifrt.And(e.prio >= 1, e.prio < 1000))
		e.delete = verifrt.Bool("del." + e.tag)
		flags := NewUpdateInsertFlags()
		if e.delete {
			flags.SetDeleteFlag()
		} else {
			flags.SetNewFlag()
		}
		if _, err := root.AddCacheUpdateRecursive(ctx, cache.NewUpdate(e.path, e.val, e.prio, owners[i], 0), flags); err != nil {
			panic("verif: AddCacheUpdateRecursive: " + err.Error())
		}
	}
	verifrt.Reach("tree-built")
	want := func(prefix []string) (int32, bool) {
		best, any := int32(0), false
		for _, e := range entries {
			if !e.pres || e.delete || len(e.path) < len(prefix) {
				continue
			}
			below := true
			for i := range prefix {
				if e.path[i] != prefix[i] {
					below = false
				}
			}
			if !below {
				continue
			}
			if !any {
				best, any = e.prio, true
			} else if verifrtLess(e.prio, best) {
				best = e.prio
			}
		}
		return best, any
	}
	check := func(phase string) {
		for _, node := range [][]string{{}, {"choices"}, {"choices", "case1"}} {
			var ent Entry = root.sharedEntryAttributes
			ok := true
			for _, el := range node {
				c, exists := ent.getChildren()[el]
				if !exists {
					ok = false
					break
				}
				ent = c
			}
			if !ok {
				continue
			}
			got := ent.getHighestPrecedenceValueOfBranch()
			w, any := want(node)
			if any {
				verifrt.Assert(got == w, "C08-branch-precedence-is-best-live-priority-below/"+phase)
			} else {
				verifrt.Assert(got == 2147483647, "C08-branch-without-live-entry-has-no-precedence/"+phase)
			}
		}
	}
	check("before-resolvers-are-filled")
	root.FinishInsertionPhase(ctx)
	check("after-resolvers-are-filled")
	verifrt.Reach("checked")
}

// verifrtLess forks on a < b (the minimum of symbolic priorities).
func verifrtLess(a, b int32) bool { return a < b }
