//go:build verif

package tree

// C08 kernels: the choice/case resolver against its plain specification, and
// the per-branch precedence lookup that feeds it.

import (
	"context"
	"strings"
	"math"

	"github.com/sdcio/data-server/pkg/cache"
	"github.com/sdcio/data-server/pkg/verifrt"
)

type v08Elem struct {
	name  string
	cas   string
	pop   bool
	val   int32
	isNew bool
}

// VerifChoiceResolverBestCase: choiceCasesResolver with 2..maxCases cases of one
// or two elements each; every element is unpopulated or carries an arbitrary
// priority value and new-flag. Specification: best case = a case that holds
// the numerically lowest value among all populated elements; no populated
// element => no best case (""). Same for the old best case over the elements
// not flagged new. GetSkipElements = exactly the elements outside the best case.
func VerifChoiceResolverBestCase() {
	maxCases := verifrt.Param("maxCases", 3)
	n := 2
	if maxCases > 2 {
		n = 2 + verifrt.Choice("ncases", maxCases-1)
	}
	caseNames := []string{"c1", "c2", "c3"}[:n]
	r := newChoiceCasesResolver()
	var elems []*v08Elem
	for i, cn := range caseNames {
		names := []string{cn + "a"}
		if i == 0 {
			// the first case has two members (like case1 {log, case-elem} would if flattened)
			names = append(names, cn+"b")
		}
		r.AddCase(cn, names)
		for _, en := range names {
			elems = append(elems, &v08Elem{name: en, cas: cn})
		}
	}
	for _, e := range elems {
		if verifrt.Bool("pop." + e.name) {
			e.pop = true
			e.val = verifrt.Int32("val." + e.name)
			verifrt.Assume(verifrt.And(e.val >= 0, e.val < math.MaxInt32))
			e.isNew = verifrt.Bool("new." + e.name)
		}
	}
	// contributions to different cases come from different intents: distinct priorities
	for i, a := range elems {
		for _, b := range elems[i+1:] {
			if a.pop && b.pop && a.cas != b.cas {
				verifrt.Assume(a.val != b.val)
			}
		}
	}
	for _, e := range elems {
		if e.pop {
			r.SetValue(e.name, e.val, e.isNew)
		} else {
			// populateChoiceCaseResolvers reports an unpopulated branch as MaxInt32
			r.SetValue(e.name, math.MaxInt32, false)
		}
	}
	// the iteration order over the cases is arbitrary (Go map); the order over the
	// members of one case cannot matter for a minimum and is left as the engine has it
	verifrt.MapOrderNondet(true)
	best := r.getBestCaseName()
	verifrt.MapOrderNondet(false)
	oldBest := r.getOldBestCaseName()
	skip := r.GetSkipElements()
	best2 := r.getBestCaseName()
	verifrt.Reach("resolved")

	v08CheckBest(elems, best, false, "C08-kernel-best-case")
	v08CheckBest(elems, best2, false, "C08-kernel-best-case")
	v08CheckBest(elems, oldBest, true, "C08-kernel-old-best-case")

	// skip list: exactly the members of the other cases
	anyPop := false
	for _, e := range elems {
		if e.pop {
			anyPop = true
		}
	}
	if anyPop {
		for _, e := range elems {
			in := false
			for _, s := range skip {
				if s == e.name {
					in = true
				}
			}
			verifrt.Assert(in == (e.cas != best2), "C08-kernel-skip-elements-are-the-other-cases")
		}
	}
}

// v08CheckBest: got names a case holding the lowest value among the populated
// (onlyOld: and not new) elements; "" iff there is none.
func v08CheckBest(elems []*v08Elem, got string, onlyOld bool, label string) {
	var cand []*v08Elem
	for _, e := range elems {
		if e.pop && !(onlyOld && e.isNew) { // isNew is symbolic: forks, deliberately
			cand = append(cand, e)
		}
	}
	if len(cand) == 0 {
		if got != "" {
			verifrt.Assert(false, label+"-is-none/no-populated-case")
		}
		return
	}
	verifrt.Assert(got != "", label+"-exists")
	// some candidate of case `got` is <= every candidate
	ok := false
	for _, e := range cand {
		if e.cas != got {
			continue
		}
		le := true
		for _, f := range cand {
			le = verifrt.And(le, e.val <= f.val)
		}
		ok = verifrt.Or(ok, le)
	}
	verifrt.Assert(ok, label+"-holds-lowest-value")
}

type v08IdxEntry struct {
	tag   string
	path  []string
	in    bool // element-wise below choices/case1
	pres  bool
	prio  int32
	owner string
}

// VerifBranchPrecedencePrefix: GetBranchesHighesPrecedence(choices/case1) over an
// index holding an arbitrary subset of: two paths inside the branch, a path of
// the other case, and a path of a sibling whose name extends the member's name
// (case10). Specification: the lowest priority among the index entries whose
// path has the queried path as an element-wise prefix and that pass the
// filter; MaxInt32 if there is none.
func VerifBranchPrecedencePrefix() {
	entries := []*v08IdxEntry{
		// the member node itself (case1 is a presence container: an intent may hold the case
		// through it alone)
		{tag: "self", path: []string{"choices", "case1"}, in: true},
		{tag: "log", path: []string{"choices", "case1", "log"}, in: true},
		// the same path held by a second intent (several entries under one index key)
		{tag: "log2", path: []string{"choices", "case1", "log"}, in: true},
		{tag: "elem", path: []string{"choices", "case1", "case-elem", "elem"}, in: true},
		{tag: "other", path: []string{"choices", "case2", "log"}},
		{tag: "ext", path: []string{"choices", "case10", "log"}},
	}
	owners := []string{"A", "B"}
	idx := map[string]UpdateSlice{}
	for _, e := range entries {
		if !verifrt.Bool("pres." + e.tag) {
			continue
		}
		e.pres = true
		e.prio = verifrt.Int32("prio." + e.tag)
		verifrt.Assume(verifrt.And(e.prio >= 1, e.prio < 1000))
		e.owner = owners[verifrt.Choice("owner."+e.tag, len(owners))]
		if e.tag == "log2" {
			// an intent holds a path once
			for _, e1 := range entries {
				if e1.tag == "log" && e1.pres {
					verifrt.Assume(e1.owner != e.owner)
				}
			}
		}
		key := ""
		for i, p := range e.path {
			if i > 0 {
				key += KeysIndexSep
			}
			key += p
		}
		idx[key] = append(idx[key], cache.NewUpdate(e.path, nil, e.prio, e.owner, 0))
	}
	c := &TreeCacheClientImpl{datastore: "ds", intendedStoreIndex: idx}
	var filters []CacheUpdateFilter
	exclude := ""
	if verifrt.Choice("filter", 2) == 1 {
		exclude = "A"
		filters = append(filters, CacheUpdateFilterExcludeOwner(exclude))
	}
	verifrt.MapOrderNondet(true)
	got := c.GetBranchesHighesPrecedence(context.Background(), []string{"choices", "case1"}, filters...)
	verifrt.MapOrderNondet(false)
	verifrt.Reach("looked-up")

	var cand []*v08IdxEntry
	extCounts := false
	for _, e := range entries {
		if e.pres && e.owner != exclude {
			if e.in {
				cand = append(cand, e)
			} else if e.tag == "ext" {
				extCounts = true
			}
		}
	}
	lower := true // got <= every candidate
	hit := got == math.MaxInt32
	if len(cand) > 0 {
		hit = false
	}
	for _, e := range cand {
		lower = verifrt.And(lower, got <= e.prio)
		hit = verifrt.Or(hit, got == e.prio)
	}
	if extCounts {
		verifrt.Assert(verifrt.And(lower, hit), "C08-kernel-branch-precedence-counts-only-the-branch/sibling-name-extends-member-name")
	} else {
		verifrt.Assert(verifrt.And(lower, hit), "C08-kernel-branch-precedence-counts-only-the-branch")
	}
}

// VerifIntendedPathExistsExact (C11): TreeCacheClientImpl.IntendedPathExists over an arbitrary
// index whose paths are related to the asked one in every textual way - the path itself, a
// descendant, an ancestor, a sibling leaf whose NAME EXTENDS the asked leaf's name, an entry
// whose KEY extends the asked entry's key: the answer is "an owner that is not ignored holds
// exactly this path" - neither something below it nor something that merely begins like it.
func VerifIntendedPathExistsExact() {
	asked := []string{"server", "s1", "address"}
	entries := []*v08IdxEntry{
		{tag: "self", path: []string{"server", "s1", "address"}},
		{tag: "self2", path: []string{"server", "s1", "address"}},
		{tag: "below", path: []string{"server", "s1", "address", "scope"}},
		{tag: "above", path: []string{"server", "s1"}},
		{tag: "namext", path: []string{"server", "s1", "address-family"}},
		{tag: "keyext", path: []string{"server", "s10", "address"}},
	}
	owners := []string{"A", "B"}
	idx := map[string]UpdateSlice{}
	for _, e := range entries {
		if !verifrt.Bool("pres." + e.tag) {
			continue
		}
		e.pres = true
		e.owner = owners[verifrt.Choice("owner."+e.tag, len(owners))]
		if e.tag == "self2" {
			for _, e1 := range entries {
				if e1.tag == "self" && e1.pres {
					verifrt.Assume(e1.owner != e.owner)
				}
			}
		}
		key := strings.Join(e.path, KeysIndexSep)
		idx[key] = append(idx[key], cache.NewUpdate(e.path, nil, 10, e.owner, 0))
	}
	c := &TreeCacheClientImpl{datastore: "ds", intendedStoreIndex: idx}
	var ignore []string
	if verifrt.Choice("ignore", 2) == 1 {
		ignore = []string{"A"}
	}
	verifrt.MapOrderNondet(true)
	got, err := c.IntendedPathExists(context.Background(), asked, ignore...)
	verifrt.MapOrderNondet(false)
	verifrt.Reach("asked")
	verifrt.Assert(err == nil, "C11-intended-path-exists/answers")
	want := false
	for _, e := range entries {
		if e.pres && (e.tag == "self" || e.tag == "self2") && !(len(ignore) == 1 && e.owner == "A") {
			want = true
		}
	}
	if want {
		verifrt.Assert(got, "C11-intended-path-exists/held-path-found")
	} else {
		verifrt.Assert(!got, "C11-intended-path-exists/only-the-exact-path-counts")
	}
}
