//go:build verif

// Package verifrt is the harness runtime. Under the symbolic engine every
// function here is intercepted by name; compiled natively it replays one
// solver model (VERIF_REPLAY) so that a counterexample runs against the real
// build.
package verifrt

import (
	"encoding/json"
	"fmt"
	"os"
	"reflect"
	"sort"
	"strconv"
	"strings"
	"testing"
	"time"
)

type replayCase struct {
	Case    int               `json:"case"`
	Harness string            `json:"harness"`
	Inputs  map[string]string `json:"inputs"`
	Params  map[string]int    `json:"params"`
	Labels  []string          `json:"labels"`
}

type assertFail struct{ label string }
type assumeFail struct{}

var (
	cur    *replayCase
	occ    map[string]int
	curIdx int
)

func next(name string) (string, bool) {
	if cur == nil {
		return "", false
	}
	k := occ[name]
	occ[name] = k + 1
	v, ok := cur.Inputs[name+"!"+strconv.Itoa(k)]
	return v, ok
}

func intIn(name string) int64 {
	v, ok := next(name)
	if !ok {
		return 0
	}
	n, _ := strconv.ParseInt(v, 10, 64)
	return n
}

func Bool(name string) bool {
	v, _ := next(name)
	return v == "true"
}
func Int(name string) int     { return int(intIn(name)) }
func Int8(name string) int8   { return int8(intIn(name)) }
func Int16(name string) int16 { return int16(intIn(name)) }
func Int32(name string) int32 { return int32(intIn(name)) }
func Int64(name string) int64 { return intIn(name) }
func Uint8(name string) uint8 { return uint8(intIn(name)) }
func Uint16(name string) uint16 {
	return uint16(intIn(name))
}
func Uint32(name string) uint32 { return uint32(intIn(name)) }
func Uint64(name string) uint64 {
	v, ok := next(name)
	if !ok {
		return 0
	}
	n, _ := strconv.ParseUint(v, 10, 64)
	return n
}
func IntRange(name string, lo, hi int64) int64 {
	v := intIn(name)
	if v < lo {
		return lo
	}
	if v > hi {
		return hi
	}
	return v
}

// String returns an arbitrary string of at most maxLen bytes drawn from
// alphabet ("" = printable ASCII).
func String(name string, maxLen int, alphabet string) string {
	v, _ := next(name)
	return v
}

// Chars returns an arbitrary string of exactly n bytes drawn from alphabet
// ("" = printable ASCII); each character is a separate input name.c<i>.
func Chars(name string, n int, alphabet string) string {
	b := make([]byte, n)
	for i := range b {
		b[i] = byte(intIn(name + ".c" + strconv.Itoa(i)))
	}
	return string(b)
}

// Choice returns an arbitrary value in [0,n).
func Choice(name string, n int) int {
	v, ok := next(name)
	if !ok {
		return 0
	}
	k, _ := strconv.Atoi(v)
	if k < 0 || k >= n {
		return 0
	}
	return k
}

// Param returns a per-tier harness parameter.
func Param(name string, def int) int {
	if cur != nil {
		if v, ok := cur.Params[name]; ok {
			return v
		}
	}
	return def
}

func Assume(c bool) {
	if !c {
		panic(assumeFail{})
	}
}

func Assert(c bool, label string) {
	if cur != nil && len(cur.Labels) > 0 {
		ok := false
		for _, p := range cur.Labels {
			if strings.HasPrefix(label, p) {
				ok = true
			}
		}
		if !ok {
			return
		}
	}
	if !c {
		panic(assertFail{label})
	}
}

func Reach(label string) {}

func And(a, b bool) bool     { return a && b }
func Or(a, b bool) bool      { return a || b }
func Implies(a, b bool) bool { return !a || b }
func Not(a bool) bool        { return !a }

func MapOrderNondet(on bool)    {}
func Yield(name string)         {}
func Advance(d time.Duration)   { time.Sleep(d) }
func AwaitQuiescence()          { time.Sleep(50 * time.Millisecond) }
func Symbolic() bool            { return false }
func Note(format string, a ...any) {}
func Goroutines() int           { return 0 }

// Observe logs a value for differential comparison with the engine.
func Observe(label string, v any) {
	fmt.Printf("VERIF-OBS case=%d label=%s val=%s\n", curIdx, label, render(reflect.ValueOf(v)))
}

func render(v reflect.Value) string {
	if !v.IsValid() {
		return "<nil>"
	}
	switch v.Kind() {
	case reflect.String:
		return strconv.Quote(v.String())
	case reflect.Bool:
		return strconv.FormatBool(v.Bool())
	case reflect.Int, reflect.Int8, reflect.Int16, reflect.Int32, reflect.Int64:
		return strconv.FormatInt(v.Int(), 10)
	case reflect.Uint, reflect.Uint8, reflect.Uint16, reflect.Uint32, reflect.Uint64, reflect.Uintptr:
		return strconv.FormatUint(v.Uint(), 10)
	case reflect.Float32, reflect.Float64:
		return fmt.Sprint(v.Float())
	case reflect.Slice, reflect.Array:
		if v.Kind() == reflect.Slice && v.IsNil() {
			return "[]"
		}
		parts := make([]string, v.Len())
		for i := range parts {
			parts[i] = render(v.Index(i))
		}
		return "[" + strings.Join(parts, " ") + "]"
	case reflect.Struct:
		parts := make([]string, v.NumField())
		for i := range parts {
			parts[i] = render(v.Field(i))
		}
		return "{" + strings.Join(parts, " ") + "}"
	case reflect.Map:
		var parts []string
		for _, k := range v.MapKeys() {
			parts = append(parts, render(k)+":"+render(v.MapIndex(k)))
		}
		sort.Strings(parts)
		return "map[" + strings.Join(parts, " ") + "]"
	case reflect.Interface:
		if v.IsNil() {
			return "<nil>"
		}
		return render(v.Elem())
	case reflect.Ptr:
		if v.IsNil() {
			return "<nil>"
		}
		return "&" + render(v.Elem())
	}
	return "<" + v.Kind().String() + ">"
}

// Replay runs the cases of VERIF_REPLAY against natively compiled harnesses.
// An unrecovered panic in the code under test kills the process on purpose:
// the driver sees the missing VERIF-RESULT line and reports status=panic.
func Replay(t *testing.T, harnesses map[string]func()) {
	path := os.Getenv("VERIF_REPLAY")
	if path == "" {
		t.Skip("VERIF_REPLAY not set")
	}
	b, err := os.ReadFile(path)
	if err != nil {
		t.Fatal(err)
	}
	var cases []replayCase
	if err := json.Unmarshal(b, &cases); err != nil {
		t.Fatal(err)
	}
	skip := map[string]bool{}
	for _, s := range strings.Split(os.Getenv("VERIF_REPLAY_SKIP"), ",") {
		skip[s] = true
	}
	for i := range cases {
		c := &cases[i]
		if skip[strconv.Itoa(c.Case)] {
			continue
		}
		h := harnesses[c.Harness]
		if h == nil {
			fmt.Printf("VERIF-RESULT case=%d status=missing label= msg=no harness %s\n", c.Case, c.Harness)
			continue
		}
		fmt.Printf("VERIF-BEGIN case=%d\n", c.Case)
		runOne(c, h)
	}
}

func runOne(c *replayCase, h func()) {
	cur, occ, curIdx = c, map[string]int{}, c.Case
	defer func() {
		r := recover()
		switch r := r.(type) {
		case nil:
			fmt.Printf("VERIF-RESULT case=%d status=ok label= msg=\n", c.Case)
		case assertFail:
			fmt.Printf("VERIF-RESULT case=%d status=assert-fail label=%s msg=\n", c.Case, r.label)
		case assumeFail:
			fmt.Printf("VERIF-RESULT case=%d status=assume-fail label= msg=\n", c.Case)
		default:
			fmt.Printf("VERIF-RESULT case=%d status=panic label= msg=%s\n", c.Case, strings.ReplaceAll(fmt.Sprint(r), "\n", " "))
		}
	}()
	h()
}
