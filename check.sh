#!/bin/sh
# usage: check.sh <property-id> <quick|thorough>
export GOFLAGS=-mod=mod GOPROXY=off GOSUMDB=off GOTOOLCHAIN=local
cd /verif || exit 2
if [ ! -x /verif/bin/gosymx ] || [ -n "$(find /verif/engine -name '*.go' -newer /verif/bin/gosymx 2>/dev/null | head -1)" ]; then
  (cd /verif/engine && go build -o /verif/bin/gosymx ./cmd/gosymx) || exit 2
fi
exec /verif/bin/gosymx check "$1" "${2:-quick}"
