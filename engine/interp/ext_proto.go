package interp

// protobuf: Marshal is an injective box around a deep copy of the message,
// Unmarshal its inverse, Clone a deep copy, bytes.Equal on boxes structural
// equality. Text renderings are opaque.

import (
	"fmt"
	"go/types"
	"strings"
)

// protoBox is the single pseudo-byte a marshalled message consists of.
type protoBox struct {
	t   types.Type // pointer-to-message type
	msg value      // deep copy of the message struct (structure)
}

func deepCopy(v value) value {
	switch v := v.(type) {
	case structure:
		out := make(structure, len(v))
		for i, e := range v {
			out[i] = deepCopy(e)
		}
		return out
	case array:
		out := make(array, len(v))
		for i, e := range v {
			out[i] = deepCopy(e)
		}
		return out
	case []value:
		if v == nil {
			return v
		}
		out := make([]value, len(v))
		for i, e := range v {
			out[i] = deepCopy(e)
		}
		return out
	case *value:
		if v == nil {
			return v
		}
		c := deepCopy(*v)
		return &c
	case iface:
		return iface{t: v.t, v: deepCopy(v.v)}
	case *omap:
		if v == nil {
			return v
		}
		m := makeMap(v.keyType, 0).(*omap)
		for _, e := range v.entries {
			if e != nil {
				m.insert(nil, e.key, deepCopy(e.val))
			}
		}
		return m
	}
	return v
}

// deepZero reports whether a message value has only zero fields.
func deepZero(v value) bool {
	switch v := v.(type) {
	case structure:
		for _, e := range v {
			if !deepZero(e) {
				return false
			}
		}
		return true
	case array:
		for _, e := range v {
			if !deepZero(e) {
				return false
			}
		}
		return true
	case []value:
		return len(v) == 0
	case *value:
		return v == nil
	case iface:
		return v.t == nil
	case *omap:
		return v.len() == 0
	case sym:
		return false
	case bool:
		return !v
	case string:
		return v == ""
	case nil:
		return true
	}
	if n := bigOf(v); n != nil {
		return n.Sign() == 0
	}
	switch f := v.(type) {
	case float64:
		return f == 0
	case float32:
		return f == 0
	}
	return false
}

// deepEqual compares two message graphs structurally (proto semantics: nil
// and empty slices/maps are equal). Result is bool or symbolic bool.
func deepEqual(a, b value) value {
	switch x := a.(type) {
	case structure:
		y, ok := b.(structure)
		if !ok || len(x) != len(y) {
			return false
		}
		var res value = true
		for i := range x {
			res = andValues(res, deepEqual(x[i], y[i]))
			if r, ok := res.(bool); ok && !r {
				return false
			}
		}
		return res
	case array:
		y, ok := b.(array)
		if !ok || len(x) != len(y) {
			return false
		}
		var res value = true
		for i := range x {
			res = andValues(res, deepEqual(x[i], y[i]))
		}
		return res
	case []value:
		y, ok := b.([]value)
		if !ok || len(x) != len(y) {
			return false
		}
		var res value = true
		for i := range x {
			res = andValues(res, deepEqual(x[i], y[i]))
			if r, ok := res.(bool); ok && !r {
				return false
			}
		}
		return res
	case *value:
		y, ok := b.(*value)
		if !ok {
			return false
		}
		if x == nil || y == nil {
			return x == nil && y == nil
		}
		return deepEqual(*x, *y)
	case iface:
		y, ok := b.(iface)
		if !ok {
			return false
		}
		if x.t == nil || y.t == nil {
			return x.t == nil && y.t == nil
		}
		if !types.Identical(x.t, y.t) {
			return false
		}
		return deepEqual(x.v, y.v)
	case *omap:
		y, ok := b.(*omap)
		if !ok || x.len() != y.len() {
			return false
		}
		var res value = true
		if x != nil {
			for _, e := range x.entries {
				if e == nil {
					continue
				}
				ov, found := y.lookup(nil, e.key)
				if !found {
					return false
				}
				res = andValues(res, deepEqual(e.val, ov))
			}
		}
		return res
	case *protoBox:
		y, ok := b.(*protoBox)
		if !ok {
			return false
		}
		return deepEqual(x.msg, y.msg)
	case sym:
		return symEquals(a, b)
	}
	if isSym(b) {
		return symEquals(a, b)
	}
	if a == nil || b == nil {
		return a == nil && b == nil
	}
	return a == b
}

func boxOf(b value) (*protoBox, bool) {
	s, ok := b.([]value)
	if !ok || len(s) != 1 {
		return nil, false
	}
	pb, ok := s[0].(*protoBox)
	return pb, ok
}

func (e *Engine) initProtoExternals() {
	t := e.extTable
	marshal := func(fr *frame, a []value) value {
		m := a[0].(iface)
		if m.t == nil {
			return tuple{[]value(nil), iface{}}
		}
		p, _ := m.v.(*value)
		if p == nil {
			return tuple{[]value{}, iface{}}
		}
		if deepZero(*p) {
			return tuple{[]value{}, iface{}}
		}
		return tuple{[]value{&protoBox{t: m.t, msg: deepCopy(*p)}}, iface{}}
	}
	t["google.golang.org/protobuf/proto.Marshal"] = marshal
	t["google.golang.org/protobuf/proto.Unmarshal"] = func(fr *frame, a []value) value {
		b := a[0].([]value)
		m := a[1].(iface)
		p, _ := m.v.(*value)
		if p == nil {
			return fr.i.newErrorString("proto: Unmarshal into nil message")
		}
		if len(b) == 0 {
			*p = zero(mustDeref(m.t))
			return iface{}
		}
		pb, ok := boxOf(b)
		if !ok {
			fr.i.ex.unsupported("proto.Unmarshal of bytes not produced by proto.Marshal")
		}
		if !types.Identical(pb.t, m.t) {
			// real protobuf would usually fail or mis-decode; report as error
			return fr.i.newErrorString("proto: cannot parse invalid wire-format data (message type mismatch)")
		}
		*p = deepCopy(pb.msg)
		return iface{}
	}
	t["google.golang.org/protobuf/proto.Clone"] = func(fr *frame, a []value) value {
		m := a[0].(iface)
		if m.t == nil {
			return m
		}
		return iface{t: m.t, v: deepCopy(m.v)}
	}
	t["google.golang.org/protobuf/proto.Equal"] = func(fr *frame, a []value) value {
		x, y := a[0].(iface), a[1].(iface)
		if x.t == nil || y.t == nil {
			return x.t == nil && y.t == nil
		}
		if !types.Identical(x.t, y.t) {
			return false
		}
		return deepEqual(x.v, y.v)
	}
	t["google.golang.org/protobuf/proto.Size"] = func(fr *frame, a []value) value { return 1 }
	t["google.golang.org/protobuf/encoding/prototext.Format"] = func(fr *frame, a []value) value { return "<prototext>" }
	// bytes.Equal / bytes.Compare on boxes
	nativeEq := t["bytes.Equal"]
	t["bytes.Equal"] = func(fr *frame, a []value) value {
		x, _ := a[0].([]value)
		y, _ := a[1].([]value)
		bx, okx := boxOf(x)
		by, oky := boxOf(y)
		if okx && oky {
			return deepEqual(bx, by)
		}
		if okx || oky {
			return false
		}
		if len(x) != len(y) {
			return false
		}
		if anySym(a) {
			var res value = true
			for i := range x {
				res = andValues(res, equals(types.Typ[types.Uint8], x[i], y[i]))
			}
			return res
		}
		return nativeEq(fr, a)
	}
	// generated String()/Reset()/ProtoReflect()/Descriptor() methods use protoimpl reflection
	e.extPrefix = append(e.extPrefix, prefixExt{"(*github.com/sdcio/sdc-protos/sdcpb.", e.protoMethod},
		prefixExt{"(*github.com/openconfig/gnmi/proto/gnmi.", e.protoMethod},
		prefixExt{"(github.com/sdcio/sdc-protos/sdcpb.", e.protoEnumMethod},
		prefixExt{"(github.com/openconfig/gnmi/proto/gnmi.", e.protoEnumMethod},
		prefixExt{"(github.com/sdcio/cache/proto/cachepb.", e.protoEnumMethod},
		prefixExt{"(*github.com/sdcio/cache/proto/cachepb.", e.protoMethod},
		prefixExt{"(*google.golang.org/protobuf/types/known/", e.protoMethod},
	)
}

func (e *Engine) protoMethod(name string) externalFn {
	switch {
	case strings.HasSuffix(name, ").String"):
		return func(fr *frame, a []value) value {
			fr.i.ex.res.Stubs["proto:opaque-String"]++
			return "<" + name[2:strings.LastIndex(name, ")")] + ">"
		}
	case strings.HasSuffix(name, ").Reset"):
		return func(fr *frame, a []value) value {
			p := a[0].(*value)
			if p != nil {
				*p = zero(mustDeref(fr.fn.Signature.Recv().Type()))
			}
			return nil
		}
	case strings.HasSuffix(name, ").ProtoReflect"), strings.HasSuffix(name, ").Descriptor"):
		return func(fr *frame, a []value) value {
			fr.i.ex.unsupported("protobuf reflection: " + name)
			return nil
		}
	}
	return nil
}

func (e *Engine) protoEnumMethod(name string) externalFn {
	if strings.HasSuffix(name, ").String") {
		return func(fr *frame, a []value) value {
			if isSym(a[0]) {
				return "<enum>"
			}
			return fmt.Sprintf("ENUM_%d", asInt64(a[0]))
		}
	}
	if strings.HasSuffix(name, ").Enum") || strings.HasSuffix(name, ").Number") || strings.HasSuffix(name, ").Type") || strings.HasSuffix(name, ").Descriptor") {
		return func(fr *frame, a []value) value {
			fr.i.ex.unsupported("protobuf enum reflection: " + name)
			return nil
		}
	}
	return nil
}
