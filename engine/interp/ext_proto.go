package interp

// protobuf: Marshal is an injective box around a deep copy of the message,
// Unmarshal its inverse, Clone a deep copy, bytes.Equal on boxes structural
// equality. Text renderings are opaque.

import (
	"fmt"
	"go/types"
	"strconv"
	"strings"
)

// protoBox is the single pseudo-byte a marshalled message consists of.
type protoBox struct {
	t   types.Type // pointer-to-message type
	msg value      // deep copy of the message struct (structure)
}

func deepCopy(v value) value {
	switch v := v.(type) {
	case structure:
		out := make(structure, len(v))
		for i, e := range v {
			out[i] = deepCopy(e)
		}
		return out
	case array:
		out := make(array, len(v))
		for i, e := range v {
			out[i] = deepCopy(e)
		}
		return out
	case []value:
		if v == nil {
			return v
		}
		out := make([]value, len(v))
		for i, e := range v {
			out[i] = deepCopy(e)
		}
		return out
	case *value:
		if v == nil {
			return v
		}
		c := deepCopy(*v)
		return &c
	case iface:
		return iface{t: v.t, v: deepCopy(v.v)}
	case *omap:
		if v == nil {
			return v
		}
		m := makeMap(v.keyType, 0).(*omap)
		for _, e := range v.entries {
			if e != nil {
				m.insert(nil, e.key, deepCopy(e.val))
			}
		}
		return m
	}
	return v
}

// deepZero reports whether a message value has only zero fields.
func deepZero(v value) bool {
	switch v := v.(type) {
	case structure:
		for _, e := range v {
			if !deepZero(e) {
				return false
			}
		}
		return true
	case array:
		for _, e := range v {
			if !deepZero(e) {
				return false
			}
		}
		return true
	case []value:
		return len(v) == 0
	case *value:
		return v == nil
	case iface:
		return v.t == nil
	case *omap:
		return v.len() == 0
	case sym:
		return false
	case bool:
		return !v
	case string:
		return v == ""
	case nil:
		return true
	}
	if n := bigOf(v); n != nil {
		return n.Sign() == 0
	}
	switch f := v.(type) {
	case float64:
		return f == 0
	case float32:
		return f == 0
	}
	return false
}

// deepEqual compares two message graphs structurally (proto semantics: nil
// and empty slices/maps are equal). Result is bool or symbolic bool.
func deepEqual(a, b value) value {
	switch x := a.(type) {
	case structure:
		y, ok := b.(structure)
		if !ok || len(x) != len(y) {
			return false
		}
		var res value = true
		for i := range x {
			res = andValues(res, deepEqual(x[i], y[i]))
			if r, ok := res.(bool); ok && !r {
				return false
			}
		}
		return res
	case array:
		y, ok := b.(array)
		if !ok || len(x) != len(y) {
			return false
		}
		var res value = true
		for i := range x {
			res = andValues(res, deepEqual(x[i], y[i]))
		}
		return res
	case []value:
		y, ok := b.([]value)
		if !ok || len(x) != len(y) {
			return false
		}
		var res value = true
		for i := range x {
			res = andValues(res, deepEqual(x[i], y[i]))
			if r, ok := res.(bool); ok && !r {
				return false
			}
		}
		return res
	case *value:
		y, ok := b.(*value)
		if !ok {
			return false
		}
		if x == nil || y == nil {
			return x == nil && y == nil
		}
		return deepEqual(*x, *y)
	case iface:
		y, ok := b.(iface)
		if !ok {
			return false
		}
		if x.t == nil || y.t == nil {
			return x.t == nil && y.t == nil
		}
		if !types.Identical(x.t, y.t) {
			return false
		}
		return deepEqual(x.v, y.v)
	case *omap:
		y, ok := b.(*omap)
		if !ok || x.len() != y.len() {
			return false
		}
		var res value = true
		if x != nil {
			for _, e := range x.entries {
				if e == nil {
					continue
				}
				ov, found := y.lookup(nil, e.key)
				if !found {
					return false
				}
				res = andValues(res, deepEqual(e.val, ov))
			}
		}
		return res
	case *protoBox:
		y, ok := b.(*protoBox)
		if !ok {
			return false
		}
		return deepEqual(x.msg, y.msg)
	case sym:
		return symEquals(a, b)
	}
	if isSym(b) {
		return symEquals(a, b)
	}
	if a == nil || b == nil {
		return a == nil && b == nil
	}
	return a == b
}

func boxOf(b value) (*protoBox, bool) {
	s, ok := b.([]value)
	if !ok || len(s) != 1 {
		return nil, false
	}
	pb, ok := s[0].(*protoBox)
	return pb, ok
}

func (e *Engine) initProtoExternals() {
	t := e.extTable
	marshal := func(fr *frame, a []value) value {
		m := a[0].(iface)
		if m.t == nil {
			return tuple{[]value(nil), iface{}}
		}
		p, _ := m.v.(*value)
		if p == nil {
			return tuple{[]value{}, iface{}}
		}
		if deepZero(*p) {
			return tuple{[]value{}, iface{}}
		}
		return tuple{[]value{&protoBox{t: m.t, msg: deepCopy(*p)}}, iface{}}
	}
	t["google.golang.org/protobuf/proto.Marshal"] = marshal
	t["google.golang.org/protobuf/proto.Unmarshal"] = func(fr *frame, a []value) value {
		b := a[0].([]value)
		m := a[1].(iface)
		p, _ := m.v.(*value)
		if p == nil {
			return fr.i.newErrorString("proto: Unmarshal into nil message")
		}
		if len(b) == 0 {
			*p = zero(mustDeref(m.t))
			return iface{}
		}
		pb, ok := boxOf(b)
		if !ok {
			fr.i.ex.unsupported("proto.Unmarshal of bytes not produced by proto.Marshal")
		}
		if !types.Identical(pb.t, m.t) {
			// real protobuf would usually fail or mis-decode; report as error
			return fr.i.newErrorString("proto: cannot parse invalid wire-format data (message type mismatch)")
		}
		*p = deepCopy(pb.msg)
		return iface{}
	}
	t["google.golang.org/protobuf/proto.Clone"] = func(fr *frame, a []value) value {
		m := a[0].(iface)
		if m.t == nil {
			return m
		}
		return iface{t: m.t, v: deepCopy(m.v)}
	}
	t["google.golang.org/protobuf/proto.Equal"] = func(fr *frame, a []value) value {
		x, y := a[0].(iface), a[1].(iface)
		if x.t == nil || y.t == nil {
			return x.t == nil && y.t == nil
		}
		if !types.Identical(x.t, y.t) {
			return false
		}
		return deepEqual(x.v, y.v)
	}
	t["google.golang.org/protobuf/proto.Size"] = func(fr *frame, a []value) value { return 1 }
	t["google.golang.org/protobuf/encoding/prototext.Format"] = func(fr *frame, a []value) value { return "<prototext>" }
	// bytes.Equal / bytes.Compare on boxes
	nativeEq := t["bytes.Equal"]
	t["bytes.Equal"] = func(fr *frame, a []value) value {
		x, _ := a[0].([]value)
		y, _ := a[1].([]value)
		bx, okx := boxOf(x)
		by, oky := boxOf(y)
		if okx && oky {
			return deepEqual(bx, by)
		}
		if okx || oky {
			return false
		}
		if len(x) != len(y) {
			return false
		}
		if anySym(a) {
			var res value = true
			for i := range x {
				res = andValues(res, equals(types.Typ[types.Uint8], x[i], y[i]))
			}
			return res
		}
		return nativeEq(fr, a)
	}
	// generated String()/Reset()/ProtoReflect()/Descriptor() methods use protoimpl reflection
	e.extPrefix = append(e.extPrefix, prefixExt{"(*github.com/sdcio/sdc-protos/sdcpb.", e.protoMethod},
		prefixExt{"(*github.com/openconfig/gnmi/proto/gnmi.", e.protoMethod},
		prefixExt{"(github.com/sdcio/sdc-protos/sdcpb.", e.protoEnumMethod},
		prefixExt{"(github.com/openconfig/gnmi/proto/gnmi.", e.protoEnumMethod},
		prefixExt{"(github.com/sdcio/cache/proto/cachepb.", e.protoEnumMethod},
		prefixExt{"(*github.com/sdcio/cache/proto/cachepb.", e.protoMethod},
		prefixExt{"(*google.golang.org/protobuf/types/known/", e.protoMethod},
	)
}

func (e *Engine) protoMethod(name string) externalFn {
	switch {
	case strings.HasSuffix(name, ").String"):
		return func(fr *frame, a []value) value {
			// injective structural rendering (not prototext's exact text)
			fr.i.ex.res.Stubs["proto:structural-String"]++
			p, _ := a[0].(*value)
			if p == nil {
				return "<nil>"
			}
			rt := fr.fn.Signature.Recv().Type()
			return valueOfTerm(fr.i.ex.renderProto(*p, mustDeref(rt)), types.String)
		}
	case strings.HasSuffix(name, ").Reset"):
		return func(fr *frame, a []value) value {
			p := a[0].(*value)
			if p != nil {
				*p = zero(mustDeref(fr.fn.Signature.Recv().Type()))
			}
			return nil
		}
	case strings.HasSuffix(name, ").ProtoReflect"), strings.HasSuffix(name, ").Descriptor"):
		return func(fr *frame, a []value) value {
			fr.i.ex.unsupported("protobuf reflection: " + name)
			return nil
		}
	}
	return nil
}

func (e *Engine) protoEnumMethod(name string) externalFn {
	if strings.HasSuffix(name, ").String") {
		return func(fr *frame, a []value) value {
			if isSym(a[0]) {
				return "<enum>"
			}
			return fmt.Sprintf("ENUM_%d", asInt64(a[0]))
		}
	}
	if strings.HasSuffix(name, ").Enum") || strings.HasSuffix(name, ").Number") || strings.HasSuffix(name, ").Type") || strings.HasSuffix(name, ").Descriptor") {
		return func(fr *frame, a []value) value {
			fr.i.ex.unsupported("protobuf enum reflection: " + name)
			return nil
		}
	}
	return nil
}

// renderProto renders a message value as text such that different messages
// give different texts (field names, zero fields omitted, map entries sorted
// by key). Symbolic strings are assumed free of the quote and backslash
// characters (recorded as a restriction).
func (ex *exec) renderProto(v value, t types.Type) *Term {
	switch x := v.(type) {
	case structure:
		st, ok := t.Underlying().(*types.Struct)
		if !ok {
			return mkStr("<struct>")
		}
		parts := []*Term{mkStr("{")}
		for i := 0; i < st.NumFields() && i < len(x); i++ {
			f := st.Field(i)
			if !f.Exported() {
				continue
			}
			if deepZero(x[i]) {
				continue
			}
			parts = append(parts, mkStr(f.Name()+":"), ex.renderProto(x[i], f.Type()), mkStr(" "))
		}
		parts = append(parts, mkStr("}"))
		return tConcat(parts...)
	case *value:
		if x == nil {
			return mkStr("nil")
		}
		if pt, ok := t.Underlying().(*types.Pointer); ok {
			return ex.renderProto(*x, pt.Elem())
		}
		return mkStr("<ptr>")
	case iface:
		if x.t == nil {
			return mkStr("nil")
		}
		name := x.t.String()
		if i := strings.LastIndexByte(name, '.'); i >= 0 {
			name = name[i+1:]
		}
		return tConcat(mkStr(name), ex.renderProto(x.v, x.t))
	case []value:
		parts := []*Term{mkStr("[")}
		var et types.Type
		if sl, ok := t.Underlying().(*types.Slice); ok {
			et = sl.Elem()
		}
		for i, e := range x {
			if i > 0 {
				parts = append(parts, mkStr(","))
			}
			if pb, ok := e.(*protoBox); ok {
				parts = append(parts, mkStr("box"), ex.renderProto(pb.msg, mustDeref(pb.t)))
				continue
			}
			if et != nil {
				parts = append(parts, ex.renderProto(e, et))
			} else {
				parts = append(parts, mkStr("?"))
			}
		}
		parts = append(parts, mkStr("]"))
		return tConcat(parts...)
	case *omap:
		if x == nil {
			return mkStr("map[]")
		}
		mt, _ := t.Underlying().(*types.Map)
		type kv struct {
			k string
			e *mentry
		}
		var kvs []kv
		for _, e := range x.entries {
			if e == nil {
				continue
			}
			ks, ok := e.key.(string)
			if !ok {
				if isSym(e.key) {
					ex.unsupported("protobuf String() of a map with symbolic keys")
				}
				ks = fmt.Sprint(e.key)
			}
			kvs = append(kvs, kv{ks, e})
		}
		for i := 1; i < len(kvs); i++ {
			for j := i; j > 0 && kvs[j].k < kvs[j-1].k; j-- {
				kvs[j], kvs[j-1] = kvs[j-1], kvs[j]
			}
		}
		parts := []*Term{mkStr("map[")}
		for _, p := range kvs {
			parts = append(parts, mkStr(strconv.Quote(p.k)+":"))
			if mt != nil {
				parts = append(parts, ex.renderProto(p.e.val, mt.Elem()))
			}
			parts = append(parts, mkStr(" "))
		}
		parts = append(parts, mkStr("]"))
		return tConcat(parts...)
	case string:
		return mkStr(strconv.Quote(x))
	case sym:
		switch {
		case x.k == types.String:
			ex.assumeOrAbort(tAnd(tNot(tStrOp("str.contains", SBool, x.t, mkStr("\""))), tNot(tStrOp("str.contains", SBool, x.t, mkStr("\\")))), "symbolic string in protobuf String() contains no quote/backslash")
			return tConcat(mkStr("\""), x.t, mkStr("\""))
		case x.k == types.Bool:
			return tIte(x.t, mkStr("true"), mkStr("false"))
		case isIntKind(x.k):
			return tIte(tCmp("<", x.t, mkInt64(0)), tConcat(mkStr("-"), mkApp("str.from_int", SStr, tNeg(x.t))), mkApp("str.from_int", SStr, x.t))
		}
		return mkStr("<sym>")
	case bool:
		return mkStr(fmt.Sprint(x))
	case nil:
		return mkStr("nil")
	}
	if n := bigOf(v); n != nil {
		return mkStr(n.String())
	}
	return mkStr(fmt.Sprint(v))
}
