package interp

// Cooperative scheduler for interpreted goroutines, engine-level channels,
// mutexes, wait groups, timers and a virtual clock.

import (
	"fmt"
	"sort"
	"sync"
)

type gstate int

const (
	gRunnable gstate = iota
	gBlocked
	gDone
)

type gor struct {
	id     int
	name   string
	state  gstate
	wake   chan struct{}
	ready  func() bool // when blocked: may it continue?
	waitOn string
	daemon bool
}

type vtimer struct {
	id       int
	deadline int64
	ch       *channel // may be nil (callback timers)
	fn       func()   // callback (runs in scheduler context; must not block)
	period   int64    // tickers
	active   bool
	gor      *gor // sleeping goroutine, if any
	fired    bool
}

type sched struct {
	ex       *exec
	gs       []*gor
	cur      *gor
	clock    int64 // virtual nanoseconds
	timers   []*vtimer
	nextTid  int
	explore  bool
	preempt  int // remaining pre-emption budget (explore mode)
	hostWG   sync.WaitGroup
	aborted  bool
	log      []string
	mutexes  map[*value]*vmutex
	rwmus    map[*value]*vrwmutex
	wgs      map[*value]*vwg
	onces    map[*value]*vmutex
	sems     map[*value]*vsem
	syncMaps map[*value]*omap
	atomics  map[*value]*value
	natives  map[*value]any
}

func newSched(ex *exec) *sched {
	sc := &sched{ex: ex,
		mutexes: map[*value]*vmutex{}, rwmus: map[*value]*vrwmutex{}, wgs: map[*value]*vwg{},
		onces: map[*value]*vmutex{}, sems: map[*value]*vsem{}, syncMaps: map[*value]*omap{},
		atomics: map[*value]*value{}, natives: map[*value]any{},
	}
	g := &gor{id: 0, name: "main", wake: make(chan struct{}, 1)}
	sc.gs = append(sc.gs, g)
	sc.cur = g
	sc.clock = 1_700_000_000_000_000_000
	return sc
}

func (sc *sched) note(s string) {
	if sc.explore {
		sc.log = append(sc.log, s)
	}
}

// spawn starts fn as a new interpreted goroutine.
func (sc *sched) spawn(name string, fn func()) *gor {
	g := &gor{id: len(sc.gs), name: name, wake: make(chan struct{}, 1)}
	sc.gs = append(sc.gs, g)
	sc.hostWG.Add(1)
	go func() {
		defer sc.hostWG.Done()
		<-g.wake // wait for the baton
		defer func() {
			r := recover()
			g.state = gDone
			if r != nil {
				if ap, ok := r.(abortPath); ok {
					sc.abortFrom(g, ap)
					return
				}
				// uncaught target panic in a goroutine: program crash
				sc.abortFrom(g, abortPath{"panic", "goroutine " + g.name + ": " + panicString(r) + " at " + sc.ex.it.panicSite})
				return
			}
			if sc.aborted {
				return
			}
			// goroutine finished: hand the baton on
			sc.handoff(g)
		}()
		if sc.aborted {
			panic(abortPath{"done", ""})
		}
		fn()
	}()
	sc.yieldPoint("go " + name)
	return g
}

// abortFrom is called when goroutine g ends the whole path.
func (sc *sched) abortFrom(g *gor, ap abortPath) {
	if sc.aborted {
		return
	}
	sc.aborted = true
	sc.ex.pendingAbort = &ap
	// wake the main goroutine so it can unwind
	if g.id != 0 {
		main := sc.gs[0]
		select {
		case main.wake <- struct{}{}:
		default:
		}
	}
}

// shutdown releases every parked host goroutine. Called by main at path end.
func (sc *sched) shutdown() {
	sc.aborted = true
	for _, g := range sc.gs[1:] {
		if g.state != gDone {
			select {
			case g.wake <- struct{}{}:
			default:
			}
		}
	}
	sc.hostWG.Wait()
}

func (sc *sched) checkAbort() {
	if sc.aborted {
		if sc.cur != nil && sc.cur.id == 0 && sc.ex.pendingAbort != nil {
			ap := *sc.ex.pendingAbort
			panic(ap)
		}
		panic(abortPath{"done", ""})
	}
}

// runnable returns goroutines that can make progress now.
func (sc *sched) runnable() []*gor {
	var rs []*gor
	for _, g := range sc.gs {
		switch g.state {
		case gRunnable:
			rs = append(rs, g)
		case gBlocked:
			if g.ready != nil && g.ready() {
				rs = append(rs, g)
			}
		}
	}
	return rs
}

// transfer gives the baton to g and parks the current host goroutine
// (unless it is finished).
func (sc *sched) transfer(from, to *gor, fromDone bool) {
	if from == to {
		return
	}
	sc.cur = to
	to.state = gRunnable
	to.ready = nil
	to.wake <- struct{}{}
	if fromDone {
		return
	}
	<-from.wake
	sc.cur = from
	sc.checkAbort()
}

// dueTimers returns active timers whose deadline has passed.
func (sc *sched) dueTimers() []*vtimer {
	var ds []*vtimer
	for _, t := range sc.timers {
		if t.active && t.deadline <= sc.clock {
			ds = append(ds, t)
		}
	}
	return ds
}

func (sc *sched) fire(t *vtimer) {
	sc.note(fmt.Sprintf("timer#%d.fire", t.id))
	if t.period > 0 {
		t.deadline += t.period
	} else {
		t.active = false
	}
	t.fired = true
	if t.ch != nil {
		// non-blocking send of the current time
		v := sc.ex.it.timeValue(sc.clock)
		if w := t.ch.dequeue(&t.ch.recvq); w != nil {
			w.val, w.ok, w.done = v, true, true
			if w.grp != nil {
				w.grp.fired = w.caseI
				w.grp.recvV, w.grp.recvOK = v, true
			}
		} else if len(t.ch.buf) < t.ch.cap {
			t.ch.buf = append(t.ch.buf, v)
		}
	}
	if t.fn != nil {
		t.fn()
	}
}

// advance moves the clock and fires what is due (deterministic mode fires
// immediately; explore mode leaves firing to scheduling decisions).
func (sc *sched) advance(d int64) {
	sc.clock += d
	if !sc.explore {
		sc.fireDue()
	}
}

func (sc *sched) fireDue() {
	for {
		ds := sc.dueTimers()
		if len(ds) == 0 {
			return
		}
		sort.SliceStable(ds, func(i, j int) bool { return ds[i].deadline < ds[j].deadline })
		sc.fire(ds[0])
	}
}

// pickNext chooses who runs when the current goroutine cannot (blocked/done).
// Returns nil on deadlock.
func (sc *sched) pickNext() *gor {
	for {
		sc.checkAbort()
		rs := sc.runnable()
		due := sc.dueTimers()
		if sc.explore && (len(rs)+len(due)) > 0 {
			n := len(rs) + len(due)
			k := sc.ex.choose(n, "sched")
			if k < len(rs) {
				sc.note("run " + rs[k].name)
				return rs[k]
			}
			sc.fire(due[k-len(rs)])
			continue
		}
		if len(rs) > 0 {
			return rs[0]
		}
		if len(due) > 0 {
			sc.fire(due[0])
			continue
		}
		// nobody runnable: jump the clock to the earliest pending timer
		var earliest *vtimer
		for _, t := range sc.timers {
			if t.active && (earliest == nil || t.deadline < earliest.deadline) {
				earliest = t
			}
		}
		if earliest == nil {
			return nil
		}
		sc.clock = earliest.deadline
		if !sc.explore {
			sc.fire(earliest)
		}
	}
}

// block parks the current goroutine until ready() holds.
func (sc *sched) block(what string, ready func() bool) {
	g := sc.cur
	for !ready() {
		sc.checkAbort()
		g.state = gBlocked
		g.ready = ready
		g.waitOn = what
		next := sc.pickNext()
		if next == nil {
			sc.deadlock()
		}
		if next == g {
			g.state = gRunnable
			g.ready = nil
			continue
		}
		sc.transfer(g, next, false)
	}
	g.state = gRunnable
	g.ready = nil
}

// handoff: goroutine g is finished; pass the baton.
func (sc *sched) handoff(g *gor) {
	defer func() {
		if r := recover(); r != nil {
			if ap, ok := r.(abortPath); ok {
				sc.abortFrom(g, ap)
				return
			}
			panic(r)
		}
	}()
	next := sc.pickNext()
	if next == nil {
		sc.deadlock()
	}
	sc.transfer(g, next, true)
}

func (sc *sched) deadlock() {
	var desc string
	for _, g := range sc.gs {
		if g.state == gBlocked {
			desc += fmt.Sprintf(" [%s waits on %s]", g.name, g.waitOn)
		}
	}
	sc.ex.abort("deadlock", "all goroutines blocked:"+desc)
}

// yieldPoint is a scheduling point at which, in explore mode, another
// runnable goroutine (or a due timer) may be chosen.
func (sc *sched) yieldPoint(what string) {
	sc.checkAbort()
	if !sc.explore {
		return
	}
	g := sc.cur
	for {
		rs := sc.runnable()
		due := sc.dueTimers()
		// order: current goroutine first so that alt 0 = "keep running"
		var others []*gor
		for _, r := range rs {
			if r != g {
				others = append(others, r)
			}
		}
		n := 1 + len(others) + len(due)
		if n == 1 {
			return
		}
		if sc.preempt <= 0 {
			return
		}
		k := sc.ex.choose(n, "yield:"+what)
		if k == 0 {
			return
		}
		sc.preempt--
		if k-1 < len(others) {
			sc.note(fmt.Sprintf("%s: switch %s -> %s", what, g.name, others[k-1].name))
			g.state = gRunnable
			sc.transfer(g, others[k-1], false)
			return
		}
		sc.fire(due[k-1-len(others)])
	}
}

// quiesce blocks the caller until every other goroutine is blocked or done
// and (explore mode) no timer is due. In explore mode the order in which the
// others run and due timers fire is a scheduling choice.
func (sc *sched) quiesce() {
	g := sc.cur
	for {
		sc.checkAbort()
		var others []*gor
		for _, r := range sc.runnable() {
			if r != g {
				others = append(others, r)
			}
		}
		var due []*vtimer
		if sc.explore {
			due = sc.dueTimers()
		}
		n := len(others) + len(due)
		if n == 0 {
			return
		}
		k := 0
		if sc.explore {
			k = sc.ex.choose(n, "quiesce")
		}
		if k < len(others) {
			sc.note("run " + others[k].name)
			g.state = gRunnable
			sc.transfer(g, others[k], false)
			continue
		}
		sc.fire(due[k-len(others)])
	}
}

func panicString(r any) string {
	switch r := r.(type) {
	case targetPanic:
		return "panic: " + toString(r.v)
	case error:
		return r.Error()
	case string:
		return r
	}
	return fmt.Sprint(r)
}

// ---------------------------------------------------------------- channels

type waiter struct {
	g      *gor
	val    value
	ok     bool
	done   bool
	isSend bool
	grp    *selGroup
	caseI  int
}

type selGroup struct {
	fired  int // -1 = not yet
	recvV  value
	recvOK bool
}

type channel struct {
	id     int
	cap    int
	buf    []value
	closed bool
	recvq  []*waiter
	sendq  []*waiter
	zero   func() value
}

func (c *channel) dequeue(q *[]*waiter) *waiter {
	for len(*q) > 0 {
		w := (*q)[0]
		*q = (*q)[1:]
		if w.grp != nil && w.grp.fired >= 0 {
			continue // stale select waiter
		}
		return w
	}
	return nil
}

func removeWaiter(q *[]*waiter, w *waiter) {
	for i, x := range *q {
		if x == w {
			*q = append((*q)[:i], (*q)[i+1:]...)
			return
		}
	}
}

func (sc *sched) chanSend(c *channel, v value) {
	sc.yieldPoint("chan.send")
	if c == nil {
		sc.block("send on nil chan", func() bool { return false })
	}
	if c.closed {
		panic(runtimeError("send on closed channel"))
	}
	if w := c.dequeue(&c.recvq); w != nil {
		w.val, w.ok, w.done = v, true, true
		if w.grp != nil {
			w.grp.fired = w.caseI
			w.grp.recvV, w.grp.recvOK = v, true
		}
		return
	}
	if len(c.buf) < c.cap {
		c.buf = append(c.buf, v)
		return
	}
	w := &waiter{g: sc.cur, val: v, isSend: true}
	c.sendq = append(c.sendq, w)
	sc.block("chan send", func() bool { return w.done || c.closed })
	if !w.done {
		removeWaiter(&c.sendq, w)
		panic(runtimeError("send on closed channel"))
	}
}

func (sc *sched) chanRecv(c *channel) (value, bool) {
	sc.yieldPoint("chan.recv")
	if c == nil {
		sc.block("recv on nil chan", func() bool { return false })
	}
	if v, ok, done := sc.tryRecv(c); done {
		return v, ok
	}
	w := &waiter{g: sc.cur}
	c.recvq = append(c.recvq, w)
	sc.block("chan recv", func() bool { return w.done || c.closed })
	if w.done {
		return w.val, true
	}
	removeWaiter(&c.recvq, w)
	return c.zero(), false
}

// tryRecv: non-blocking receive attempt.
func (sc *sched) tryRecv(c *channel) (v value, ok bool, done bool) {
	if len(c.buf) > 0 {
		v = c.buf[0]
		c.buf = c.buf[1:]
		if w := c.dequeue(&c.sendq); w != nil {
			c.buf = append(c.buf, w.val)
			w.done = true
			if w.grp != nil {
				w.grp.fired = w.caseI
			}
		}
		return v, true, true
	}
	if w := c.dequeue(&c.sendq); w != nil {
		w.done = true
		if w.grp != nil {
			w.grp.fired = w.caseI
		}
		return w.val, true, true
	}
	if c.closed {
		return c.zero(), false, true
	}
	return nil, false, false
}

func (sc *sched) chanClose(c *channel) {
	sc.yieldPoint("chan.close")
	if c == nil {
		panic(runtimeError("close of nil channel"))
	}
	if c.closed {
		panic(runtimeError("close of closed channel"))
	}
	c.closed = true
}

type selCase struct {
	ch     *channel
	isSend bool
	val    value
}

// doSelect implements select. Returns chosen index (-1 = default), the
// received value and ok flag.
func (sc *sched) doSelect(cases []selCase, blocking bool) (int, value, bool) {
	sc.yieldPoint("select")
	for {
		var ready []int
		for i, cs := range cases {
			if cs.ch == nil {
				continue
			}
			if cs.isSend {
				if cs.ch.closed || sc.hasLiveWaiter(cs.ch.recvq) || len(cs.ch.buf) < cs.ch.cap {
					ready = append(ready, i)
				}
			} else {
				if len(cs.ch.buf) > 0 || sc.hasLiveWaiter(cs.ch.sendq) || cs.ch.closed {
					ready = append(ready, i)
				}
			}
		}
		if len(ready) > 0 {
			k := 0
			if len(ready) > 1 && (sc.explore || sc.ex.eng.SelectNondet) {
				k = sc.ex.choose(len(ready), "select-ready")
			}
			i := ready[k]
			cs := cases[i]
			if cs.isSend {
				sc.chanSendNow(cs.ch, cs.val)
				return i, nil, false
			}
			v, ok, _ := sc.tryRecv(cs.ch)
			return i, v, ok
		}
		if !blocking {
			return -1, nil, false
		}
		// park with tentative waiters on every channel
		grp := &selGroup{fired: -1}
		var ws []*waiter
		for i, cs := range cases {
			if cs.ch == nil {
				continue
			}
			w := &waiter{g: sc.cur, val: cs.val, isSend: cs.isSend, grp: grp, caseI: i}
			ws = append(ws, w)
			if cs.isSend {
				cs.ch.sendq = append(cs.ch.sendq, w)
			} else {
				cs.ch.recvq = append(cs.ch.recvq, w)
			}
		}
		anyClosed := func() bool {
			for _, cs := range cases {
				if cs.ch != nil && cs.ch.closed {
					return true
				}
			}
			return false
		}
		sc.block("select", func() bool { return grp.fired >= 0 || anyClosed() })
		for j, w := range ws {
			cs := cases[w.caseI]
			_ = j
			if cs.isSend {
				removeWaiter(&cs.ch.sendq, w)
			} else {
				removeWaiter(&cs.ch.recvq, w)
			}
		}
		if grp.fired >= 0 {
			cs := cases[grp.fired]
			if cs.isSend {
				return grp.fired, nil, false
			}
			return grp.fired, grp.recvV, grp.recvOK
		}
		// a channel was closed: loop to re-evaluate readiness
	}
}

func (sc *sched) hasLiveWaiter(q []*waiter) bool {
	for _, w := range q {
		if w.grp != nil && w.grp.fired >= 0 {
			continue
		}
		if w.g == sc.cur {
			continue
		}
		return true
	}
	return false
}

// chanSendNow performs a send known to be ready.
func (sc *sched) chanSendNow(c *channel, v value) {
	if c.closed {
		panic(runtimeError("send on closed channel"))
	}
	if w := c.dequeue(&c.recvq); w != nil {
		w.val, w.ok, w.done = v, true, true
		if w.grp != nil {
			w.grp.fired = w.caseI
			w.grp.recvV, w.grp.recvOK = v, true
		}
		return
	}
	c.buf = append(c.buf, v)
}

// ---------------------------------------------------------------- sync

type vmutex struct {
	locked bool
	owner  *gor
	done   bool // for Once
}

type vrwmutex struct {
	readers        int
	writer         bool
	writersWaiting int
}

type vwg struct{ n int64 }

type vsem struct {
	size int64
	cur  int64
}

func (sc *sched) mutexOf(p *value) *vmutex {
	m := sc.mutexes[p]
	if m == nil {
		m = &vmutex{}
		sc.mutexes[p] = m
	}
	return m
}

func (sc *sched) rwOf(p *value) *vrwmutex {
	m := sc.rwmus[p]
	if m == nil {
		m = &vrwmutex{}
		sc.rwmus[p] = m
	}
	return m
}

func (sc *sched) wgOf(p *value) *vwg {
	m := sc.wgs[p]
	if m == nil {
		m = &vwg{}
		sc.wgs[p] = m
	}
	return m
}

func (sc *sched) fatal(msg string) {
	sc.ex.abort("panic", "fatal error: "+msg)
}

func (sc *sched) lock(p *value) {
	sc.yieldPoint("Mutex.Lock")
	m := sc.mutexOf(p)
	sc.block("Mutex.Lock", func() bool { return !m.locked })
	m.locked = true
	m.owner = sc.cur
}

func (sc *sched) tryLock(p *value) bool {
	sc.yieldPoint("Mutex.TryLock")
	m := sc.mutexOf(p)
	if m.locked {
		return false
	}
	m.locked = true
	m.owner = sc.cur
	return true
}

func (sc *sched) unlock(p *value) {
	sc.yieldPoint("Mutex.Unlock")
	m := sc.mutexOf(p)
	if !m.locked {
		sc.fatal("sync: unlock of unlocked mutex")
	}
	m.locked = false
	m.owner = nil
}

func (sc *sched) rlock(p *value) {
	sc.yieldPoint("RWMutex.RLock")
	m := sc.rwOf(p)
	sc.block("RWMutex.RLock", func() bool { return !m.writer && m.writersWaiting == 0 })
	m.readers++
}

func (sc *sched) runlock(p *value) {
	sc.yieldPoint("RWMutex.RUnlock")
	m := sc.rwOf(p)
	if m.readers <= 0 {
		sc.fatal("sync: RUnlock of unlocked RWMutex")
	}
	m.readers--
}

func (sc *sched) wlock(p *value) {
	sc.yieldPoint("RWMutex.Lock")
	m := sc.rwOf(p)
	m.writersWaiting++
	sc.block("RWMutex.Lock", func() bool { return !m.writer && m.readers == 0 })
	m.writersWaiting--
	m.writer = true
}

func (sc *sched) wunlock(p *value) {
	sc.yieldPoint("RWMutex.Unlock")
	m := sc.rwOf(p)
	if !m.writer {
		sc.fatal("sync: Unlock of unlocked RWMutex")
	}
	m.writer = false
}

func (sc *sched) wgAdd(p *value, d int64) {
	sc.yieldPoint("WaitGroup.Add")
	w := sc.wgOf(p)
	w.n += d
	if w.n < 0 {
		panic(targetPanic{iface{t: nil, v: "sync: negative WaitGroup counter"}})
	}
}

func (sc *sched) wgWait(p *value) {
	sc.yieldPoint("WaitGroup.Wait")
	w := sc.wgOf(p)
	sc.block("WaitGroup.Wait", func() bool { return w.n == 0 })
}

// ---------------------------------------------------------------- timers

func (sc *sched) newTimer(d int64, ch *channel, fn func(), period int64) *vtimer {
	sc.nextTid++
	t := &vtimer{id: sc.nextTid, deadline: sc.clock + d, ch: ch, fn: fn, period: period, active: true}
	sc.timers = append(sc.timers, t)
	return t
}

func (sc *sched) sleep(d int64) {
	if d <= 0 {
		sc.yieldPoint("Sleep")
		return
	}
	t := sc.newTimer(d, nil, nil, 0)
	sc.block("time.Sleep", func() bool { return t.fired })
}
