package interp

// encoding/json: Marshal writes the decoded-value tree (any / map[string]any /
// []any / scalars) as text with sorted object keys (a string term when leaves
// are symbolic); Unmarshal / Decoder.Decode parse concrete text natively and
// build the decoded-value tree.

import (
	"bytes"
	"encoding/json"
	"fmt"
	"go/types"
	"sort"
	"strconv"
)

var emptyIfaceT = types.NewInterfaceType(nil, nil)
var anySliceT = types.NewSlice(emptyIfaceT)
var anyMapT = types.NewMap(types.Typ[types.String], emptyIfaceT)

func (ex *exec) jsonText(v value, t types.Type) *Term {
	switch x := v.(type) {
	case iface:
		if x.t == nil {
			return mkStr("null")
		}
		return ex.jsonText(x.v, x.t)
	case nil:
		return mkStr("null")
	case bool:
		return mkStr(strconv.FormatBool(x))
	case string:
		b, _ := json.Marshal(x)
		return mkStr(string(b))
	case float64:
		b, _ := json.Marshal(x)
		return mkStr(string(b))
	case float32:
		b, _ := json.Marshal(x)
		return mkStr(string(b))
	case sym:
		switch {
		case x.k == types.String:
			ex.assumeOrAbort(tAnd(tNot(tStrOp("str.contains", SBool, x.t, mkStr("\""))), tNot(tStrOp("str.contains", SBool, x.t, mkStr("\\")))), "symbolic string in json.Marshal contains no quote/backslash")
			return tConcat(mkStr("\""), x.t, mkStr("\""))
		case x.k == types.Bool:
			return tIte(x.t, mkStr("true"), mkStr("false"))
		case isIntKind(x.k):
			return termOf(ex.intToDigits(x.t))
		}
		ex.unsupported("json.Marshal of symbolic " + fmt.Sprint(x.k))
	case []value:
		if x == nil {
			return mkStr("null")
		}
		var et types.Type = emptyIfaceT
		if t != nil {
			if sl, ok := t.Underlying().(*types.Slice); ok {
				et = sl.Elem()
				if b, ok := et.Underlying().(*types.Basic); ok && b.Kind() == types.Uint8 {
					ex.unsupported("json.Marshal of []byte")
				}
			}
		}
		parts := []*Term{mkStr("[")}
		for i, e := range x {
			if i > 0 {
				parts = append(parts, mkStr(","))
			}
			parts = append(parts, ex.jsonText(e, et))
		}
		parts = append(parts, mkStr("]"))
		return tConcat(parts...)
	case *omap:
		if x == nil {
			return mkStr("null")
		}
		var et types.Type = emptyIfaceT
		if t != nil {
			if mt, ok := t.Underlying().(*types.Map); ok {
				et = mt.Elem()
			}
		}
		type kv struct {
			k string
			v value
		}
		var kvs []kv
		for _, e := range x.entries {
			if e == nil {
				continue
			}
			ks, ok := e.key.(string)
			if !ok {
				ex.unsupported("json.Marshal of a map with non-concrete-string keys")
			}
			kvs = append(kvs, kv{ks, e.val})
		}
		sort.Slice(kvs, func(i, j int) bool { return kvs[i].k < kvs[j].k })
		parts := []*Term{mkStr("{")}
		for i, p := range kvs {
			if i > 0 {
				parts = append(parts, mkStr(","))
			}
			kb, _ := json.Marshal(p.k)
			parts = append(parts, mkStr(string(kb)+":"), ex.jsonText(p.v, et))
		}
		parts = append(parts, mkStr("}"))
		return tConcat(parts...)
	case *value:
		if x == nil {
			return mkStr("null")
		}
		ex.unsupported("json.Marshal of a pointer/struct value")
	case structure:
		ex.unsupported("json.Marshal of a struct value")
	}
	if n := bigOf(v); n != nil {
		return mkStr(n.String())
	}
	ex.unsupported(fmt.Sprintf("json.Marshal of %T", v))
	return nil
}

// fromNativeJSON converts a natively decoded JSON value into interpreter values.
func fromNativeJSON(i *interpreter, v any) value {
	switch x := v.(type) {
	case nil:
		return iface{}
	case bool:
		return iface{t: types.Typ[types.Bool], v: x}
	case float64:
		return iface{t: types.Typ[types.Float64], v: x}
	case string:
		return iface{t: types.Typ[types.String], v: x}
	case json.Number:
		if nt := i.namedType("encoding/json", "Number"); nt != nil {
			return iface{t: nt, v: string(x)}
		}
		return iface{t: types.Typ[types.String], v: string(x)}
	case []any:
		out := make([]value, len(x))
		for k, e := range x {
			out[k] = fromNativeJSON(i, e)
		}
		return iface{t: anySliceT, v: out}
	case map[string]any:
		m := makeMap(types.Typ[types.String], 0).(*omap)
		ks := make([]string, 0, len(x))
		for k := range x {
			ks = append(ks, k)
		}
		sort.Strings(ks)
		for _, k := range ks {
			m.insert(nil, k, fromNativeJSON(i, x[k]))
		}
		return iface{t: anyMapT, v: m}
	}
	panic(fmt.Sprintf("fromNativeJSON: %T", v))
}

func concreteBytes(ex *exec, v value, what string) []byte {
	s, _ := v.([]value)
	out := make([]byte, len(s))
	for i, b := range s {
		switch b := b.(type) {
		case uint8:
			out[i] = b
		default:
			ex.unsupported(what + " on symbolic or boxed bytes")
		}
	}
	return out
}

func (e *Engine) initJSONExternals() {
	t := e.extTable
	t["encoding/json.Marshal"] = func(fr *frame, a []value) value {
		ex := fr.i.ex
		txt := ex.jsonText(a[0], nil)
		var bs []value
		if txt.isConst() {
			bs = make([]value, len(txt.s))
			for i := 0; i < len(txt.s); i++ {
				bs[i] = txt.s[i]
			}
		} else {
			bs = ex.symBytes(txt, "json.Marshal")
		}
		return tuple{bs, iface{}}
	}
	decodeInto := func(fr *frame, data []byte, target value, useNumber bool) value {
		dec := json.NewDecoder(bytes.NewReader(data))
		if useNumber {
			dec.UseNumber()
		}
		var nv any
		if err := dec.Decode(&nv); err != nil {
			return fr.i.newErrorString(err.Error())
		}
		itf, _ := target.(iface)
		p, _ := itf.v.(*value)
		if p == nil {
			fr.i.ex.unsupported("json decode into a non-pointer target")
		}
		pt, _ := itf.t.Underlying().(*types.Pointer)
		if pt == nil {
			fr.i.ex.unsupported("json decode target type")
		}
		dv := fromNativeJSON(fr.i, nv)
		switch pt.Elem().Underlying().(type) {
		case *types.Interface:
			*p = dv
		case *types.Map:
			d := dv.(iface)
			if m, ok := d.v.(*omap); ok {
				*p = m
			} else if d.t == nil {
				*p = (*omap)(nil)
			} else {
				return fr.i.newErrorString("json: cannot unmarshal into Go value of type map")
			}
		default:
			fr.i.ex.unsupported("json decode into " + pt.Elem().String())
		}
		return iface{}
	}
	t["encoding/json.Unmarshal"] = func(fr *frame, a []value) value {
		return decodeInto(fr, concreteBytes(fr.i.ex, a[0], "json.Unmarshal"), a[1], false)
	}
	// Decoder over bytes.NewReader: carried as a native object
	type vdec struct {
		data      []byte
		useNumber bool
		done      bool
	}
	t["bytes.NewReader"] = func(fr *frame, a []value) value {
		return &nativeObj{concreteBytes(fr.i.ex, a[0], "bytes.NewReader")}
	}
	t["encoding/json.NewDecoder"] = func(fr *frame, a []value) value {
		itf, _ := a[0].(iface)
		no, _ := itf.v.(*nativeObj)
		if no == nil {
			fr.i.ex.unsupported("json.NewDecoder over a reader other than bytes.NewReader")
		}
		return &nativeObj{&vdec{data: no.v.([]byte)}}
	}
	t["(*encoding/json.Decoder).UseNumber"] = func(fr *frame, a []value) value {
		a[0].(*nativeObj).v.(*vdec).useNumber = true
		return nil
	}
	t["(*encoding/json.Decoder).Decode"] = func(fr *frame, a []value) value {
		d := a[0].(*nativeObj).v.(*vdec)
		if d.done {
			return fr.i.sentinel("io", "EOF", "EOF")
		}
		d.done = true
		return decodeInto(fr, d.data, a[1], d.useNumber)
	}
	t["(encoding/json.Number).String"] = func(fr *frame, a []value) value { return a[0] }
	t["(encoding/json.Number).Int64"] = func(fr *frame, a []value) value {
		n, err := json.Number(a[0].(string)).Int64()
		if err != nil {
			return tuple{int64(0), fr.i.newErrorString(err.Error())}
		}
		return tuple{n, iface{}}
	}
	t["(encoding/json.Number).Float64"] = func(fr *frame, a []value) value {
		n, err := json.Number(a[0].(string)).Float64()
		if err != nil {
			return tuple{float64(0), fr.i.newErrorString(err.Error())}
		}
		return tuple{n, iface{}}
	}
}
