package interp

// Symbolic models of strings/strconv/fmt functions.

import (
	"fmt"
	"go/token"
	"go/types"
	"math/big"
	"strconv"
	"strings"
)

const tokLSS = token.LSS

// withModel installs a symbolic model that is used when some operand is
// symbolic; otherwise the native bridge runs.
func (e *Engine) withModel(name string, model externalFn) {
	native := e.extTable[name]
	e.extTable[name] = func(fr *frame, a []value) value {
		if anySym(a) {
			return model(fr, a)
		}
		return native(fr, a)
	}
}

func boolV(t *Term) value { return valueOfTerm(t, types.Bool) }
func strV(t *Term) value  { return valueOfTerm(t, types.String) }
func intV(t *Term) value  { return valueOfTerm(t, types.Int) }

func (e *Engine) initStringModels() {
	e.withModel("strings.HasPrefix", func(fr *frame, a []value) value {
		return boolV(tStrOp("str.prefixof", SBool, termOf(a[1]), termOf(a[0])))
	})
	e.withModel("strings.HasSuffix", func(fr *frame, a []value) value {
		return boolV(tStrOp("str.suffixof", SBool, termOf(a[1]), termOf(a[0])))
	})
	e.withModel("strings.Contains", func(fr *frame, a []value) value {
		return boolV(tStrOp("str.contains", SBool, termOf(a[0]), termOf(a[1])))
	})
	e.withModel("strings.Index", func(fr *frame, a []value) value {
		return intV(mkApp("str.indexof", SInt, termOf(a[0]), termOf(a[1]), mkInt64(0)))
	})
	// LastIndex: a fresh integer k constrained to be the last occurrence
	lastIndex := func(fr *frame, s, sub *Term) value {
		ex := fr.i.ex
		ex.ndig++
		k := mkVar(fmt.Sprintf("lastidx!%d!%d", len(ex.taken), ex.ndig), SInt)
		ex.solver.Ref(k)
		ex.aux = append(ex.aux, k)
		n := tStrLen(s)
		m := tStrLen(sub)
		none := tAnd(tEq(k, mkInt64(-1)), tNot(tStrOp("str.contains", SBool, s, sub)))
		rest := mkApp("str.substr", SStr, s, tAdd(k, mkInt64(1)), n)
		some := tAnd(tCmp("<=", mkInt64(0), k), tCmp("<=", tAdd(k, m), n),
			tEq(mkApp("str.substr", SStr, s, k, m), sub),
			tNot(tStrOp("str.contains", SBool, rest, sub)))
		ex.assume(tOr(none, some))
		return intV(k)
	}
	e.withModel("strings.LastIndex", func(fr *frame, a []value) value {
		sub := termOf(a[1])
		if !(sub.isConst() && len(sub.s) == 1) {
			// only single-character needles have an exact encoding here (no overlapping matches)
			a = fr.i.ex.concretizeArgs(a, "strings.LastIndex(multi-char needle)")
			return strings.LastIndex(a[0].(string), a[1].(string))
		}
		return lastIndex(fr, termOf(a[0]), sub)
	})
	e.withModel("strings.LastIndexByte", func(fr *frame, a []value) value {
		sub := termOf(fr.i.ex.byteToString(a[1]))
		if !(sub.isConst() && len(sub.s) == 1) {
			fr.i.ex.unsupported("strings.LastIndexByte with a symbolic byte")
		}
		return lastIndex(fr, termOf(a[0]), sub)
	})
	e.withModel("strings.IndexByte", func(fr *frame, a []value) value {
		return intV(mkApp("str.indexof", SInt, termOf(a[0]), termOf(fr.i.ex.byteToString(a[1])), mkInt64(0)))
	})
	e.withModel("strings.Compare", func(fr *frame, a []value) value {
		x, y := termOf(a[0]), termOf(a[1])
		return intV(tIte(tEq(x, y), mkInt64(0), tIte(tStrOp("str.<", SBool, x, y), mkInt64(-1), mkInt64(1))))
	})
	e.withModel("strings.Join", func(fr *frame, a []value) value {
		elems := a[0].([]value)
		sep := termOf(a[1])
		var parts []*Term
		for i, el := range elems {
			if i > 0 {
				parts = append(parts, sep)
			}
			parts = append(parts, termOf(el))
		}
		return strV(tConcat(parts...))
	})
	e.withModel("strings.TrimPrefix", func(fr *frame, a []value) value {
		s, p := termOf(a[0]), termOf(a[1])
		return strV(tIte(tStrOp("str.prefixof", SBool, p, s), mkSubstr(s, tStrLen(p), tSub(tStrLen(s), tStrLen(p))), s))
	})
	e.withModel("strings.TrimSuffix", func(fr *frame, a []value) value {
		s, p := termOf(a[0]), termOf(a[1])
		return strV(tIte(tStrOp("str.suffixof", SBool, p, s), mkSubstr(s, mkInt64(0), tSub(tStrLen(s), tStrLen(p))), s))
	})
	e.withModel("strings.Cut", func(fr *frame, a []value) value {
		s, sep := termOf(a[0]), termOf(a[1])
		idx := mkApp("str.indexof", SInt, s, sep, mkInt64(0))
		found := tCmp(">=", idx, mkInt64(0))
		before := tIte(found, mkSubstr(s, mkInt64(0), idx), s)
		off := tAdd(idx, tStrLen(sep))
		after := tIte(found, mkSubstr(s, off, tSub(tStrLen(s), off)), mkStr(""))
		return tuple{strV(before), strV(after), boolV(found)}
	})
	e.withModel("strings.Repeat", func(fr *frame, a []value) value {
		n := int(fr.i.ex.concreteInt(a[1], "strings.Repeat count"))
		parts := make([]*Term, n)
		for i := range parts {
			parts[i] = termOf(a[0])
		}
		return strV(tConcat(parts...))
	})
	caseSeq := func(t *Term, lo, hi byte, delta int64) (value, bool) {
		// a string that is a sequence of characters of known length: per character, no string theory
		cs, ok := charSeq(t)
		if !ok {
			return nil, false
		}
		out := make([]*Term, len(cs))
		for i, c := range cs {
			if c.isConst() {
				b := c.n.Int64()
				if b >= int64(lo) && b <= int64(hi) {
					b += delta
				}
				out[i] = mkInt64(b)
				continue
			}
			out[i] = tIte(tAnd(tCmp(">=", c, mkInt64(int64(lo))), tCmp("<=", c, mkInt64(int64(hi)))), tAdd(c, mkInt64(delta)), c)
		}
		return strV(seqStr(out)), true
	}
	e.withModel("strings.ToLower", func(fr *frame, a []value) value {
		ex := fr.i.ex
		if v, ok := caseSeq(termOf(a[0]), 'A', 'Z', 32); ok {
			return v
		}
		bs := ex.symBytes(termOf(a[0]), "ToLower")
		parts := make([]*Term, len(bs))
		for i, b := range bs {
			bt := termOf(b)
			low := tIte(tAnd(tCmp(">=", bt, mkInt64('A')), tCmp("<=", bt, mkInt64('Z'))), tAdd(bt, mkInt64(32)), bt)
			parts[i] = codeToStr(low)
		}
		return strV(tConcat(parts...))
	})
	e.withModel("strings.ToUpper", func(fr *frame, a []value) value {
		ex := fr.i.ex
		if v, ok := caseSeq(termOf(a[0]), 'a', 'z', -32); ok {
			return v
		}
		bs := ex.symBytes(termOf(a[0]), "ToUpper")
		parts := make([]*Term, len(bs))
		for i, b := range bs {
			bt := termOf(b)
			up := tIte(tAnd(tCmp(">=", bt, mkInt64('a')), tCmp("<=", bt, mkInt64('z'))), tSub(bt, mkInt64(32)), bt)
			parts[i] = codeToStr(up)
		}
		return strV(tConcat(parts...))
	})
	e.withModel("strings.TrimSpace", func(fr *frame, a []value) value {
		return fr.i.ex.trimFunc(termOf(a[0]), isSpaceTerm, true, true)
	})
	trimSet := func(left, right bool) externalFn {
		return func(fr *frame, a []value) value {
			cut, ok := a[1].(string)
			if !ok {
				fr.i.ex.unsupported("strings.Trim with symbolic cutset")
			}
			return fr.i.ex.trimFunc(termOf(a[0]), func(b *Term) *Term { return inSetTerm(b, cut) }, left, right)
		}
	}
	e.withModel("strings.Trim", trimSet(true, true))
	e.withModel("strings.TrimLeft", trimSet(true, false))
	e.withModel("strings.TrimRight", trimSet(false, true))
	e.withModel("strings.Split", func(fr *frame, a []value) value {
		return fr.i.ex.splitSym(a[0], a[1], -1)
	})
	e.withModel("strings.SplitN", func(fr *frame, a []value) value {
		n := int(fr.i.ex.concreteInt(a[2], "SplitN n"))
		return fr.i.ex.splitSym(a[0], a[1], n)
	})
	e.withModel("strings.Count", func(fr *frame, a []value) value {
		parts := fr.i.ex.splitSym(a[0], a[1], -1).([]value)
		return len(parts) - 1
	})
	e.withModel("strings.ReplaceAll", func(fr *frame, a []value) value {
		ex := fr.i.ex
		parts := ex.splitSym(a[0], a[1], -1).([]value)
		var ts []*Term
		for i, p := range parts {
			if i > 0 {
				ts = append(ts, termOf(a[2]))
			}
			ts = append(ts, termOf(p))
		}
		return strV(tConcat(ts...))
	})
	e.withModel("strings.Fields", func(fr *frame, a []value) value {
		ex := fr.i.ex
		bs := ex.symBytes(termOf(a[0]), "Fields")
		var out []value
		var cur []*Term
		for _, b := range bs {
			if ex.decideBool(isSpaceTerm(termOf(b)), "Fields-space") {
				if cur != nil {
					out = append(out, strV(tConcat(cur...)))
					cur = nil
				}
			} else {
				cur = append(cur, codeToStr(termOf(b)))
			}
		}
		if cur != nil {
			out = append(out, strV(tConcat(cur...)))
		}
		return out
	})
	e.withModel("unicode/utf8.RuneCountInString", func(fr *frame, a []value) value {
		return intV(tStrLen(termOf(a[0]))) // ASCII assumption
	})
	e.withModel("unicode/utf8.ValidString", func(fr *frame, a []value) value { return true })

	// strconv
	e.withModel("strconv.Itoa", func(fr *frame, a []value) value {
		return fr.i.ex.intToDigits(termOf(a[0]))
	})
	e.withModel("strconv.FormatInt", func(fr *frame, a []value) value {
		if b, ok := a[1].(int); !ok || b != 10 {
			fr.i.ex.unsupported("FormatInt base != 10 on symbolic value")
		}
		return fr.i.ex.intToDigits(termOf(a[0]))
	})
	e.withModel("strconv.FormatUint", func(fr *frame, a []value) value {
		if b, ok := a[1].(int); !ok || b != 10 {
			fr.i.ex.unsupported("FormatUint base != 10 on symbolic value")
		}
		return fr.i.ex.intToDigits(termOf(a[0]))
	})
	e.withModel("strconv.FormatBool", func(fr *frame, a []value) value {
		return strV(tIte(termOf(a[0]), mkStr("true"), mkStr("false")))
	})
	e.withModel("strconv.Atoi", func(fr *frame, a []value) value {
		v, err := fr.i.ex.parseIntSym(fr, "Atoi", termOf(a[0]), 10, 64, true)
		if err.(iface).t != nil {
			return tuple{0, err}
		}
		return tuple{fr.i.ex.conv(types.Typ[types.Int], types.Typ[types.Int64], v), err}
	})
	e.withModel("strconv.ParseInt", func(fr *frame, a []value) value {
		base := int(fr.i.ex.concreteInt(a[1], "ParseInt base"))
		bits := int(fr.i.ex.concreteInt(a[2], "ParseInt bitSize"))
		v, err := fr.i.ex.parseIntSym(fr, "ParseInt", termOf(a[0]), base, bits, true)
		return tuple{v, err}
	})
	e.withModel("strconv.ParseUint", func(fr *frame, a []value) value {
		base := int(fr.i.ex.concreteInt(a[1], "ParseUint base"))
		bits := int(fr.i.ex.concreteInt(a[2], "ParseUint bitSize"))
		v, err := fr.i.ex.parseIntSym(fr, "ParseUint", termOf(a[0]), base, bits, false)
		return tuple{v, err}
	})
	e.withModel("strconv.ParseBool", func(fr *frame, a []value) value {
		ex := fr.i.ex
		s := termOf(a[0])
		for _, lit := range []string{"1", "t", "T", "TRUE", "true", "True"} {
			if ex.decideBool(tEq(s, mkStr(lit)), "ParseBool") {
				return tuple{true, iface{}}
			}
		}
		for _, lit := range []string{"0", "f", "F", "FALSE", "false", "False"} {
			if ex.decideBool(tEq(s, mkStr(lit)), "ParseBool") {
				return tuple{false, iface{}}
			}
		}
		return tuple{false, fr.i.newErrorString("strconv.ParseBool: invalid syntax")}
	})
}

func codeToStr(b *Term) *Term { return codeStr(b) }

func isSpaceTerm(b *Term) *Term {
	return tOr(tEq(b, mkInt64(' ')), tAnd(tCmp(">=", b, mkInt64(9)), tCmp("<=", b, mkInt64(13))))
}

func inSetTerm(b *Term, set string) *Term {
	var alts []*Term
	for i := 0; i < len(set); i++ {
		alts = append(alts, tEq(b, mkInt64(int64(set[i]))))
	}
	return tOr(alts...)
}

// symBytes returns the bytes of a (possibly symbolic) string, forking on its length.
func (ex *exec) symBytes(s *Term, what string) []value {
	if s.op == "str.++" {
		// part by part: the length bound applies to every symbolic part, constant text may be of any length
		var out []value
		for _, p := range s.args {
			out = append(out, ex.symBytes(p, what)...)
		}
		return out
	}
	n := ex.concretizeLen(s, what)
	out := make([]value, n)
	for i := range out {
		out[i] = ex.strByteAt(s, int64(i), types.Uint8)
	}
	return out
}

func (ex *exec) bytesToStr(bs []value) value {
	parts := make([]*Term, len(bs))
	for i, b := range bs {
		parts[i] = codeToStr(termOf(b))
	}
	return strV(tConcat(parts...))
}

func (ex *exec) trimFunc(s *Term, pred func(*Term) *Term, left, right bool) value {
	bs := ex.symBytes(s, "Trim")
	lo, hi := 0, len(bs)
	if left {
		for lo < hi && ex.decideBool(pred(termOf(bs[lo])), "trim-left") {
			lo++
		}
	}
	if right {
		for hi > lo && ex.decideBool(pred(termOf(bs[hi-1])), "trim-right") {
			hi--
		}
	}
	return ex.bytesToStr(bs[lo:hi])
}

// splitSym implements strings.SplitN for a symbolic subject and concrete separator.
func (ex *exec) splitSym(sv, sepv value, n int) value {
	sep, ok := sepv.(string)
	if !ok {
		ex.unsupported("strings.Split with symbolic separator")
	}
	if n == 0 {
		return []value(nil)
	}
	bs := ex.symBytes(termOf(sv), "Split")
	if sep == "" {
		var out []value
		for i, b := range bs {
			if n > 0 && i == n-1 {
				out = append(out, ex.bytesToStr(bs[i:]))
				return out
			}
			out = append(out, ex.bytesToStr([]value{b}))
		}
		return out
	}
	var out []value
	start := 0
	i := 0
	for i+len(sep) <= len(bs) {
		if n > 0 && len(out) == n-1 {
			break
		}
		var eqs []*Term
		for k := 0; k < len(sep); k++ {
			eqs = append(eqs, tEq(termOf(bs[i+k]), mkInt64(int64(sep[k]))))
		}
		if ex.decideBool(tAnd(eqs...), "split-sep") {
			out = append(out, ex.bytesToStr(bs[start:i]))
			i += len(sep)
			start = i
		} else {
			i++
		}
	}
	out = append(out, ex.bytesToStr(bs[start:]))
	return out
}

// intToDigits renders an integer term in decimal with explicit digit
// variables (linear arithmetic), forking on sign and digit count.
func (ex *exec) intToDigits(x *Term) value {
	if x.isConst() {
		return x.n.String()
	}
	neg := ex.decideBool(tCmp("<", x, mkInt64(0)), "itoa-sign")
	abs := x
	if neg {
		abs = tNeg(x)
	}
	// digit count 1..20
	var conds []*Term
	pow := big.NewInt(1)
	bounds := []*big.Int{big.NewInt(0)}
	for n := 1; n <= 20; n++ {
		pow = new(big.Int).Mul(pow, big.NewInt(10))
		bounds = append(bounds, pow)
	}
	for n := 1; n <= 20; n++ {
		lo := bounds[n-1]
		if n == 1 {
			lo = big.NewInt(0)
		}
		conds = append(conds, tAnd(tCmp(">=", abs, mkInt(lo)), tCmp("<", abs, mkInt(bounds[n]))))
	}
	n := ex.decide(conds, "itoa-digits") + 1
	ex.ndig++
	var sum *Term = mkInt64(0)
	parts := make([]*Term, 0, n+1)
	if neg {
		parts = append(parts, mkStr("-"))
	}
	p := new(big.Int).Exp(big.NewInt(10), big.NewInt(int64(n-1)), nil)
	for i := 0; i < n; i++ {
		d := mkVar(fmt.Sprintf("dig!%d!%d!%d", len(ex.taken), ex.ndig, i), SInt)
		ex.solver.Ref(d)
		ex.aux = append(ex.aux, d)
		lo := int64(0)
		if i == 0 && n > 1 {
			lo = 1
		}
		ex.assumeQuiet(tAnd(tCmp(">=", d, mkInt64(lo)), tCmp("<=", d, mkInt64(9))))
		sum = tAdd(sum, tMul(mkInt(p), d))
		parts = append(parts, mkApp("str.from_code", SStr, tAdd(d, mkInt64(48))))
		p = new(big.Int).Div(p, big.NewInt(10))
	}
	ex.assumeQuiet(tEq(abs, sum))
	return strV(tConcat(parts...))
}

// parseIntSym models strconv.ParseInt/ParseUint/Atoi on a symbolic string
// (base 10 only), byte by byte with linear arithmetic.
func (ex *exec) parseIntSym(fr *frame, fn string, s *Term, base, bitSize int, signed bool) (value, value) {
	if base != 10 {
		ex.unsupported(fn + " base != 10 on symbolic string")
	}
	if bitSize == 0 {
		bitSize = 64
	}
	zeroV := func() value {
		if signed {
			return int64(0)
		}
		return uint64(0)
	}
	syntaxErr := func() (value, value) {
		return zeroV(), fr.i.numError(fn, "invalid syntax", "ErrSyntax")
	}
	bs := ex.symBytes(s, fn)
	if len(bs) == 0 {
		return syntaxErr()
	}
	negative := false
	i := 0
	if signed {
		b0 := termOf(bs[0])
		if ex.decideBool(tEq(b0, mkInt64('-')), fn+"-minus") {
			negative = true
			i = 1
		} else if ex.decideBool(tEq(b0, mkInt64('+')), fn+"-plus") {
			i = 1
		}
	}
	if i >= len(bs) {
		return syntaxErr()
	}
	var acc *Term = mkInt64(0)
	for ; i < len(bs); i++ {
		b := termOf(bs[i])
		isDigit := tAnd(tCmp(">=", b, mkInt64('0')), tCmp("<=", b, mkInt64('9')))
		if !ex.decideBool(isDigit, fn+"-digit") {
			return syntaxErr()
		}
		acc = tAdd(tMul(mkInt64(10), acc), tSub(b, mkInt64(48)))
	}
	one := big.NewInt(1)
	if signed {
		cutoff := new(big.Int).Lsh(one, uint(bitSize-1))
		if negative {
			if ex.decideBool(tCmp(">", acc, mkInt(cutoff)), fn+"-range") {
				return concreteOf(types.Int64, new(big.Int).Neg(cutoff)), fr.i.numError(fn, "value out of range", "ErrRange")
			}
			return valueOfTerm(tNeg(acc), types.Int64), iface{}
		}
		if ex.decideBool(tCmp(">=", acc, mkInt(cutoff)), fn+"-range") {
			return concreteOf(types.Int64, new(big.Int).Sub(cutoff, one)), fr.i.numError(fn, "value out of range", "ErrRange")
		}
		return valueOfTerm(acc, types.Int64), iface{}
	}
	max := new(big.Int).Lsh(one, uint(bitSize))
	if ex.decideBool(tCmp(">=", acc, mkInt(max)), fn+"-range") {
		return concreteOf(types.Uint64, new(big.Int).Sub(max, one)), fr.i.numError(fn, "value out of range", "ErrRange")
	}
	return valueOfTerm(acc, types.Uint64), iface{}
}

func (i *interpreter) numError(fn, msg, sentinel string) value {
	if t := i.namedType("strconv", "NumError"); t != nil {
		var s value = structure{fn, "<symbolic>", i.sentinel("strconv", sentinel, msg)}
		return iface{t: types.NewPointer(t), v: &s}
	}
	return i.newErrorString("strconv." + fn + ": " + msg)
}

// sprintf models fmt.Sprintf.
func (i *interpreter) sprintf(format value, args []value) value {
	f, ok := format.(string)
	if !ok {
		return "<symbolic format>"
	}
	var parts []*Term
	argi := 0
	for p := 0; p < len(f); {
		if f[p] != '%' {
			q := strings.IndexByte(f[p:], '%')
			if q < 0 {
				q = len(f) - p
			}
			parts = append(parts, mkStr(f[p:p+q]))
			p += q
			continue
		}
		// parse verb
		q := p + 1
		for q < len(f) && strings.IndexByte("+-# 0123456789.*[]", f[q]) >= 0 {
			q++
		}
		if q >= len(f) {
			parts = append(parts, mkStr(f[p:]))
			break
		}
		verb := f[q]
		spec := f[p : q+1]
		p = q + 1
		if verb == '%' {
			parts = append(parts, mkStr("%"))
			continue
		}
		if argi >= len(args) {
			parts = append(parts, mkStr("%!"+string(verb)+"(MISSING)"))
			continue
		}
		arg := args[argi]
		argi++
		parts = append(parts, i.formatArg(spec, verb, arg))
	}
	return strV(tConcat(parts...))
}

func (i *interpreter) formatArg(spec string, verb byte, arg value) *Term {
	itf, isIface := arg.(iface)
	var v value = arg
	var t types.Type
	if isIface {
		if itf.t == nil {
			return mkStr("<nil>")
		}
		v, t = itf.v, itf.t
	}
	if verb == 'T' {
		if t != nil {
			return mkStr(t.String())
		}
		return mkStr("?")
	}
	// errors and stringers
	if t != nil && verb != 'd' && verb != 'p' {
		if i.implementsError(t) {
			if p, ok := v.(*value); ok && p == nil {
				return mkStr("<nil>")
			}
			return termOf(i.errorString(nil, itf))
		}
	}
	switch v := v.(type) {
	case sym:
		switch {
		case v.k == types.String:
			if verb == 'q' {
				return tConcat(mkStr(`"`), v.t, mkStr(`"`))
			}
			return v.t
		case v.k == types.Bool:
			return tIte(v.t, mkStr("true"), mkStr("false"))
		case isIntKind(v.k):
			if verb == 'd' || verb == 'v' {
				if spec == "%d" || spec == "%v" {
					// non-forking rendering (most formatted integers end up in log or error text)
					return tIte(tCmp("<", v.t, mkInt64(0)), tConcat(mkStr("-"), mkApp("str.from_int", SStr, tNeg(v.t))), mkApp("str.from_int", SStr, v.t))
				}
			}
		}
		i.ex.res.Stubs["fmt:opaque-symbolic-"+spec]++
		return mkStr("<sym>")
	case bool, int, int8, int16, int32, int64, uint, uint8, uint16, uint32, uint64, uintptr, float32, float64, string:
		if t != nil && verb != 'd' && verb != 'x' && verb != 'c' && verb != 'q' {
			// named basic types with String methods (enums): opaque
			if _, named := t.(*types.Named); named && i.methodByName(t, "String") != nil {
				if m := i.methodByName(t, "String"); m != nil && m.Blocks != nil && i.eng.simpleStringer(m) {
					return termOf(call(i, nil, 0, m, []value{v}))
				}
				return mkStr(fmt.Sprintf("%v", v))
			}
		}
		return mkStr(fmt.Sprintf(spec, v))
	case []value:
		var ps []*Term
		ps = append(ps, mkStr("["))
		for k, el := range v {
			if k > 0 {
				ps = append(ps, mkStr(" "))
			}
			var et types.Type
			if t != nil {
				if sl, ok := t.Underlying().(*types.Slice); ok {
					et = sl.Elem()
				}
			}
			ea := el
			if _, ok := el.(iface); !ok && et != nil {
				ea = iface{t: et, v: el}
			}
			ps = append(ps, i.formatArg("%v", 'v', ea))
		}
		ps = append(ps, mkStr("]"))
		return tConcat(ps...)
	case *value:
		if v == nil {
			return mkStr("<nil>")
		}
	}
	i.ex.res.Stubs["fmt:opaque"]++
	if t != nil {
		return mkStr("<" + t.String() + ">")
	}
	return mkStr("<?>")
}

func (e *Engine) simpleStringer(m interface{ String() string }) bool { return false }

var _ = strconv.Itoa
