package interp

// Insertion-ordered map used for every Go map. Deterministic iteration makes
// re-execution of a decision trace reproducible; symbolic keys are compared
// through the solver (forking).

import (
	"go/types"
)

type mentry struct {
	key value
	val value
}

type omap struct {
	keyType types.Type
	entries []*mentry     // nil = deleted (tombstone)
	idx     map[any][]int // hash -> positions (concrete keys only)
	nsym    int           // entries with symbolic keys
	n       int
}

func makeMap(kt types.Type, reserve int64) value {
	return &omap{keyType: kt, idx: map[any][]int{}}
}

func (m *omap) len() int {
	if m == nil {
		return 0
	}
	return m.n
}

// hashKey returns a comparable hash for a concrete key, or ok=false if the
// key contains symbolic parts.
func hashKey(v value) (h any, ok bool) {
	switch v := v.(type) {
	case sym:
		return nil, false
	case bool, int, int8, int16, int32, int64, uint, uint8, uint16, uint32, uint64, uintptr, float32, float64, string, complex64, complex128:
		return v, true
	case *value:
		return v, true
	case *channel:
		return v, true
	case structure:
		h := 17
		for _, f := range v {
			fh, ok := hashKey(f)
			if !ok {
				return nil, false
			}
			h = h*31 + smallHash(fh)
		}
		return h, true
	case array:
		h := 19
		for _, f := range v {
			fh, ok := hashKey(f)
			if !ok {
				return nil, false
			}
			h = h*31 + smallHash(fh)
		}
		return h, true
	case iface:
		if v.t == nil {
			return 0, true
		}
		fh, ok := hashKey(v.v)
		if !ok {
			return nil, false
		}
		return hashType(v.t)*8581 + smallHash(fh), true
	case rtype:
		return hashType(v.t), true
	}
	return 1, true
}

func smallHash(h any) int {
	switch h := h.(type) {
	case int:
		return h
	case string:
		return hashString(h)
	case bool:
		if h {
			return 1
		}
		return 0
	case int8:
		return int(h)
	case int16:
		return int(h)
	case int32:
		return int(h)
	case int64:
		return int(h)
	case uint:
		return int(h)
	case uint8:
		return int(h)
	case uint16:
		return int(h)
	case uint32:
		return int(h)
	case uint64:
		return int(h)
	case uintptr:
		return int(h)
	}
	return 7
}

// find returns the position of key k or -1. May fork (symbolic equality).
func (m *omap) find(ex *exec, k value) int {
	if m == nil {
		return -1
	}
	h, conc := hashKey(k)
	if conc && m.nsym == 0 {
		for _, p := range m.idx[h] {
			e := m.entries[p]
			if e == nil {
				continue
			}
			if eq, ok := equals(m.keyType, k, e.key).(bool); ok && eq {
				return p
			}
		}
		return -1
	}
	// slow path: compare with every entry, forking on symbolic equalities
	for p, e := range m.entries {
		if e == nil {
			continue
		}
		eq := equals(m.keyType, k, e.key)
		switch eq := eq.(type) {
		case bool:
			if eq {
				return p
			}
		case sym:
			if ex == nil {
				panic("symbolic map key without exec")
			}
			if ex.decideBool(eq.t, "map-key-eq") {
				return p
			}
		}
	}
	return -1
}

func (m *omap) lookup(ex *exec, k value) (value, bool) {
	p := m.find(ex, k)
	if p < 0 {
		return nil, false
	}
	return m.entries[p].val, true
}

func (m *omap) insert(ex *exec, k, v value) {
	if m == nil {
		panic(runtimeError("assignment to entry in nil map"))
	}
	if p := m.find(ex, k); p >= 0 {
		m.entries[p].val = v
		return
	}
	m.entries = append(m.entries, &mentry{k, v})
	if h, conc := hashKey(k); conc {
		m.idx[h] = append(m.idx[h], len(m.entries)-1)
	} else {
		m.nsym++
	}
	m.n++
}

func (m *omap) delete(ex *exec, k value) {
	if m == nil {
		return
	}
	p := m.find(ex, k)
	if p < 0 {
		return
	}
	e := m.entries[p]
	m.entries[p] = nil
	m.n--
	if h, conc := hashKey(e.key); conc {
		ps := m.idx[h]
		for i, q := range ps {
			if q == p {
				m.idx[h] = append(append([]int{}, ps[:i]...), ps[i+1:]...)
				break
			}
		}
	} else {
		m.nsym--
	}
}

func (m *omap) clear() {
	if m == nil {
		return
	}
	m.entries = nil
	m.idx = map[any][]int{}
	m.n = 0
	m.nsym = 0
}

type omapIter struct {
	m     *omap
	pos   int
	order []int // optional permutation (nondeterministic-order regions)
	ex    *exec
	n0    int // number of entry slots when the range statement started
}

func (it *omapIter) next() tuple {
	if it.m == nil {
		return tuple{false, nil, nil}
	}
	if it.order != nil {
		for it.pos < len(it.order) {
			e := it.m.entries[it.order[it.pos]]
			it.pos++
			if e != nil {
				return tuple{true, e.key, e.val}
			}
		}
		return tuple{false, nil, nil}
	}
	for it.pos < len(it.m.entries) {
		e := it.m.entries[it.pos]
		created := it.pos >= it.n0
		it.pos++
		if e != nil {
			if created && it.ex != nil {
				// Go spec: an entry created during iteration "may be produced during the
				// iteration or may be skipped" - both are explored
				if it.ex.choose(2, "map-entry-created-during-range") == 1 {
					// run-time nondeterminism, like a schedule: noted so that a counterexample
					// built on it is reported with this trace instead of a native replay
					it.ex.sched.log = append(it.ex.sched.log, "map range: entry created during the iteration is skipped")
					continue
				}
				it.ex.sched.log = append(it.ex.sched.log, "map range: entry created during the iteration is produced")
			}
			return tuple{true, e.key, e.val}
		}
	}
	return tuple{false, nil, nil}
}
