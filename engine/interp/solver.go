package interp

// One persistent solver process spoken to in SMT-LIB2 text.

import (
	"sync/atomic"
	"bufio"
	"fmt"
	"io"
	"math/big"
	"os"
	osexec "os/exec"
	"strings"
	"time"
)

type SolverStats struct {
	Queries int
	Sat     int
	Unsat   int
	Unknown int
	Errors  int
	TimeS   float64
}

var solverLogSeq int64

type Solver struct {
	name      string
	cmd       *osexec.Cmd
	in        io.WriteCloser
	out       *bufio.Reader
	Stats     SolverStats
	log       io.Writer
	defined   map[string]string // term key -> solver name, valid inside current path scope
	nextID    int
	depth     int
	dead      bool
	lastErr   string
	timeoutMs int
	deadline  time.Time // after it every query is answered unknown (wall budget of the harness used up)
	expired   bool
}

// SolverCommand gives argv for a named solver.
func SolverCommand(name string, timeoutMs int) []string {
	switch name {
	case "z3":
		return []string{"z3", "-in", fmt.Sprintf("-t:%d", timeoutMs)}
	case "z3-new":
		return []string{"z3-new", "-in", fmt.Sprintf("-t:%d", timeoutMs)}
	case "cvc5":
		return []string{"cvc5", "--incremental", "--lang=smt2", fmt.Sprintf("--tlimit-per=%d", timeoutMs), "--strings-exp"}
	}
	return []string{name}
}

func NewSolver(name string, timeoutMs int) (*Solver, error) {
	argv := SolverCommand(name, timeoutMs)
	cmd := osexec.Command(argv[0], argv[1:]...)
	in, err := cmd.StdinPipe()
	if err != nil {
		return nil, err
	}
	outp, err := cmd.StdoutPipe()
	if err != nil {
		return nil, err
	}
	cmd.Stderr = cmd.Stdout
	if err := cmd.Start(); err != nil {
		return nil, err
	}
	s := &Solver{name: name, timeoutMs: timeoutMs, cmd: cmd, in: in, out: bufio.NewReaderSize(outp, 1<<16), defined: map[string]string{}}
	if f := os.Getenv("GOSYMX_SMTLOG"); f != "" {
		// one file per solver process: each is a complete incremental script (with the answers
		// as "; => ..." comments) that tools/solverdiff.py replays through other solvers
		n := atomic.AddInt64(&solverLogSeq, 1)
		w, _ := os.OpenFile(fmt.Sprintf("%s.%d.%d.smt2", f, os.Getpid(), n), os.O_APPEND|os.O_CREATE|os.O_WRONLY, 0644)
		s.log = w
	}
	if name == "cvc5" {
		s.send("(set-logic ALL)")
	}
	s.send("(set-option :produce-models true)")
	return s, nil
}

func (s *Solver) Close() {
	if s == nil || s.dead {
		return
	}
	s.dead = true
	s.in.Close()
	done := make(chan struct{})
	go func() { s.cmd.Wait(); close(done) }()
	select {
	case <-done:
	case <-time.After(2 * time.Second):
		s.cmd.Process.Kill()
	}
}

func (s *Solver) send(line string) {
	if s.log != nil {
		fmt.Fprintln(s.log, line)
	}
	if _, err := io.WriteString(s.in, line+"\n"); err != nil {
		s.dead = true
	}
}

func (s *Solver) Push() { s.send("(push 1)"); s.depth++ }
func (s *Solver) Pop()  { s.send("(pop 1)"); s.depth-- }

// BeginPath opens the per-path scope; all term definitions live in it.
func (s *Solver) BeginPath() {
	s.Push()
	s.defined = map[string]string{}
}

func (s *Solver) EndPath() {
	for s.depth > 0 {
		s.Pop()
	}
	s.defined = map[string]string{}
}

// Ref returns text referring to t, emitting define-funs for shared subterms
// at the *current* scope. Must be called at path scope (not inside a nested push)
// for anything that will be referred to later.
func (s *Solver) Ref(t *Term) string {
	switch t.op {
	case "const":
		return t.smt()
	case "var":
		if _, ok := s.defined[t.key]; !ok {
			s.send(fmt.Sprintf("(declare-const %s %s)", t.name, t.sort))
			s.defined[t.key] = t.name
		}
		return t.name
	case "rawbool", "rawre":
		return t.s
	}
	if n, ok := s.defined[t.key]; ok {
		return n
	}
	var sb strings.Builder
	sb.WriteByte('(')
	sb.WriteString(t.op)
	for _, a := range t.args {
		sb.WriteByte(' ')
		sb.WriteString(s.Ref(a))
	}
	sb.WriteByte(')')
	s.nextID++
	name := fmt.Sprintf("t!%d", s.nextID)
	s.send(fmt.Sprintf("(define-fun %s () %s %s)", name, t.sort, sb.String()))
	s.defined[t.key] = name
	return name
}

// Assert adds t at the current scope.
func (s *Solver) Assert(t *Term) {
	r := s.Ref(t)
	s.send("(assert " + r + ")")
}

type SatResult int

const (
	Sat SatResult = iota
	Unsat
	Unknown
)

func (r SatResult) String() string { return [...]string{"sat", "unsat", "unknown"}[r] }

// Check runs check-sat at the current scope.
func (s *Solver) Check() SatResult {
	if s.dead {
		return Unknown
	}
	if !s.deadline.IsZero() && time.Now().After(s.deadline) {
		// the harness' wall-clock budget is used up: answer unknown at once so that the
		// path in flight ends quickly (its obligations are counted as inconclusive)
		s.expired = true
		s.Stats.Queries++
		s.Stats.Unknown++
		return Unknown
	}
	t0 := time.Now()
	s.send("(check-sat)")
	res := Unknown
	sawErr := false
	// watchdog: the solver's own soft timeout is not always honoured
	wd := time.AfterFunc(time.Duration(s.timeoutMs+5000)*time.Millisecond, func() {
		s.dead = true
		s.lastErr = "solver killed by watchdog (no answer within timeout)"
		s.cmd.Process.Kill()
	})
	defer wd.Stop()
	for {
		line, err := s.out.ReadString('\n')
		if err != nil {
			s.dead = true
			res = Unknown
			break
		}
		line = strings.TrimSpace(line)
		if line == "" {
			continue
		}
		if strings.HasPrefix(line, "(error") {
			sawErr = true
			s.lastErr = line
			s.Stats.Errors++
			if s.log != nil {
				fmt.Fprintln(s.log, "; "+line)
			}
			continue
		}
		switch line {
		case "sat":
			res = Sat
		case "unsat":
			res = Unsat
		case "unknown", "timeout":
			res = Unknown
		default:
			// unexpected chatter; keep reading
			if s.log != nil {
				fmt.Fprintln(s.log, "; ?? "+line)
			}
			continue
		}
		break
	}
	if sawErr {
		res = Unknown
	}
	s.Stats.Queries++
	s.Stats.TimeS += time.Since(t0).Seconds()
	switch res {
	case Sat:
		s.Stats.Sat++
	case Unsat:
		s.Stats.Unsat++
	default:
		s.Stats.Unknown++
	}
	if s.log != nil {
		fmt.Fprintln(s.log, "; => "+res.String())
	}
	return res
}

// CheckWith: push, assert extra, check, pop. Definitions for extra are emitted
// before the push so they stay valid.
func (s *Solver) CheckWith(extra ...*Term) SatResult {
	refs := make([]string, len(extra))
	for i, t := range extra {
		refs[i] = s.Ref(t)
	}
	s.Push()
	for _, r := range refs {
		s.send("(assert " + r + ")")
	}
	r := s.Check()
	s.Pop()
	return r
}

// ModelWith: like CheckWith but, if sat, returns values for the given vars.
func (s *Solver) ModelWith(vars []*Term, extra ...*Term) (SatResult, map[string]ModelVal) {
	refs := make([]string, len(extra))
	for i, t := range extra {
		refs[i] = s.Ref(t)
	}
	for _, v := range vars {
		s.Ref(v)
	}
	s.Push()
	defer s.Pop()
	for _, r := range refs {
		s.send("(assert " + r + ")")
	}
	r := s.Check()
	if r != Sat || len(vars) == 0 {
		return r, nil
	}
	var sb strings.Builder
	sb.WriteString("(get-value (")
	for i, v := range vars {
		if i > 0 {
			sb.WriteByte(' ')
		}
		sb.WriteString(s.Ref(v))
	}
	sb.WriteString("))")
	s.send(sb.String())
	txt := s.readSexp()
	m := parseModel(txt, vars)
	return r, m
}

// readSexp reads one balanced s-expression from the solver.
func (s *Solver) readSexp() string {
	var sb strings.Builder
	depth := 0
	inStr := false
	started := false
	for {
		c, err := s.out.ReadByte()
		if err != nil {
			s.dead = true
			return sb.String()
		}
		sb.WriteByte(c)
		if inStr {
			if c == '"' {
				inStr = false
			}
			continue
		}
		switch c {
		case '"':
			inStr = true
		case '(':
			depth++
			started = true
		case ')':
			depth--
			if started && depth == 0 {
				return sb.String()
			}
		}
	}
}

type ModelVal struct {
	Sort Sort
	B    bool
	N    *big.Int
	S    string
}

func (m ModelVal) String() string {
	switch m.Sort {
	case SBool:
		return fmt.Sprint(m.B)
	case SInt:
		return m.N.String()
	case SStr:
		return fmt.Sprintf("%q", m.S)
	}
	return "?"
}

// ---- tiny s-expression parser for get-value output ----

type sx struct {
	atom string
	str  bool
	list []*sx
}

func parseSx(s string, i *int) *sx {
	for *i < len(s) && (s[*i] == ' ' || s[*i] == '\n' || s[*i] == '\t' || s[*i] == '\r') {
		*i++
	}
	if *i >= len(s) {
		return nil
	}
	if s[*i] == '(' {
		*i++
		n := &sx{}
		for {
			for *i < len(s) && (s[*i] == ' ' || s[*i] == '\n' || s[*i] == '\t' || s[*i] == '\r') {
				*i++
			}
			if *i >= len(s) {
				return n
			}
			if s[*i] == ')' {
				*i++
				return n
			}
			c := parseSx(s, i)
			if c == nil {
				return n
			}
			n.list = append(n.list, c)
		}
	}
	if s[*i] == '"' {
		*i++
		var sb strings.Builder
		for *i < len(s) {
			if s[*i] == '"' {
				if *i+1 < len(s) && s[*i+1] == '"' {
					sb.WriteByte('"')
					*i += 2
					continue
				}
				*i++
				break
			}
			sb.WriteByte(s[*i])
			*i++
		}
		return &sx{atom: unescapeSMT(sb.String()), str: true}
	}
	st := *i
	for *i < len(s) && !strings.ContainsRune(" \n\t\r()", rune(s[*i])) {
		*i++
	}
	return &sx{atom: s[st:*i]}
}

func unescapeSMT(s string) string {
	var out []byte
	for i := 0; i < len(s); i++ {
		if s[i] == '\\' && i+1 < len(s) && s[i+1] == 'u' {
			j := i + 2
			if j < len(s) && s[j] == '{' {
				k := strings.IndexByte(s[j:], '}')
				if k > 0 {
					var v int64
					fmt.Sscanf(s[j+1:j+k], "%x", &v)
					out = appendRuneByte(out, v)
					i = j + k
					continue
				}
			} else if j+4 <= len(s) {
				var v int64
				if _, err := fmt.Sscanf(s[j:j+4], "%x", &v); err == nil {
					out = appendRuneByte(out, v)
					i = j + 3
					continue
				}
			}
		}
		if s[i] == '\\' && i+1 < len(s) && s[i+1] == 'x' && i+4 <= len(s) {
			var v int64
			if _, err := fmt.Sscanf(s[i+2:i+4], "%x", &v); err == nil {
				out = append(out, byte(v))
				i += 3
				continue
			}
		}
		out = append(out, s[i])
	}
	return string(out)
}

func appendRuneByte(out []byte, v int64) []byte {
	if v < 256 {
		return append(out, byte(v))
	}
	return append(out, []byte(string(rune(v)))...)
}

func sxInt(n *sx) *big.Int {
	if n == nil {
		return nil
	}
	if n.list == nil {
		v, ok := new(big.Int).SetString(n.atom, 10)
		if !ok {
			return nil
		}
		return v
	}
	if len(n.list) == 2 && n.list[0].atom == "-" {
		v := sxInt(n.list[1])
		if v == nil {
			return nil
		}
		return new(big.Int).Neg(v)
	}
	return nil
}

func parseModel(txt string, vars []*Term) map[string]ModelVal {
	i := 0
	root := parseSx(txt, &i)
	m := map[string]ModelVal{}
	if root == nil {
		return m
	}
	for k, pair := range root.list {
		if k >= len(vars) || len(pair.list) != 2 {
			continue
		}
		v := vars[k]
		val := pair.list[1]
		switch v.sort {
		case SBool:
			m[v.name] = ModelVal{Sort: SBool, B: val.atom == "true"}
		case SInt:
			if n := sxInt(val); n != nil {
				m[v.name] = ModelVal{Sort: SInt, N: n}
			}
		case SStr:
			m[v.name] = ModelVal{Sort: SStr, S: val.atom}
		}
	}
	return m
}
