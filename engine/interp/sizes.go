package interp

// Size boundaries derived from the code under test.
//
// A bounded check picks its collection sizes (entries of an intent, children of a node,
// messages of a stream) small. A change that introduces a size threshold - a batch size, a
// fan-out limit, a "large input" fast path - moves the interesting behaviour beyond any fixed
// small size. The thresholds are in the code: they are integer constants that meet a LENGTH in
// arithmetic or in a comparison. CodeSizeConstants harvests them from the SSA form of the
// named packages on every run, and the size-driven harnesses run once per derived size
// (c-1, c, c+1, 2c, 2c+1 for every harvested c) in addition to their small default sizes.

import (
	"go/constant"
	"go/token"
	"path/filepath"
	"sort"
	"strings"

	"golang.org/x/tools/go/ssa"
	"golang.org/x/tools/go/ssa/ssautil"
)

// SizeConst is one harvested constant with the place it was found at.
type SizeConst struct {
	Value int
	Where string // function and position
}

// CodeSizeConstants returns the integer constants in [lo,hi] of the functions of the packages
// whose import path has one of the given prefixes that are combined with a length:
// a constant operand of an arithmetic or comparison instruction, or an argument of the min/max
// builtins, in a function in which the value of a len() call (of a slice, map, string or
// channel) flows - directly, through arithmetic, phis, min/max or conversions - into the same
// instruction or into an instruction that uses its result. Functions declared in files named
// zz_verif* (harness code) and in _test files are skipped.
func (e *Engine) CodeSizeConstants(pkgPrefixes []string, lo, hi int) []SizeConst {
	var out []SizeConst
	seen := map[int]bool{}
	var fns []*ssa.Function
	for f := range ssautil.AllFunctions(e.Prog) {
		root := f
		for root.Parent() != nil {
			root = root.Parent()
		}
		if root.Pkg == nil || root.Pkg.Pkg == nil || f.Blocks == nil {
			continue
		}
		for _, pre := range pkgPrefixes {
			if strings.HasPrefix(root.Pkg.Pkg.Path(), pre) {
				fns = append(fns, f)
				break
			}
		}
	}
	sort.Slice(fns, func(i, j int) bool { return fns[i].String() < fns[j].String() })
	for _, f := range fns {
		file := filepath.Base(e.Fset.Position(f.Pos()).Filename)
		if strings.HasPrefix(file, "zz_verif") || strings.HasSuffix(file, "_test.go") {
			continue
		}
		for _, c := range sizeConstsOf(f, lo, hi) {
			if !seen[c] {
				seen[c] = true
				out = append(out, SizeConst{c, f.String() + " (" + file + ")"})
			}
		}
	}
	sort.Slice(out, func(i, j int) bool { return out[i].Value < out[j].Value })
	return out
}

// sizeConstsOf: see CodeSizeConstants.
func sizeConstsOf(f *ssa.Function, lo, hi int) []int {
	// 1. values derived from a length
	lenDerived := map[ssa.Value]bool{}
	changed := true
	isLen := func(v ssa.Value) bool {
		c, ok := v.(*ssa.Call)
		if !ok {
			return false
		}
		b, ok := c.Call.Value.(*ssa.Builtin)
		return ok && (b.Name() == "len" || b.Name() == "cap")
	}
	for changed {
		changed = false
		for _, b := range f.Blocks {
			for _, in := range b.Instrs {
				v, ok := in.(ssa.Value)
				if !ok || lenDerived[v] {
					continue
				}
				d := false
				switch x := in.(type) {
				case *ssa.Call:
					if isLen(x) {
						d = true
					} else if bi, ok := x.Call.Value.(*ssa.Builtin); ok && (bi.Name() == "min" || bi.Name() == "max") {
						for _, a := range x.Call.Args {
							if lenDerived[a] {
								d = true
							}
						}
					}
				case *ssa.BinOp:
					d = lenDerived[x.X] || lenDerived[x.Y]
				case *ssa.Phi:
					for _, ed := range x.Edges {
						if lenDerived[ed] {
							d = true
						}
					}
				case *ssa.Convert:
					d = lenDerived[x.X]
				case *ssa.ChangeType:
					d = lenDerived[x.X]
				}
				if d {
					lenDerived[v] = true
					changed = true
				}
			}
		}
	}
	if len(lenDerived) == 0 {
		return nil
	}
	constOf := func(v ssa.Value) (int, bool) {
		c, ok := v.(*ssa.Const)
		if !ok || c.Value == nil || c.Value.Kind() != constant.Int {
			return 0, false
		}
		n, exact := constant.Int64Val(c.Value)
		if !exact || n < int64(lo) || n > int64(hi) {
			return 0, false
		}
		return int(n), true
	}
	var res []int
	for _, b := range f.Blocks {
		for _, in := range b.Instrs {
			switch x := in.(type) {
			case *ssa.BinOp:
				switch x.Op {
				case token.ADD, token.SUB, token.MUL, token.QUO, token.REM, token.LSS, token.LEQ, token.GTR, token.GEQ, token.EQL, token.NEQ:
				default:
					continue
				}
				// the constant meets a length-derived value here, or the result feeds one
				if !(lenDerived[x.X] || lenDerived[x.Y] || feedsLenDerived(x, lenDerived)) {
					continue
				}
				if c, ok := constOf(x.X); ok {
					res = append(res, c)
				}
				if c, ok := constOf(x.Y); ok {
					res = append(res, c)
				}
			case *ssa.Call:
				if bi, ok := x.Call.Value.(*ssa.Builtin); ok && (bi.Name() == "min" || bi.Name() == "max") {
					if !lenDerived[x] {
						continue
					}
					for _, a := range x.Call.Args {
						if c, ok := constOf(a); ok {
							res = append(res, c)
						}
					}
				}
			}
		}
	}
	return res
}

// feedsLenDerived: the result of x is an operand of an instruction whose other operand (or
// result) is length-derived: "first+100" in min(first+100, len(paths)).
func feedsLenDerived(x *ssa.BinOp, lenDerived map[ssa.Value]bool) bool {
	refs := x.Referrers()
	if refs == nil {
		return false
	}
	for _, r := range *refs {
		if v, ok := r.(ssa.Value); ok && lenDerived[v] {
			return true
		}
		if b, ok := r.(*ssa.BinOp); ok && (lenDerived[b.X] || lenDerived[b.Y]) {
			return true
		}
	}
	return false
}
