package interp

// Externals: models and native bridges for functions that are not
// interpreted from SSA.

import (
	"bytes"
	"fmt"
	"go/types"
	"math"
	"reflect"
	"regexp"
	"sort"
	"strconv"
	"strings"
	"unicode"
	"unicode/utf8"

	"golang.org/x/tools/go/ssa"
)

func (e *Engine) initExternals() {
	e.extTable = map[string]externalFn{}
	t := e.extTable

	// --- native bridges (concrete operands only unless a model is given below)
	natives := map[string]any{
		"strings.Contains": strings.Contains, "strings.ContainsAny": strings.ContainsAny, "strings.ContainsRune": strings.ContainsRune,
		"strings.Count": strings.Count, "strings.EqualFold": strings.EqualFold, "strings.Fields": strings.Fields,
		"strings.HasPrefix": strings.HasPrefix, "strings.HasSuffix": strings.HasSuffix, "strings.Index": strings.Index,
		"strings.IndexAny": strings.IndexAny, "strings.IndexByte": strings.IndexByte, "strings.IndexRune": strings.IndexRune,
		"strings.Join": strings.Join, "strings.LastIndex": strings.LastIndex, "strings.LastIndexByte": strings.LastIndexByte,
		"strings.Repeat": strings.Repeat, "strings.Replace": strings.Replace, "strings.ReplaceAll": strings.ReplaceAll,
		"strings.Split": strings.Split, "strings.SplitN": strings.SplitN, "strings.SplitAfter": strings.SplitAfter,
		"strings.Title": strings.Title, "strings.ToLower": strings.ToLower, "strings.ToUpper": strings.ToUpper,
		"strings.Trim": strings.Trim, "strings.TrimLeft": strings.TrimLeft, "strings.TrimRight": strings.TrimRight,
		"strings.TrimPrefix": strings.TrimPrefix, "strings.TrimSuffix": strings.TrimSuffix, "strings.TrimSpace": strings.TrimSpace,
		"strings.Compare": strings.Compare, "strings.Cut": strings.Cut, "strings.CutPrefix": strings.CutPrefix, "strings.CutSuffix": strings.CutSuffix,
		"strings.Clone": strings.Clone,
		"strconv.Itoa":  strconv.Itoa, "strconv.Atoi": strconv.Atoi, "strconv.FormatInt": strconv.FormatInt,
		"strconv.FormatUint": strconv.FormatUint, "strconv.FormatBool": strconv.FormatBool, "strconv.ParseBool": strconv.ParseBool,
		"strconv.ParseInt": strconv.ParseInt, "strconv.ParseUint": strconv.ParseUint, "strconv.ParseFloat": strconv.ParseFloat,
		"strconv.FormatFloat": strconv.FormatFloat, "strconv.Quote": strconv.Quote, "strconv.Unquote": strconv.Unquote,
		"unicode/utf8.RuneCountInString": utf8.RuneCountInString, "unicode/utf8.ValidString": utf8.ValidString,
		"unicode/utf8.RuneLen": utf8.RuneLen, "unicode/utf8.RuneCount": utf8.RuneCount,
		"unicode/utf8.DecodeRuneInString": utf8.DecodeRuneInString, "unicode/utf8.DecodeRune": utf8.DecodeRune,
		"unicode/utf8.DecodeLastRuneInString": utf8.DecodeLastRuneInString, "unicode/utf8.DecodeLastRune": utf8.DecodeLastRune,
		"unicode/utf8.ValidRune": utf8.ValidRune, "unicode/utf8.Valid": utf8.Valid, "unicode/utf8.FullRune": utf8.FullRune,
		"unicode/utf8.FullRuneInString": utf8.FullRuneInString, "unicode/utf8.AppendRune": utf8.AppendRune,
		"unicode.IsPrint": unicode.IsPrint, "unicode.IsPunct": unicode.IsPunct, "unicode.IsControl": unicode.IsControl,
		"unicode.IsGraphic": unicode.IsGraphic, "unicode.IsNumber": unicode.IsNumber, "unicode.IsTitle": unicode.IsTitle, "unicode.ToTitle": unicode.ToTitle,
		"unicode.IsSpace": unicode.IsSpace, "unicode.IsDigit": unicode.IsDigit, "unicode.IsLetter": unicode.IsLetter,
		"unicode.IsUpper": unicode.IsUpper, "unicode.IsLower": unicode.IsLower, "unicode.ToLower": unicode.ToLower, "unicode.ToUpper": unicode.ToUpper,
		"math.Pow": math.Pow, "math.Abs": math.Abs, "math.Floor": math.Floor, "math.Ceil": math.Ceil, "math.Trunc": math.Trunc,
		"math.IsNaN": math.IsNaN, "math.IsInf": math.IsInf, "math.Inf": math.Inf, "math.NaN": math.NaN, "math.Log10": math.Log10,
		"math.Float64bits": math.Float64bits, "math.Float64frombits": math.Float64frombits, "math.Float32bits": math.Float32bits, "math.Float32frombits": math.Float32frombits,
		"math.Round": math.Round, "math.Mod": math.Mod, "math.Max": math.Max, "math.Min": math.Min, "math.Sqrt": math.Sqrt, "math.Pow10": math.Pow10,
		"bytes.Equal": bytes.Equal, "bytes.Compare": bytes.Compare, "bytes.HasPrefix": bytes.HasPrefix,
		// assembly kernels below the standard library (reached when library code such as
		// bufio / text scanners / generated parsers of dependencies is interpreted)
		"internal/bytealg.IndexByteString":     func(s string, c byte) int { return strings.IndexByte(s, c) },
		"internal/bytealg.IndexByte":           func(b []byte, c byte) int { return bytes.IndexByte(b, c) },
		"internal/bytealg.LastIndexByteString": func(s string, c byte) int { return strings.LastIndexByte(s, c) },
		"internal/bytealg.LastIndexByte":       func(b []byte, c byte) int { return bytes.LastIndexByte(b, c) },
		"internal/bytealg.CountString":         func(s string, c byte) int { return strings.Count(s, string([]byte{c})) },
		"internal/bytealg.Count":               func(b []byte, c byte) int { return bytes.Count(b, []byte{c}) },
		"internal/bytealg.IndexString":         func(a, b string) int { return strings.Index(a, b) },
		"internal/bytealg.Index":               func(a, b []byte) int { return bytes.Index(a, b) },
		"internal/bytealg.Equal":               func(a, b []byte) bool { return bytes.Equal(a, b) },
		"internal/bytealg.Compare":             func(a, b []byte) int { return bytes.Compare(a, b) },
	}
	for name, fn := range natives {
		t[name] = e.bridge(name, fn)
	}
	e.initStringModels()
	e.initSyncExternals()
	e.initMiscExternals()
	e.initProtoExternals()
	e.initJSONExternals()

	e.extPrefix = append(e.extPrefix,
		prefixExt{"github.com/sirupsen/logrus.", e.noopExternal},
		prefixExt{"(*github.com/sirupsen/logrus.", e.noopExternal},
		prefixExt{"(github.com/sirupsen/logrus.", e.noopExternal},
	)
	e.extPrefix = append(e.extPrefix, prefixExt{"", e.verifrtExternal})
}

// noopExternal returns zero values of the function's results.
func (e *Engine) noopExternal(name string) externalFn {
	return func(fr *frame, args []value) value {
		return zeroResults(fr.fn)
	}
}

func zeroResults(fn *ssa.Function) value {
	res := fn.Signature.Results()
	switch res.Len() {
	case 0:
		return nil
	case 1:
		return zero(res.At(0).Type())
	}
	return zero(res)
}

func anySym(args []value) bool {
	for _, a := range args {
		switch a := a.(type) {
		case sym:
			return true
		case []value:
			for _, x := range a {
				if containsSym(x) {
					return true
				}
			}
		case iface:
			if containsSym(a.v) {
				return true
			}
		}
	}
	return false
}

func containsSym(v value) bool {
	switch v := v.(type) {
	case sym:
		return true
	case []value:
		for _, x := range v {
			if containsSym(x) {
				return true
			}
		}
	case structure:
		for _, x := range v {
			if containsSym(x) {
				return true
			}
		}
	case array:
		for _, x := range v {
			if containsSym(x) {
				return true
			}
		}
	case iface:
		return containsSym(v.v)
	}
	return false
}

var errorRType = reflect.TypeOf((*error)(nil)).Elem()

// bridge wraps a native Go function; all operands must be concrete.
func (e *Engine) bridge(name string, fn any) externalFn {
	rf := reflect.ValueOf(fn)
	rt := rf.Type()
	return func(fr *frame, args []value) value {
		if anySym(args) {
			args = fr.i.ex.concretizeArgs(args, name)
		}
		in := make([]reflect.Value, len(args))
		for i, a := range args {
			var pt reflect.Type
			if rt.IsVariadic() && i >= rt.NumIn()-1 {
				pt = rt.In(rt.NumIn() - 1)
				if i == rt.NumIn()-1 {
					// variadic passed as slice
					in[i] = toNative(a, pt)
					continue
				}
			} else {
				pt = rt.In(i)
			}
			in[i] = toNative(a, pt)
		}
		var out []reflect.Value
		if rt.IsVariadic() {
			out = rf.CallSlice(in)
		} else {
			out = rf.Call(in)
		}
		return fr.i.fromNativeResults(out, fr.fn)
	}
}

func toNative(a value, pt reflect.Type) reflect.Value {
	switch pt.Kind() {
	case reflect.Slice:
		s, _ := a.([]value)
		out := reflect.MakeSlice(pt, len(s), len(s))
		for i, x := range s {
			out.Index(i).Set(toNative(x, pt.Elem()))
		}
		if s == nil {
			return reflect.Zero(pt)
		}
		return out
	case reflect.Interface:
		if itf, ok := a.(iface); ok {
			if itf.t == nil {
				return reflect.Zero(pt)
			}
			return reflect.ValueOf(nativeOfBasic(itf.v))
		}
		return reflect.ValueOf(a)
	}
	return reflect.ValueOf(a).Convert(pt)
}

func nativeOfBasic(v value) any {
	switch v := v.(type) {
	case bool, int, int8, int16, int32, int64, uint, uint8, uint16, uint32, uint64, uintptr, float32, float64, string:
		return v
	}
	return fmt.Sprintf("<%T>", v)
}

func (i *interpreter) fromNativeResults(out []reflect.Value, fn *ssa.Function) value {
	res := make([]value, len(out))
	for k, o := range out {
		res[k] = i.fromNative(o)
	}
	switch len(res) {
	case 0:
		return nil
	case 1:
		return res[0]
	}
	return tuple(res)
}

func (i *interpreter) fromNative(o reflect.Value) value {
	switch o.Kind() {
	case reflect.Bool:
		return o.Bool()
	case reflect.Int:
		return int(o.Int())
	case reflect.Int8:
		return int8(o.Int())
	case reflect.Int16:
		return int16(o.Int())
	case reflect.Int32:
		return int32(o.Int())
	case reflect.Int64:
		return o.Int()
	case reflect.Uint:
		return uint(o.Uint())
	case reflect.Uint8:
		return uint8(o.Uint())
	case reflect.Uint16:
		return uint16(o.Uint())
	case reflect.Uint32:
		return uint32(o.Uint())
	case reflect.Uint64:
		return o.Uint()
	case reflect.Float32:
		return float32(o.Float())
	case reflect.Float64:
		return o.Float()
	case reflect.String:
		return o.String()
	case reflect.Slice:
		if o.IsNil() {
			return []value(nil)
		}
		out := make([]value, o.Len())
		for k := range out {
			out[k] = i.fromNative(o.Index(k))
		}
		return out
	case reflect.Interface:
		if o.Type() == errorRType {
			if o.IsNil() {
				return iface{}
			}
			return i.makeError(o.Interface().(error).Error(), o.Interface().(error))
		}
	}
	panic(fmt.Sprintf("fromNative: unsupported result kind %s", o.Kind()))
}

// makeError builds an interpreted error value (*errors.errorString) carrying msg.
// Well-known sentinel errors keep their identity through the package globals.
func (i *interpreter) makeError(msg string, native error) value {
	if ne, ok := native.(*strconv.NumError); ok && ne != nil {
		// *strconv.NumError{Func, Num string; Err error}
		if t := i.namedType("strconv", "NumError"); t != nil {
			var inner value = iface{}
			switch ne.Err {
			case strconv.ErrRange:
				inner = i.sentinel("strconv", "ErrRange", ne.Err.Error())
			case strconv.ErrSyntax:
				inner = i.sentinel("strconv", "ErrSyntax", ne.Err.Error())
			default:
				inner = i.makeError(ne.Err.Error(), nil)
			}
			var s value = structure{ne.Func, ne.Num, inner}
			return iface{t: types.NewPointer(t), v: &s}
		}
	}
	return i.newErrorString(msg)
}

func (i *interpreter) newErrorString(msg value) value {
	t := i.namedType("errors", "errorString")
	if t == nil {
		panic("errors.errorString type not in program")
	}
	var s value = structure{msg}
	return iface{t: types.NewPointer(t), v: &s}
}

func (i *interpreter) namedType(pkg, name string) types.Type {
	p := i.prog.ImportedPackage(pkg)
	if p == nil {
		return nil
	}
	m := p.Type(name)
	if m == nil {
		return nil
	}
	return m.Type()
}

// sentinel returns the value of an exported error variable, initialising it
// with a fresh errorString if its package init was not run.
func (i *interpreter) sentinel(pkg, name, msg string) value {
	p := i.prog.ImportedPackage(pkg)
	if p == nil {
		return i.newErrorString(msg)
	}
	g, _ := p.Members[name].(*ssa.Global)
	if g == nil {
		return i.newErrorString(msg)
	}
	cell := i.global(g)
	if itf, ok := (*cell).(iface); ok && itf.t != nil {
		return itf
	}
	v := i.newErrorString(msg)
	*cell = v
	return v
}

// ---------------------------------------------------------------- misc

func (e *Engine) initMiscExternals() {
	t := e.extTable

	t["fmt.Sprintf"] = func(fr *frame, a []value) value {
		return fr.i.sprintf(a[0], a[1].([]value))
	}
	t["fmt.Errorf"] = func(fr *frame, a []value) value {
		msg := fr.i.sprintf(a[0], a[1].([]value))
		// %w: wrap the first error operand
		if f, ok := a[0].(string); ok && strings.Contains(f, "%w") {
			for _, arg := range a[1].([]value) {
				if itf, ok := arg.(iface); ok && itf.t != nil && fr.i.implementsError(itf.t) {
					if wt := fr.i.namedType("fmt", "wrapError"); wt != nil {
						var s value = structure{msg, itf}
						return iface{t: types.NewPointer(wt), v: &s}
					}
				}
			}
		}
		return fr.i.newErrorString(msg)
	}
	t["fmt.Sprint"] = func(fr *frame, a []value) value {
		args := a[0].([]value)
		f := strings.Repeat("%v", len(args))
		return fr.i.sprintf(f, args)
	}
	t["fmt.Sprintln"] = func(fr *frame, a []value) value {
		args := a[0].([]value)
		f := strings.TrimSpace(strings.Repeat("%v ", len(args))) + "\n"
		return fr.i.sprintf(f, args)
	}
	for _, n := range []string{"fmt.Printf", "fmt.Println", "fmt.Print", "fmt.Fprintf", "fmt.Fprintln", "fmt.Fprint"} {
		t[n] = func(fr *frame, a []value) value { return zeroResults(fr.fn) }
	}
	t["errors.Is"] = func(fr *frame, a []value) value {
		return fr.i.errorsIs(a[0].(iface), a[1].(iface), 0)
	}
	t["errors.Unwrap"] = func(fr *frame, a []value) value {
		err := a[0].(iface)
		if err.t == nil {
			return iface{}
		}
		if m := fr.i.methodByName(err.t, "Unwrap"); m != nil && m.Signature.Results().Len() == 1 {
			if _, isSlice := m.Signature.Results().At(0).Type().Underlying().(*types.Slice); !isSlice {
				return call(fr.i, fr, 0, m, []value{err.v})
			}
		}
		return iface{}
	}
	t["(*errors.joinError).Error"] = func(fr *frame, a []value) value {
		p := a[0].(*value)
		errs := (*p).(structure)[0].([]value)
		var parts []*Term
		for k, e := range errs {
			if k > 0 {
				parts = append(parts, mkStr("\n"))
			}
			parts = append(parts, termOf(fr.i.errorString(fr, e.(iface))))
		}
		return valueOfTerm(tConcat(parts...), types.String)
	}
	t["sort.Strings"] = func(fr *frame, a []value) value {
		s := a[0].([]value)
		fr.i.insertionSort(len(s), func(i, j int) value {
			return fr.i.ex.binop(tokLSS, nil, s[i], s[j])
		}, func(i, j int) { s[i], s[j] = s[j], s[i] })
		return nil
	}
	t["sort.Ints"] = t["sort.Strings"]
	sortSlice := func(fr *frame, a []value) value {
		s := a[0].(iface).v.([]value)
		less := a[1]
		fr.i.insertionSort(len(s), func(i, j int) value {
			return call(fr.i, fr, 0, less, []value{i, j})
		}, func(i, j int) { s[i], s[j] = s[j], s[i] })
		return nil
	}
	t["sort.Slice"] = sortSlice
	t["sort.SliceStable"] = sortSlice
	e.extPrefix = append(e.extPrefix,
		prefixExt{"slices.Sort[", func(string) externalFn {
			return func(fr *frame, a []value) value {
				s := a[0].([]value)
				fr.i.insertionSort(len(s), func(i, j int) value {
					return fr.i.ex.binop(tokLSS, nil, s[i], s[j])
				}, func(i, j int) { s[i], s[j] = s[j], s[i] })
				return nil
			}
		}},
		prefixExt{"slices.SortFunc[", e.sortFuncExt},
		prefixExt{"slices.SortStableFunc[", e.sortFuncExt},
	)
	// yang-parser looks for XPath plugins (*.so) in /lib/xpath/plugins: modelled as "the
	// directory does not exist" (os.Open fails, the function returns nil)
	t["github.com/sdcio/yang-parser/xpath.openPlugins"] = func(fr *frame, a []value) value {
		return zeroResults(fr.fn)
	}
	t["regexp.Compile"] = func(fr *frame, a []value) value {
		re, err := regexp.Compile(a[0].(string))
		if err != nil {
			return tuple{(*value)(nil), fr.i.newErrorString(err.Error())}
		}
		return tuple{&nativeObj{re}, iface{}}
	}
	t["regexp.MustCompile"] = func(fr *frame, a []value) value {
		re, err := regexp.Compile(a[0].(string))
		if err != nil {
			panic(targetPanic{iface{t: types.Typ[types.String], v: err.Error()}})
		}
		return &nativeObj{re}
	}
	t["regexp.MatchString"] = func(fr *frame, a []value) value {
		if anySym(a) {
			if pat, ok := a[0].(string); ok {
				if _, err := regexp.Compile(pat); err != nil {
					return tuple{false, fr.i.newErrorString(err.Error())}
				}
				return tuple{fr.i.ex.reMatchValue(pat, a[1]), iface{}}
			}
			fr.i.ex.unsupported("regexp.MatchString with a symbolic pattern")
		}
		ok, err := regexp.MatchString(a[0].(string), a[1].(string))
		if err != nil {
			return tuple{false, fr.i.newErrorString(err.Error())}
		}
		return tuple{ok, iface{}}
	}
	t["(*regexp.Regexp).MatchString"] = func(fr *frame, a []value) value {
		if anySym(a[1:]) {
			return fr.i.ex.reMatchValue(a[0].(*nativeObj).v.(*regexp.Regexp).String(), a[1])
		}
		return a[0].(*nativeObj).v.(*regexp.Regexp).MatchString(a[1].(string))
	}
	t["(*regexp.Regexp).String"] = func(fr *frame, a []value) value {
		return a[0].(*nativeObj).v.(*regexp.Regexp).String()
	}
	t["strings.NewReplacer"] = func(fr *frame, a []value) value {
		var ss []string
		for _, x := range a[0].([]value) {
			ss = append(ss, x.(string))
		}
		return &nativeObj{&vReplacer{r: strings.NewReplacer(ss...), pairs: ss}}
	}
	t["(*strings.Replacer).Replace"] = func(fr *frame, a []value) value {
		rp := a[0].(*nativeObj).v.(*vReplacer)
		if anySym(a[1:]) {
			return fr.i.ex.replacerSym(rp.pairs, termOf(a[1]))
		}
		return rp.r.Replace(a[1].(string))
	}
	// strings.Builder: field layout {addr *Builder; buf []byte}; model on buf as a string value in field 1
	t["(*strings.Builder).WriteString"] = func(fr *frame, a []value) value {
		sb := (*a[0].(*value)).(structure)
		sb[1] = fr.i.ex.concatValues(builderStr(sb), a[1])
		return tuple{valueOfTerm(tStrLen(termOf(a[1])), types.Int), iface{}}
	}
	t["(*strings.Builder).WriteByte"] = func(fr *frame, a []value) value {
		sb := (*a[0].(*value)).(structure)
		sb[1] = fr.i.ex.concatValues(builderStr(sb), fr.i.ex.byteToString(a[1]))
		return iface{}
	}
	t["(*strings.Builder).WriteRune"] = func(fr *frame, a []value) value {
		sb := (*a[0].(*value)).(structure)
		if r, ok := a[1].(int32); ok {
			sb[1] = fr.i.ex.concatValues(builderStr(sb), string(r))
			return tuple{utf8.RuneLen(r), iface{}}
		}
		sb[1] = fr.i.ex.concatValues(builderStr(sb), fr.i.ex.byteToString(a[1]))
		return tuple{1, iface{}}
	}
	t["(*strings.Builder).String"] = func(fr *frame, a []value) value {
		return builderStr((*a[0].(*value)).(structure))
	}
	t["(*strings.Builder).Len"] = func(fr *frame, a []value) value {
		return valueOfTerm(tStrLen(termOf(builderStr((*a[0].(*value)).(structure)))), types.Int)
	}
	t["(*strings.Builder).Reset"] = func(fr *frame, a []value) value {
		(*a[0].(*value)).(structure)[1] = ""
		return nil
	}
	t["(*strings.Builder).Grow"] = func(fr *frame, a []value) value { return nil }
	t["reflect.TypeOf"] = func(fr *frame, a []value) value {
		return &nativeObj{a[0].(iface).t}
	}
	t["runtime.Gosched"] = func(fr *frame, a []value) value { fr.i.ex.sched.yieldPoint("Gosched"); return nil }
	t["runtime.NumCPU"] = func(fr *frame, a []value) value { return 4 }
	t["runtime.GOMAXPROCS"] = func(fr *frame, a []value) value { return 4 }
	t["os.Getenv"] = func(fr *frame, a []value) value { return "" }
}

func (e *Engine) sortFuncExt(string) externalFn {
	return func(fr *frame, a []value) value {
		s := a[0].([]value)
		cmp := a[1]
		fr.i.insertionSort(len(s), func(i, j int) value {
			c := call(fr.i, fr, 0, cmp, []value{s[i], s[j]})
			return fr.i.ex.binop(tokLSS, nil, c, 0)
		}, func(i, j int) { s[i], s[j] = s[j], s[i] })
		return nil
	}
}

func builderStr(sb structure) value {
	switch v := sb[1].(type) {
	case string:
		return v
	case sym:
		return v
	case []value:
		if len(v) == 0 {
			return ""
		}
	}
	return ""
}

func (ex *exec) concatValues(a, b value) value {
	return valueOfTerm(tConcat(termOf(a), termOf(b)), types.String)
}

func (ex *exec) byteToString(b value) value {
	if sv, ok := b.(sym); ok {
		return sym{mkApp("str.from_code", SStr, sv.t), types.String}
	}
	return string([]byte{byte(asInt64(b))})
}

// insertionSort sorts with an interpreted comparator; symbolic comparisons fork.
func (i *interpreter) insertionSort(n int, less func(a, b int) value, swap func(a, b int)) {
	for a := 1; a < n; a++ {
		for b := a; b > 0; b-- {
			c := less(b, b-1)
			var lt bool
			switch c := c.(type) {
			case bool:
				lt = c
			case sym:
				lt = i.ex.decideBool(c.t, "sort-compare")
			}
			if !lt {
				break
			}
			swap(b, b-1)
		}
	}
}

func (i *interpreter) implementsError(t types.Type) bool {
	return i.methodByName(t, "Error") != nil
}

func (i *interpreter) methodByName(t types.Type, name string) *ssa.Function {
	ms := i.prog.MethodSets.MethodSet(t)
	for k := 0; k < ms.Len(); k++ {
		sel := ms.At(k)
		if sel.Obj().Name() == name {
			return i.prog.MethodValue(sel)
		}
	}
	return nil
}

// errorString calls the interpreted Error() method.
func (i *interpreter) errorString(fr *frame, err iface) value {
	if err.t == nil {
		return "<nil>"
	}
	m := i.methodByName(err.t, "Error")
	if m == nil {
		return "<error>"
	}
	return call(i, fr, 0, m, []value{err.v})
}

func (i *interpreter) errorsIs(err, target iface, depth int) value {
	if err.t == nil || target.t == nil {
		return err.t == nil && target.t == nil
	}
	if depth > 20 {
		return false
	}
	if types.Comparable(target.t) && sameType(err.t, target.t) {
		eq := equals(err.t, err.v, target.v)
		if b, ok := eq.(bool); ok && b {
			return true
		}
	}
	if m := i.methodByName(err.t, "Is"); m != nil {
		r := call(i, nil, 0, m, []value{err.v, target})
		if b, ok := r.(bool); ok && b {
			return true
		}
	}
	if m := i.methodByName(err.t, "Unwrap"); m != nil && m.Signature.Results().Len() == 1 {
		r := call(i, nil, 0, m, []value{err.v})
		switch r := r.(type) {
		case iface:
			return i.errorsIs(r, target, depth+1)
		case []value:
			for _, e := range r {
				if b, ok := i.errorsIs(e.(iface), target, depth+1).(bool); ok && b {
					return true
				}
			}
		}
	}
	return false
}

var _ = sort.Strings

type vReplacer struct {
	r     *strings.Replacer
	pairs []string
}

// replacerSym models strings.Replacer.Replace on a symbolic subject: scan left to
// right; at each position the first old string (in argument order) that matches
// is replaced, matches do not overlap.
func (ex *exec) replacerSym(pairs []string, s *Term) value {
	for i := 0; i+1 < len(pairs); i += 2 {
		if pairs[i] == "" {
			ex.unsupported("Replacer with an empty old string on a symbolic subject")
		}
	}
	bs := ex.symBytes(s, "Replacer.Replace")
	var out []*Term
	for i := 0; i < len(bs); {
		matched := false
		for p := 0; p+1 < len(pairs); p += 2 {
			old := pairs[p]
			if i+len(old) > len(bs) {
				continue
			}
			var eqs []*Term
			for k := 0; k < len(old); k++ {
				eqs = append(eqs, tEq(termOf(bs[i+k]), mkInt64(int64(old[k]))))
			}
			if ex.decideBool(tAnd(eqs...), "replacer-match") {
				out = append(out, mkStr(pairs[p+1]))
				i += len(old)
				matched = true
				break
			}
		}
		if !matched {
			out = append(out, codeStr(termOf(bs[i])))
			i++
		}
	}
	return valueOfTerm(tConcat(out...), types.String)
}
