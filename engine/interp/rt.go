package interp

// Intercepts for the harness runtime package (…/pkg/verifrt).

import (
	"os"
	"fmt"
	"go/types"
	"regexp"
	"strings"
)

const verifrtSuffix = "/pkg/verifrt."

func (e *Engine) verifrtExternal(name string) externalFn {
	i := strings.Index(name, verifrtSuffix)
	if i < 0 {
		return nil
	}
	switch name[i+len(verifrtSuffix):] {
	case "Bool":
		return func(fr *frame, a []value) value {
			ex := fr.i.ex
			return sym{ex.newInput(a[0].(string), SBool, types.Bool), types.Bool}
		}
	case "Int":
		return rtInt(types.Int)
	case "Int8":
		return rtInt(types.Int8)
	case "Int16":
		return rtInt(types.Int16)
	case "Int32":
		return rtInt(types.Int32)
	case "Int64":
		return rtInt(types.Int64)
	case "Uint8":
		return rtInt(types.Uint8)
	case "Uint16":
		return rtInt(types.Uint16)
	case "Uint32":
		return rtInt(types.Uint32)
	case "Uint64":
		return rtInt(types.Uint64)
	case "IntRange":
		return func(fr *frame, a []value) value {
			ex := fr.i.ex
			t := ex.newInput(a[0].(string), SInt, types.Int64)
			ex.assume(tAnd(tCmp(">=", t, mkInt64(a[1].(int64))), tCmp("<=", t, mkInt64(a[2].(int64)))))
			return sym{t, types.Int64}
		}
	case "String":
		return func(fr *frame, a []value) value {
			ex := fr.i.ex
			t := ex.newInput(a[0].(string), SStr, types.String)
			maxLen := a[1].(int)
			alphabet := a[2].(string)
			ex.assume(tCmp("<=", mkApp("str.len", SInt, t), mkInt64(int64(maxLen))))
			ex.assume(mkApp("str.in_re", SBool, t, alphabetRe(alphabet)))
			return sym{t, types.String}
		}
	case "Chars":
		// a string of exactly n symbolic characters drawn from alphabet ("" = printable ASCII):
		// a character sequence (each character an Int code input), no string-theory variable
		return func(fr *frame, a []value) value {
			ex := fr.i.ex
			name, n, alphabet := a[0].(string), a[1].(int), a[2].(string)
			cs := make([]*Term, n)
			for i := 0; i < n; i++ {
				c := ex.newInput(fmt.Sprintf("%s.c%d", name, i), SInt, types.Uint8)
				if alphabet == "" {
					ex.assume(tAnd(tCmp(">=", c, mkInt64(0x20)), tCmp("<=", c, mkInt64(0x7e))))
				} else {
					var alts []*Term
					for j := 0; j < len(alphabet); j++ {
						alts = append(alts, tEq(c, mkInt64(int64(alphabet[j]))))
					}
					ex.assume(tOr(alts...))
				}
				cs[i] = c
			}
			if n == 0 {
				return ""
			}
			return valueOfTerm(seqStr(cs), types.String)
		}
	case "Choice":
		return func(fr *frame, a []value) value {
			ex := fr.i.ex
			base := a[0].(string)
			n := a[1].(int)
			k := ex.occ["choice:"+base]
			ex.occ["choice:"+base] = k + 1
			alt := ex.choose(n, "Choice:"+base)
			ex.choiceInputs[fmt.Sprintf("%s!%d", base, k)] = fmt.Sprint(alt)
			return alt
		}
	case "Assume":
		return func(fr *frame, a []value) value {
			ex := fr.i.ex
			switch c := a[0].(type) {
			case bool:
				if !c {
					ex.abort("infeasible", "assume false")
				}
			case sym:
				if ex.pos >= len(ex.trace) {
					if ex.solver.CheckWith(c.t) == Unsat {
						ex.abort("infeasible", "assume unsat")
					}
				}
				ex.assume(c.t)
			}
			return nil
		}
	case "Assert":
		return func(fr *frame, a []value) value {
			fr.i.ex.assertion(a[0], a[1].(string))
			return nil
		}
	case "Reach":
		return func(fr *frame, a []value) value {
			fr.i.ex.res.Reached = append(fr.i.ex.res.Reached, a[0].(string))
			return nil
		}
	case "Observe":
		return func(fr *frame, a []value) value {
			ex := fr.i.ex
			v := a[1]
			if itf, ok := v.(iface); ok {
				v = itf.v
			}
			ex.obsTerms = append(ex.obsTerms, obsTerm{a[0].(string), snapshot(v)})
			if os.Getenv("GOSYMX_PRINT_OBSERVE") != "" {
				fmt.Fprintf(os.Stderr, "OBSERVE %s: %v\n", a[0], v)
			}
			return nil
		}
	case "And":
		return func(fr *frame, a []value) value { return andValues(a[0], a[1]) }
	case "Or":
		return func(fr *frame, a []value) value { return notValue(andValues(notValue(a[0]), notValue(a[1]))) }
	case "Implies":
		return func(fr *frame, a []value) value { return notValue(andValues(a[0], notValue(a[1]))) }
	case "Not":
		return func(fr *frame, a []value) value { return notValue(a[0]) }
	case "MapOrderNondet":
		return func(fr *frame, a []value) value {
			if a[0].(bool) {
				fr.i.ex.mapOrderNondet++
			} else if fr.i.ex.mapOrderNondet > 0 {
				fr.i.ex.mapOrderNondet--
			}
			return nil
		}
	case "Yield":
		return func(fr *frame, a []value) value {
			fr.i.ex.sched.yieldPoint("Yield:" + a[0].(string))
			return nil
		}
	case "Advance":
		return func(fr *frame, a []value) value {
			fr.i.ex.sched.advance(asInt64(a[0]))
			return nil
		}
	case "AwaitQuiescence":
		return func(fr *frame, a []value) value {
			fr.i.ex.sched.quiesce()
			return nil
		}
	case "Param":
		return func(fr *frame, a []value) value {
			if v, ok := fr.i.eng.Params[a[0].(string)]; ok {
				return v
			}
			return a[1]
		}
	case "Symbolic":
		return func(fr *frame, a []value) value { return true }
	case "Note":
		return func(fr *frame, a []value) value { return nil }
	case "Goroutines":
		return func(fr *frame, a []value) value {
			n := 0
			for _, g := range fr.i.ex.sched.gs[1:] {
				if g.state != gDone {
					n++
				}
			}
			return n
		}
	}
	return nil
}

func rtInt(k types.BasicKind) externalFn {
	return func(fr *frame, a []value) value {
		ex := fr.i.ex
		t := ex.newInput(a[0].(string), SInt, k)
		ii := intInfos[k]
		ex.assume(tAnd(tCmp(">=", t, mkInt(ii.min)), tCmp("<=", t, mkInt(ii.max))))
		return sym{t, k}
	}
}

// alphabetRe builds (re.* (re.union chars...)); "" = printable ASCII.
func alphabetRe(alphabet string) *Term {
	var set *Term
	if alphabet == "" {
		set = mkApp("re.range", SRe, mkStr(" "), mkStr("~"))
	} else {
		var parts []*Term
		for i := 0; i < len(alphabet); i++ {
			parts = append(parts, mkApp("str.to_re", SRe, mkStr(alphabet[i:i+1])))
		}
		if len(parts) == 1 {
			set = parts[0]
		} else {
			set = mkApp("re.union", SRe, parts...)
		}
	}
	return mkApp("re.*", SRe, set)
}

// snapshot deep-copies containers so later mutation does not change what was observed.
func snapshot(v value) value {
	switch v := v.(type) {
	case []value:
		if v == nil {
			return v
		}
		out := make([]value, len(v))
		for i, e := range v {
			out[i] = snapshot(e)
		}
		return out
	case structure:
		out := make(structure, len(v))
		for i, e := range v {
			out[i] = snapshot(e)
		}
		return out
	case array:
		out := make(array, len(v))
		for i, e := range v {
			out[i] = snapshot(e)
		}
		return out
	}
	return v
}

// ---------------------------------------------------------------- assertions

var placeholderRe = regexp.MustCompile(`\$([A-Za-z0-9_.]+(?:![0-9]+)?)`)

// knownPredicate instantiates a known-finding predicate over this path's
// inputs; ok=false if it mentions an input this path does not have.
func (ex *exec) knownPredicate(kf KnownFinding) (*Term, bool) {
	if kf.Predicate == "" {
		return tTrue, true
	}
	ok := true
	txt := placeholderRe.ReplaceAllStringFunc(kf.Predicate, func(m string) string {
		name := m[1:]
		if !strings.Contains(name, "!") {
			name += "!0"
		}
		for _, in := range ex.inputs {
			if in.Name == name {
				ex.solver.Ref(in.T)
				return in.T.name
			}
		}
		if v, found := ex.choiceInputs[name]; found {
			return v
		}
		ok = false
		return "false"
	})
	if !ok {
		return tFalse, false
	}
	// raw SMT text wrapped as an opaque boolean term
	return &Term{op: "rawbool", sort: SBool, s: txt, key: "raw:" + txt}, true
}

func (ex *exec) assertion(c value, label string) {
	if len(ex.h.Labels) > 0 {
		ok := false
		for _, p := range ex.h.Labels {
			if strings.HasPrefix(label, p) {
				ok = true
			}
		}
		if !ok {
			return
		}
	}
	rec := AssertRec{Label: label, Trace: append([]int{}, ex.taken...), Harness: ex.h.Func}
	var ct *Term
	switch c := c.(type) {
	case bool:
		ct = mkBool(c)
	case sym:
		ct = c.t
	}
	if ct.isConst() && ct.b {
		rec.Status = "discharged"
		ex.res.Asserts = append(ex.res.Asserts, rec)
		return
	}
	neg := tNot(ct)
	// known findings applicable to this harness/label
	var preds []*Term
	var kfs []KnownFinding
	for _, kf := range ex.eng.Known {
		if kf.Fixed != "" || kf.Property != ex.h.Property {
			continue
		}
		if kf.Harness != "" && kf.Harness != ex.h.Func {
			continue
		}
		if kf.Label != "" && kf.Label != label {
			continue
		}
		p, ok := ex.knownPredicate(kf)
		if !ok {
			continue
		}
		preds = append(preds, p)
		kfs = append(kfs, kf)
	}
	// 1. violation not covered by any known finding
	q := []*Term{neg}
	for _, p := range preds {
		q = append(q, tNot(p))
	}
	r, m := ex.model(q...)
	switch r {
	case Sat:
		rec.Status = "violated"
		for k, v := range ex.choiceInputs {
			m[k] = v
		}
		rec.Model = m
		rec.Sched = append([]string{}, ex.sched.log...)
		ex.res.Asserts = append(ex.res.Asserts, rec)
	case Unknown:
		rec.Status = "inconclusive"
		rec.Detail = "solver unknown: " + ex.solver.lastErr
		ex.res.Asserts = append(ex.res.Asserts, rec)
	case Unsat:
		anyKnown := false
		for i, p := range preds {
			r2, m2 := ex.model(neg, p)
			if r2 == Sat {
				anyKnown = true
				kr := rec
				kr.Status = "known"
				kr.Known = kfs[i].Text
				for k, v := range ex.choiceInputs {
					m2[k] = v
				}
				kr.Model = m2
				kr.Sched = append([]string{}, ex.sched.log...)
				ex.res.Asserts = append(ex.res.Asserts, kr)
			} else if r2 == Unknown {
				kr := rec
				kr.Status = "inconclusive"
				kr.Detail = "solver unknown on known-finding query"
				ex.res.Asserts = append(ex.res.Asserts, kr)
			}
		}
		if !anyKnown {
			rec.Status = "discharged"
			ex.res.Asserts = append(ex.res.Asserts, rec)
		}
	}
	// continue the path under the assertion (if possible)
	if ct.isConst() {
		ex.abort("done", "assertion false on this path")
	}
	if ex.solver.CheckWith(ct) == Unsat {
		ex.abort("done", "assertion unsatisfiable on this path")
	}
	ex.assume(ct)
}

// recordCrash: an uncaught panic / deadlock is a violation of the harness'
// property (label "panic"/"deadlock"), subject to known findings.
func (ex *exec) recordCrash(kind, reason string) {
	rec := AssertRec{Label: kind, Trace: append([]int{}, ex.taken...), Harness: ex.h.Func, Detail: firstLine(reason)}
	var known *KnownFinding
	for i, kf := range ex.eng.Known {
		if kf.Fixed != "" || kf.Property != ex.h.Property {
			continue
		}
		if kf.Harness != "" && kf.Harness != ex.h.Func {
			continue
		}
		if kf.Label != "" && kf.Label != kind {
			continue
		}
		if kf.Sched != "" && !strings.Contains(reason, kf.Sched) {
			continue
		}
		p, ok := ex.knownPredicate(kf)
		if !ok {
			continue
		}
		if p == tTrue {
			known = &ex.eng.Known[i]
			break
		}
		pb := p
		// the crash is "known" only if every input reaching it satisfies the predicate
		if ex.solver.CheckWith(tNot(pb)) == Unsat {
			known = &ex.eng.Known[i]
			break
		}
		// split: part of this path's inputs is known, the rest is new
		if r, m := ex.model(pb); r == Sat {
			kr := rec
			kr.Status = "known"
			kr.Known = kf.Text
			kr.Model = m
			ex.res.Asserts = append(ex.res.Asserts, kr)
		}
		ex.assumeQuiet(tNot(pb))
	}
	r, m := ex.model()
	if m == nil {
		m = map[string]string{}
	}
	for k, v := range ex.choiceInputs {
		m[k] = v
	}
	rec.Model = m
	rec.Sched = append([]string{}, ex.sched.log...)
	if known != nil {
		rec.Status = "known"
		rec.Known = known.Text
	} else if r == Unsat {
		return
	} else {
		rec.Status = "violated"
	}
	ex.res.Asserts = append(ex.res.Asserts, rec)
}

func (ex *exec) assumeQuiet(c *Term) {
	ex.pc = append(ex.pc, c)
	ex.solver.Assert(c)
}
