package interp

// Per-path execution context: decisions, path condition, inputs, results.

import (
	"fmt"
	"go/types"
	"math/big"
	"sort"
	"strings"
)

// abortPath is the host panic used to end a path early. It is never visible
// to interpreted recover().
type abortPath struct {
	status string // "infeasible", "inconclusive", "bound", "violation-stop", "done"
	reason string
}

type inputRec struct {
	Name string // name!k
	Base string
	T    *Term
	Kind types.BasicKind
}

type AssertRec struct {
	Label   string
	Status  string // "discharged", "violated", "known", "inconclusive"
	Known   string // text of known finding, when Status=="known"
	Model   map[string]string
	Trace   []int
	Detail  string
	Sched   []string
	Harness string
}

type PathResult struct {
	Trace       []int
	Status      string // ok | panic | deadlock | inconclusive | infeasible | bound
	Reason      string
	Asserts     []AssertRec
	Reached     []string
	Observed    []ObsRec
	NewPrefixes [][]int
	Decisions   int
	Instrs      int64
	Funcs       map[string]int
	Stubs       map[string]int
	UnknownBr   int
	ModelHits   int
	Inputs      map[string]string // a model of the path (filled on demand)
}

type ObsRec struct {
	Label string
	Val   string
}

type exec struct {
	eng            *Engine
	h              *Harness
	solver         *Solver
	trace          []int
	pos            int
	taken          []int
	pending        [][]int
	pc             []*Term
	inputs         []inputRec
	occ            map[string]int
	res            *PathResult
	sched          *sched
	it             *interpreter
	instrs         int64
	afterCall      bool
	obsTerms       []obsTerm
	unwind         map[string]int
	aux            []*Term
	known          map[string]bool
	curModel       evalEnv
	lastEnv        evalEnv
	choiceInputs   map[string]string
	pendingAbort   *abortPath
	nchan          int
	ndig           int
	mapOrderNondet int
}

type obsTerm struct {
	label string
	v     value
}

func (ex *exec) abort(status, reason string) {
	panic(abortPath{status, reason})
}

func (ex *exec) unsupported(what string) {
	ex.abort("inconclusive", "unsupported: "+what)
}

// assume adds c to the path condition (asserting it in the solver).
func (ex *exec) assume(c *Term) {
	if c.isConst() {
		if !c.b {
			ex.abort("infeasible", "assume false")
		}
		return
	}
	ex.pc = append(ex.pc, c)
	ex.solver.Assert(c)
	ex.record(c, true)
	if ex.curModel != nil {
		if mv, err := evalTerm(c, ex.curModel); err != nil || !mv.B {
			ex.curModel = nil
		}
	}
}

// record notes the truth value of c (and simple consequences) for this path.
func (ex *exec) record(c *Term, v bool) {
	if ex.known == nil {
		ex.known = map[string]bool{}
	}
	switch c.op {
	case "not":
		ex.record(c.args[0], !v)
		return
	case "and":
		if v {
			for _, a := range c.args {
				ex.record(a, true)
			}
		}
	case "or":
		if !v {
			for _, a := range c.args {
				ex.record(a, false)
			}
		}
	case "<":
		if v && len(c.args) == 2 {
			ex.known[mkApp("<", SBool, c.args[1], c.args[0]).key] = false
			ex.known[mkApp("=", SBool, c.args[0], c.args[1]).key] = false
			ex.known[mkApp("=", SBool, c.args[1], c.args[0]).key] = false
		}
	case "=":
		if len(c.args) == 2 {
			ex.known[mkApp("=", SBool, c.args[1], c.args[0]).key] = v
			if v && c.args[0].sort == SInt {
				ex.known[mkApp("<", SBool, c.args[0], c.args[1]).key] = false
				ex.known[mkApp("<", SBool, c.args[1], c.args[0]).key] = false
			}
		}
	}
	ex.known[c.key] = v
}

// knownValue returns the recorded truth value of c, if any.
func (ex *exec) knownValue(c *Term) (bool, bool) {
	if c.isConst() {
		return c.b, true
	}
	if v, ok := ex.known[c.key]; ok {
		return v, true
	}
	switch c.op {
	case "not":
		if v, ok := ex.knownValue(c.args[0]); ok {
			return !v, true
		}
	case "and":
		all := true
		for _, a := range c.args {
			v, ok := ex.knownValue(a)
			if ok && !v {
				return false, true
			}
			if !ok {
				all = false
			}
		}
		if all {
			return true, true
		}
	case "or":
		all := true
		for _, a := range c.args {
			v, ok := ex.knownValue(a)
			if ok && v {
				return true, true
			}
			if !ok {
				all = false
			}
		}
		if all {
			return false, true
		}
	}
	return false, false
}

// decide chooses among mutually exclusive alternatives whose conditions are
// conds (collectively exhaustive under the path condition).
func (ex *exec) decide(conds []*Term, what string) int {
	if ex.solver.expired {
		ex.abort("bound", "wall-clock budget of the harness exceeded")
	}
	// fast path: constants
	nonFalse := -1
	cnt := 0
	for i, c := range conds {
		if c.isConst() && !c.b {
			continue
		}
		cnt++
		nonFalse = i
		if c.isConst() && c.b {
			return i
		}
	}
	if cnt == 0 {
		ex.abort("infeasible", "no alternative: "+what)
	}
	if cnt == 1 {
		// the single remaining alternative is implied (exhaustiveness)
		return nonFalse
	}
	// recorded facts of this path (deterministic in original run and replay)
	{
		unknown := -1
		nUnknown := 0
		for i, c := range conds {
			v, ok := ex.knownValue(c)
			if ok && v {
				return i
			}
			if !ok {
				nUnknown++
				unknown = i
			}
		}
		if nUnknown == 1 {
			return unknown // all others known false; exhaustive
		}
	}
	ex.res.Decisions++
	if ex.pos < len(ex.trace) {
		alt := ex.trace[ex.pos]
		ex.pos++
		ex.taken = append(ex.taken, alt)
		if alt >= len(conds) {
			ex.abort("inconclusive", fmt.Sprintf("replay divergence at decision %d (%s): alt %d of %d", ex.pos-1, what, alt, len(conds)))
		}
		ex.assume(conds[alt])
		return alt
	}
	if ex.eng.MaxDecisions > 0 && len(ex.taken) >= ex.eng.MaxDecisions {
		ex.abort("bound", "decision depth bound exceeded at "+what)
	}
	// frontier: find feasible alternatives
	var feas []int
	var firstModel evalEnv
	// many alternatives: if the current model picks one and no other is possible, one query settles it
	if len(conds) > 2 && ex.curModel != nil {
		for i, c := range conds {
			if mv, err := evalTerm(c, ex.curModel); err == nil && mv.Sort == SBool && mv.B {
				if ex.solver.CheckWith(tNot(c)) == Unsat {
					ex.pos++
					ex.taken = append(ex.taken, i)
					m := ex.curModel
					ex.assume(c)
					ex.curModel = m
					return i
				}
				break
			}
		}
	}
	for i, c := range conds {
		if c.isConst() && !c.b {
			continue
		}
		if kv, ok := ex.knownValue(c); ok && !kv {
			continue
		}
		if len(feas) == 0 && i == lastNonFalse(conds) {
			// all earlier infeasible => this one must be feasible
			feas = append(feas, i)
			break
		}
		// the current model already witnesses one alternative
		if ex.curModel != nil {
			if mv, err := evalTerm(c, ex.curModel); err == nil && mv.Sort == SBool && mv.B {
				feas = append(feas, i)
				if len(feas) == 1 {
					firstModel = ex.curModel
				}
				ex.res.ModelHits++
				continue
			}
		}
		r, env := ex.fullModel(c)
		switch r {
		case Sat:
			feas = append(feas, i)
			if len(feas) == 1 {
				firstModel = env
			}
		case Unknown:
			ex.res.UnknownBr++
			feas = append(feas, i)
		}
	}
	ex.curModel = firstModel
	if len(feas) == 0 {
		ex.abort("infeasible", "no feasible alternative: "+what)
	}
	first := feas[0]
	for _, alt := range feas[1:] {
		p := make([]int, len(ex.taken)+1)
		copy(p, ex.taken)
		p[len(ex.taken)] = alt
		ex.pending = append(ex.pending, p)
	}
	ex.pos++
	ex.taken = append(ex.taken, first)
	ex.assume(conds[first])
	ex.curModel = firstModel // a model of pc ∧ conds[first] by construction (or nil)
	return first
}

func lastNonFalse(conds []*Term) int {
	for i := len(conds) - 1; i >= 0; i-- {
		if !(conds[i].isConst() && !conds[i].b) {
			return i
		}
	}
	return -1
}

func (ex *exec) decideBool(c *Term, what string) bool {
	if c.isConst() {
		return c.b
	}
	return ex.decide([]*Term{c, tNot(c)}, what) == 0
}

// choose is an n-ary free choice (scheduler, Choice inputs): alternatives
// are all feasible by construction; recorded as input for replay.
func (ex *exec) choose(n int, what string) int {
	if n <= 1 {
		return 0
	}
	ex.res.Decisions++
	if ex.pos < len(ex.trace) {
		alt := ex.trace[ex.pos]
		ex.pos++
		ex.taken = append(ex.taken, alt)
		if alt >= n {
			ex.abort("inconclusive", fmt.Sprintf("replay divergence at choice %d (%s)", ex.pos-1, what))
		}
		return alt
	}
	if ex.eng.MaxDecisions > 0 && len(ex.taken) >= ex.eng.MaxDecisions {
		ex.abort("bound", "decision depth bound exceeded at "+what)
	}
	for alt := 1; alt < n; alt++ {
		p := make([]int, len(ex.taken)+1)
		copy(p, ex.taken)
		p[len(ex.taken)] = alt
		ex.pending = append(ex.pending, p)
	}
	ex.pos++
	ex.taken = append(ex.taken, 0)
	return 0
}

// concretizeInt forks on the value of a symbolic integer within [lo,hi].
// Values outside are handled by the caller before calling (obligation).
func (ex *exec) concretizeInt(t *Term, lo, hi int64, what string) int64 {
	if t.isConst() {
		return t.n.Int64()
	}
	if hi-lo > 64 {
		ex.abort("bound", fmt.Sprintf("concretize range too large (%d..%d) at %s", lo, hi, what))
	}
	conds := make([]*Term, 0, hi-lo+1)
	for v := lo; v <= hi; v++ {
		conds = append(conds, tEq(t, mkInt64(v)))
	}
	return lo + int64(ex.decide(conds, what))
}

// ---- inputs ----

func (ex *exec) newInput(base string, sort Sort, kind types.BasicKind) *Term {
	k := ex.occ[base]
	ex.occ[base] = k + 1
	name := fmt.Sprintf("in!%s!%d", sanitizeName(base), k)
	t := mkVar(name, sort)
	ex.inputs = append(ex.inputs, inputRec{Name: fmt.Sprintf("%s!%d", base, k), Base: base, T: t, Kind: kind})
	return t
}

func sanitizeName(s string) string {
	var sb strings.Builder
	for _, c := range s {
		if c >= 'a' && c <= 'z' || c >= 'A' && c <= 'Z' || c >= '0' && c <= '9' || c == '_' || c == '.' {
			sb.WriteRune(c)
		} else {
			fmt.Fprintf(&sb, "$%x$", c)
		}
	}
	return sb.String()
}

func (ex *exec) inputVars() []*Term {
	vs := make([]*Term, len(ex.inputs))
	for i, in := range ex.inputs {
		vs[i] = in.T
	}
	return vs
}

// model returns the values of all inputs under pc ∧ extra (nil if not sat).
func (ex *exec) model(extra ...*Term) (SatResult, map[string]string) {
	r, env := ex.fullModel(extra...)
	if r != Sat {
		return r, nil
	}
	ex.lastEnv = env
	return r, ex.inputsOf(env)
}

func (ex *exec) inputsOf(env evalEnv) map[string]string {
	out := map[string]string{}
	for _, in := range ex.inputs {
		mv, ok := env[in.T.name]
		if !ok {
			continue
		}
		switch mv.Sort {
		case SBool:
			out[in.Name] = fmt.Sprint(mv.B)
		case SInt:
			if mv.N != nil {
				out[in.Name] = mv.N.String()
			}
		case SStr:
			out[in.Name] = mv.S
		}
	}
	return out
}

// fullModel returns model values for every declared variable (inputs and
// auxiliary variables) under pc ∧ extra.
func (ex *exec) fullModel(extra ...*Term) (SatResult, evalEnv) {
	vars := append(ex.inputVars(), ex.aux...)
	r, m := ex.solver.ModelWith(vars, extra...)
	if r != Sat {
		return r, nil
	}
	return r, evalEnv(m)
}

func renderValue(v value, m evalEnv) string {
	switch v := v.(type) {
	case sym:
		if m != nil {
			if mv, err := evalTerm(v.t, m); err == nil {
				switch mv.Sort {
				case SBool:
					return fmt.Sprint(mv.B)
				case SInt:
					if mv.N != nil {
						return mv.N.String()
					}
				case SStr:
					return fmt.Sprintf("%q", mv.S)
				}
			} else {
				return "<sym:" + err.Error() + ">"
			}
		}
		return "<sym>"
	case string:
		return fmt.Sprintf("%q", v)
	case []value:
		if v == nil {
			return "[]"
		}
		parts := make([]string, len(v))
		for i, e := range v {
			parts[i] = renderValue(e, m)
		}
		return "[" + strings.Join(parts, " ") + "]"
	case structure:
		parts := make([]string, len(v))
		for i, e := range v {
			parts[i] = renderValue(e, m)
		}
		return "{" + strings.Join(parts, " ") + "}"
	case array:
		parts := make([]string, len(v))
		for i, e := range v {
			parts[i] = renderValue(e, m)
		}
		return "[" + strings.Join(parts, " ") + "]"
	case iface:
		if v.t == nil {
			return "<nil>"
		}
		return renderValue(v.v, m)
	case *value:
		if v == nil {
			return "<nil>"
		}
		return "&" + renderValue(*v, m)
	case *omap:
		if v == nil {
			return "map[]"
		}
		var parts []string
		for _, e := range v.entries {
			if e != nil {
				parts = append(parts, renderValue(e.key, m)+":"+renderValue(e.val, m))
			}
		}
		sort.Strings(parts)
		return "map[" + strings.Join(parts, " ") + "]"
	case bool, int, int8, int16, int32, int64, uint, uint8, uint16, uint32, uint64, uintptr, float32, float64:
		return fmt.Sprint(v)
	case nil:
		return "<nil>"
	}
	return fmt.Sprintf("<%T>", v)
}

// ---- integer kinds ----

type intInfo struct {
	signed bool
	bits   uint
	min    *big.Int
	max    *big.Int
	mod    *big.Int
}

var intInfos = map[types.BasicKind]*intInfo{}

func init() {
	mk := func(k types.BasicKind, signed bool, bits uint) {
		ii := &intInfo{signed: signed, bits: bits}
		ii.mod = new(big.Int).Lsh(big.NewInt(1), bits)
		if signed {
			ii.min = new(big.Int).Neg(new(big.Int).Lsh(big.NewInt(1), bits-1))
			ii.max = new(big.Int).Sub(new(big.Int).Lsh(big.NewInt(1), bits-1), big.NewInt(1))
		} else {
			ii.min = big.NewInt(0)
			ii.max = new(big.Int).Sub(ii.mod, big.NewInt(1))
		}
		intInfos[k] = ii
	}
	mk(types.Int, true, 64)
	mk(types.Int8, true, 8)
	mk(types.Int16, true, 16)
	mk(types.Int32, true, 32)
	mk(types.Int64, true, 64)
	mk(types.Uint, false, 64)
	mk(types.Uint8, false, 8)
	mk(types.Uint16, false, 16)
	mk(types.Uint32, false, 32)
	mk(types.Uint64, false, 64)
	mk(types.Uintptr, false, 64)
}
