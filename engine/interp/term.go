package interp

// SMT terms. Terms are immutable trees with structural sharing; every term
// gets a per-exec id and is sent to the solver once as a define-fun.

import (
	"fmt"
	"math/big"
	"strconv"
	"strings"
)

type Sort int

const (
	SBool Sort = iota
	SInt
	SStr
	SFP64
	SFP32
	SRe
)

func (s Sort) String() string {
	switch s {
	case SBool:
		return "Bool"
	case SInt:
		return "Int"
	case SStr:
		return "String"
	case SFP64:
		return "(_ FloatingPoint 11 53)"
	case SFP32:
		return "(_ FloatingPoint 8 24)"
	case SRe:
		return "RegLan"
	}
	return "?"
}

type Term struct {
	op   string // "const", "var", or SMT operator
	sort Sort
	args []*Term
	// literals
	b    bool
	n    *big.Int
	s    string
	name string // for var
	key  string // structural key (for hash-consing / comparison)
	re   string // str.in_re built from a Go regexp: the pattern (model evaluation runs it natively)
}

func (t *Term) isConst() bool { return t.op == "const" }

func (t *Term) String() string { return t.smt() }

var (
	tTrue  = &Term{op: "const", sort: SBool, b: true, key: "true"}
	tFalse = &Term{op: "const", sort: SBool, b: false, key: "false"}
)

func mkBool(b bool) *Term {
	if b {
		return tTrue
	}
	return tFalse
}

func mkInt(n *big.Int) *Term {
	return &Term{op: "const", sort: SInt, n: n, key: "i" + n.String()}
}

func mkInt64(n int64) *Term { return mkInt(big.NewInt(n)) }

func mkUint64(n uint64) *Term { return mkInt(new(big.Int).SetUint64(n)) }

func mkStr(s string) *Term {
	return &Term{op: "const", sort: SStr, s: s, key: "s" + strconv.Quote(s)}
}

func mkVar(name string, sort Sort) *Term {
	return &Term{op: "var", sort: sort, name: name, key: "v" + name}
}

func mkApp(op string, sort Sort, args ...*Term) *Term {
	var sb strings.Builder
	sb.WriteByte('(')
	sb.WriteString(op)
	for _, a := range args {
		sb.WriteByte(' ')
		sb.WriteString(a.key)
	}
	sb.WriteByte(')')
	k := sb.String()
	if len(k) > 200 {
		// keep keys bounded: hash long keys
		k = fmt.Sprintf("#%x/%d", fnv64(k), len(k))
	}
	return &Term{op: op, sort: sort, args: args, key: k}
}

func fnv64(s string) uint64 {
	var h uint64 = 14695981039346656037
	for i := 0; i < len(s); i++ {
		h ^= uint64(s[i])
		h *= 1099511628211
	}
	return h
}

// ---- boolean constructors with simplification ----

func tNot(a *Term) *Term {
	if a.isConst() {
		return mkBool(!a.b)
	}
	if a.op == "not" {
		return a.args[0]
	}
	return mkApp("not", SBool, a)
}

func tAnd(xs ...*Term) *Term {
	var out []*Term
	for _, x := range xs {
		if x.isConst() {
			if !x.b {
				return tFalse
			}
			continue
		}
		if x.op == "and" {
			out = append(out, x.args...)
			continue
		}
		out = append(out, x)
	}
	switch len(out) {
	case 0:
		return tTrue
	case 1:
		return out[0]
	}
	return mkApp("and", SBool, out...)
}

func tOr(xs ...*Term) *Term {
	var out []*Term
	for _, x := range xs {
		if x.isConst() {
			if x.b {
				return tTrue
			}
			continue
		}
		if x.op == "or" {
			out = append(out, x.args...)
			continue
		}
		out = append(out, x)
	}
	switch len(out) {
	case 0:
		return tFalse
	case 1:
		return out[0]
	}
	return mkApp("or", SBool, out...)
}

func tImplies(a, b *Term) *Term { return tOr(tNot(a), b) }

func tIte(c, a, b *Term) *Term {
	if c.isConst() {
		if c.b {
			return a
		}
		return b
	}
	if a.key == b.key {
		return a
	}
	if a.sort == SBool {
		if a.isConst() && b.isConst() {
			if a.b {
				return c
			}
			return tNot(c)
		}
	}
	return mkApp("ite", a.sort, c, a, b)
}

func tEq(a, b *Term) *Term {
	if a.key == b.key {
		return tTrue
	}
	if a.isConst() && b.isConst() {
		switch a.sort {
		case SBool:
			return mkBool(a.b == b.b)
		case SInt:
			return mkBool(a.n.Cmp(b.n) == 0)
		case SStr:
			return mkBool(a.s == b.s)
		}
	}
	if a.sort == SFP64 || a.sort == SFP32 {
		return mkApp("fp.eq", SBool, a, b)
	}
	if a.sort == SStr && (a.op == "str.++" || a.op == "str.from_code" || a.op == "str.at" || a.isConst()) &&
		(b.op == "str.++" || b.op == "str.from_code" || b.op == "str.at" || b.isConst()) {
		if ca, ok := charSeq(a); ok {
			if cb, ok := charSeq(b); ok {
				if len(ca) != len(cb) {
					return tFalse
				}
				eqs := make([]*Term, len(ca))
				for i := range ca {
					eqs[i] = tEq(ca[i], cb[i])
				}
				return tAnd(eqs...)
			}
		}
	}
	return mkApp("=", SBool, a, b)
}

// ---- integer ----

func tAdd(a, b *Term) *Term {
	if a.isConst() && b.isConst() {
		return mkInt(new(big.Int).Add(a.n, b.n))
	}
	if a.isConst() && a.n.Sign() == 0 {
		return b
	}
	if b.isConst() && b.n.Sign() == 0 {
		return a
	}
	return mkApp("+", SInt, a, b)
}

func tSub(a, b *Term) *Term {
	if a.isConst() && b.isConst() {
		return mkInt(new(big.Int).Sub(a.n, b.n))
	}
	if b.isConst() && b.n.Sign() == 0 {
		return a
	}
	return mkApp("-", SInt, a, b)
}

func tNeg(a *Term) *Term {
	if a.isConst() {
		return mkInt(new(big.Int).Neg(a.n))
	}
	return mkApp("-", SInt, a)
}

func tMul(a, b *Term) *Term {
	if a.isConst() && b.isConst() {
		return mkInt(new(big.Int).Mul(a.n, b.n))
	}
	if a.isConst() && a.n.Cmp(big.NewInt(1)) == 0 {
		return b
	}
	if b.isConst() && b.n.Cmp(big.NewInt(1)) == 0 {
		return a
	}
	return mkApp("*", SInt, a, b)
}

// SMT-LIB div/mod: floor for positive divisor (Euclidean).
func tDiv(a, b *Term) *Term {
	if a.isConst() && b.isConst() && b.n.Sign() != 0 {
		q, _ := new(big.Int).DivMod(a.n, b.n, new(big.Int)) // Euclidean
		return mkInt(q)
	}
	return mkApp("div", SInt, a, b)
}

func tMod(a, b *Term) *Term {
	if a.isConst() && b.isConst() && b.n.Sign() != 0 {
		_, m := new(big.Int).DivMod(a.n, b.n, new(big.Int))
		return mkInt(m)
	}
	return mkApp("mod", SInt, a, b)
}

func tCmp(op string, a, b *Term) *Term {
	// normal form: only "<" and its negation
	switch op {
	case ">":
		return tCmp("<", b, a)
	case ">=":
		return tNot(tCmp("<", a, b))
	case "<=":
		return tNot(tCmp("<", b, a))
	}
	if a.isConst() && b.isConst() {
		c := a.n.Cmp(b.n)
		switch op {
		case "<":
			return mkBool(c < 0)
		case "<=":
			return mkBool(c <= 0)
		case ">":
			return mkBool(c > 0)
		case ">=":
			return mkBool(c >= 0)
		}
	}
	return mkApp(op, SBool, a, b)
}

// ---- strings ----

// charSeq returns the single-character terms of s when s is a sequence of
// known length: constants, str.from_code and (in-bounds) str.at parts.
// Each returned term is an Int code point term.
func charSeq(s *Term) ([]*Term, bool) {
	switch {
	case s.isConst():
		out := make([]*Term, len(s.s))
		for i := 0; i < len(s.s); i++ {
			out[i] = mkInt64(int64(s.s[i]))
		}
		return out, true
	case s.op == "str.from_code":
		return []*Term{s.args[0]}, true
	case s.op == "str.at":
		return []*Term{mkApp("str.to_code", SInt, s)}, true
	case s.op == "str.++":
		var out []*Term
		for _, p := range s.args {
			cs, ok := charSeq(p)
			if !ok {
				return nil, false
			}
			out = append(out, cs...)
		}
		return out, true
	}
	return nil, false
}

// codeStr is the inverse of str.to_code for a single character code term.
func codeStr(c *Term) *Term {
	if c.isConst() {
		return mkStr(string([]byte{byte(c.n.Int64())}))
	}
	if c.op == "str.to_code" && c.args[0].op == "str.at" {
		return c.args[0]
	}
	return mkApp("str.from_code", SStr, c)
}

func seqStr(cs []*Term) *Term {
	parts := make([]*Term, len(cs))
	for i, c := range cs {
		parts[i] = codeStr(c)
	}
	return tConcat(parts...)
}

func tStrLen(a *Term) *Term {
	if a.isConst() {
		return mkInt64(int64(len(a.s)))
	}
	if a.op == "str.at" {
		return mkInt64(1)
	}
	if a.op == "str.++" {
		var sum *Term = mkInt64(0)
		for _, x := range a.args {
			sum = tAdd(sum, tStrLen(x))
		}
		return sum
	}
	if a.op == "str.from_code" {
		// harness alphabet guarantees valid code points
		return mkInt64(1)
	}
	return mkApp("str.len", SInt, a)
}

func tConcat(xs ...*Term) *Term {
	var out []*Term
	for _, x := range xs {
		if x.op == "str.++" {
			for _, y := range x.args {
				out = appendStr(out, y)
			}
			continue
		}
		out = appendStr(out, x)
	}
	switch len(out) {
	case 0:
		return mkStr("")
	case 1:
		return out[0]
	}
	return mkApp("str.++", SStr, out...)
}

func appendStr(out []*Term, x *Term) []*Term {
	if x.isConst() {
		if x.s == "" {
			return out
		}
		if n := len(out); n > 0 && out[n-1].isConst() {
			out[n-1] = mkStr(out[n-1].s + x.s)
			return out
		}
	}
	return append(out, x)
}

func tStrOp(op string, sort Sort, args ...*Term) *Term {
	all := true
	for _, a := range args {
		if !a.isConst() {
			all = false
		}
	}
	if all {
		switch op {
		case "str.prefixof":
			return mkBool(strings.HasPrefix(args[1].s, args[0].s))
		case "str.suffixof":
			return mkBool(strings.HasSuffix(args[1].s, args[0].s))
		case "str.contains":
			return mkBool(strings.Contains(args[0].s, args[1].s))
		case "str.<":
			return mkBool(args[0].s < args[1].s)
		case "str.<=":
			return mkBool(args[0].s <= args[1].s)
		}
	}
	// both operands are character sequences of known length: the predicate is a boolean
	// combination of character equalities - no string theory needed
	switch op {
	case "str.prefixof", "str.suffixof", "str.contains":
		hay, needle := args[1], args[0]
		if op == "str.contains" {
			hay, needle = args[0], args[1]
		}
		hs, ok1 := charSeq(hay)
		ns, ok2 := charSeq(needle)
		if ok1 && ok2 && len(hs) <= 4096 {
			matchAt := func(i int) *Term {
				var cs []*Term
				for j, c := range ns {
					cs = append(cs, tEq(hs[i+j], c))
				}
				return tAnd(cs...)
			}
			if len(ns) > len(hs) {
				return tFalse
			}
			switch op {
			case "str.prefixof":
				return matchAt(0)
			case "str.suffixof":
				return matchAt(len(hs) - len(ns))
			default:
				var alts []*Term
				for i := 0; i+len(ns) <= len(hs); i++ {
					alts = append(alts, matchAt(i))
				}
				return tOr(alts...)
			}
		}
	}
	return mkApp(op, sort, args...)
}

// ---- printing ----

func smtStringLit(s string) string {
	var sb strings.Builder
	sb.WriteByte('"')
	for i := 0; i < len(s); i++ {
		c := s[i]
		switch {
		case c == '"':
			sb.WriteString(`""`)
		case c == '\\':
			sb.WriteString(`\u{5c}`)
		case c >= 0x20 && c <= 0x7e:
			sb.WriteByte(c)
		default:
			fmt.Fprintf(&sb, `\u{%x}`, c)
		}
	}
	sb.WriteByte('"')
	return sb.String()
}

func smtIntLit(n *big.Int) string {
	if n.Sign() < 0 {
		return "(- " + new(big.Int).Neg(n).String() + ")"
	}
	return n.String()
}

// smt prints the full term (no sharing). Used for small terms / debugging.
func (t *Term) smt() string {
	var sb strings.Builder
	t.write(&sb, nil)
	return sb.String()
}

// write prints t; if names != nil, subterms that have a name are printed by name.
func (t *Term) write(sb *strings.Builder, names map[*Term]string) {
	if names != nil {
		if n, ok := names[t]; ok {
			sb.WriteString(n)
			return
		}
	}
	switch t.op {
	case "const":
		switch t.sort {
		case SBool:
			if t.b {
				sb.WriteString("true")
			} else {
				sb.WriteString("false")
			}
		case SInt:
			sb.WriteString(smtIntLit(t.n))
		case SStr:
			sb.WriteString(smtStringLit(t.s))
		default:
			sb.WriteString(t.s) // FP literal text
		}
	case "var":
		sb.WriteString(t.name)
	case "rawbool", "rawre":
		sb.WriteString(t.s)
	default:
		sb.WriteByte('(')
		sb.WriteString(t.op)
		for _, a := range t.args {
			sb.WriteByte(' ')
			a.write(sb, names)
		}
		sb.WriteByte(')')
	}
}
