package interp

// Symbolic scalar values and their operators.

import (
	"fmt"
	"go/token"
	"go/types"
	"math"
	"math/big"
)

// sym is a symbolic scalar: bool, integer of a given kind, string, float64.
type sym struct {
	t *Term
	k types.BasicKind // types.Bool, types.String, integer kind, types.Float64/32
}

func isSym(v value) bool { _, ok := v.(sym); return ok }

func basicKindOf(t types.Type) types.BasicKind {
	if b, ok := t.Underlying().(*types.Basic); ok {
		k := b.Kind()
		switch k {
		case types.UntypedBool:
			return types.Bool
		case types.UntypedInt:
			return types.Int
		case types.UntypedRune:
			return types.Int32
		case types.UntypedString:
			return types.String
		case types.UntypedFloat:
			return types.Float64
		}
		return k
	}
	return types.Invalid
}

func kindOfValue(v value) types.BasicKind {
	switch v := v.(type) {
	case sym:
		return v.k
	case bool:
		return types.Bool
	case int:
		return types.Int
	case int8:
		return types.Int8
	case int16:
		return types.Int16
	case int32:
		return types.Int32
	case int64:
		return types.Int64
	case uint:
		return types.Uint
	case uint8:
		return types.Uint8
	case uint16:
		return types.Uint16
	case uint32:
		return types.Uint32
	case uint64:
		return types.Uint64
	case uintptr:
		return types.Uintptr
	case string:
		return types.String
	case float64:
		return types.Float64
	case float32:
		return types.Float32
	}
	return types.Invalid
}

func isIntKind(k types.BasicKind) bool { return intInfos[k] != nil }

func bigOf(v value) *big.Int {
	switch v := v.(type) {
	case int:
		return big.NewInt(int64(v))
	case int8:
		return big.NewInt(int64(v))
	case int16:
		return big.NewInt(int64(v))
	case int32:
		return big.NewInt(int64(v))
	case int64:
		return big.NewInt(v)
	case uint:
		return new(big.Int).SetUint64(uint64(v))
	case uint8:
		return new(big.Int).SetUint64(uint64(v))
	case uint16:
		return new(big.Int).SetUint64(uint64(v))
	case uint32:
		return new(big.Int).SetUint64(uint64(v))
	case uint64:
		return new(big.Int).SetUint64(v)
	case uintptr:
		return new(big.Int).SetUint64(uint64(v))
	}
	return nil
}

// termOf converts a concrete or symbolic scalar to a term.
func termOf(v value) *Term {
	switch v := v.(type) {
	case sym:
		return v.t
	case bool:
		return mkBool(v)
	case string:
		return mkStr(v)
	case float64:
		return fpLit(v)
	}
	if n := bigOf(v); n != nil {
		return mkInt(n)
	}
	panic(fmt.Sprintf("termOf: not a scalar: %T", v))
}

func fpLit(f float64) *Term {
	bits := math.Float64bits(f)
	s := fmt.Sprintf("(fp #b%01b #b%011b #b%052b)", bits>>63, (bits>>52)&0x7ff, bits&((1<<52)-1))
	return &Term{op: "const", sort: SFP64, s: s, key: "f" + s}
}

// concreteOf builds the Go value of kind k from n (already in range).
func concreteOf(k types.BasicKind, n *big.Int) value {
	switch k {
	case types.Int:
		return int(n.Int64())
	case types.Int8:
		return int8(n.Int64())
	case types.Int16:
		return int16(n.Int64())
	case types.Int32:
		return int32(n.Int64())
	case types.Int64:
		return n.Int64()
	case types.Uint:
		return uint(n.Uint64())
	case types.Uint8:
		return uint8(n.Uint64())
	case types.Uint16:
		return uint16(n.Uint64())
	case types.Uint32:
		return uint32(n.Uint64())
	case types.Uint64:
		return n.Uint64()
	case types.Uintptr:
		return uintptr(n.Uint64())
	}
	panic(fmt.Sprintf("concreteOf: kind %v", k))
}

// valueOfTerm normalises: constants become concrete Go values.
func valueOfTerm(t *Term, k types.BasicKind) value {
	if t.isConst() {
		switch t.sort {
		case SBool:
			return t.b
		case SStr:
			return t.s
		case SInt:
			if isIntKind(k) {
				return concreteOf(k, t.n)
			}
		}
	}
	return sym{t, k}
}

// wrapTerm reduces an arbitrary integer term into the range of kind k.
func wrapTerm(t *Term, k types.BasicKind) *Term {
	ii := intInfos[k]
	if t.isConst() {
		n := new(big.Int).Mod(t.n, ii.mod) // Euclidean: 0..mod-1
		if ii.signed && n.Cmp(ii.max) > 0 {
			n.Sub(n, ii.mod)
		}
		return mkInt(n)
	}
	if !ii.signed {
		return tMod(t, mkInt(ii.mod))
	}
	half := new(big.Int).Lsh(big.NewInt(1), ii.bits-1)
	return tSub(tMod(tAdd(t, mkInt(half)), mkInt(ii.mod)), mkInt(half))
}

// wrapSmall: result of + or - of two in-range operands (off by at most one modulus).
func wrapSmall(t *Term, k types.BasicKind) *Term {
	ii := intInfos[k]
	if t.isConst() {
		return wrapTerm(t, k)
	}
	return tIte(tCmp(">", t, mkInt(ii.max)), tSub(t, mkInt(ii.mod)),
		tIte(tCmp("<", t, mkInt(ii.min)), tAdd(t, mkInt(ii.mod)), t))
}

// symBinop implements binary operators when at least one operand is symbolic.
func (ex *exec) symBinop(op token.Token, x, y value) value {
	k := kindOfValue(x)
	if !isSym(x) && isSym(y) && op != token.SHL && op != token.SHR {
		k = kindOfValue(y)
	}
	a, b := termOf(x), termOf(y)
	switch k {
	case types.Bool:
		switch op {
		case token.EQL:
			return valueOfTerm(tEq(a, b), types.Bool)
		case token.NEQ:
			return valueOfTerm(tNot(tEq(a, b)), types.Bool)
		case token.AND, token.LAND:
			return valueOfTerm(tAnd(a, b), types.Bool)
		case token.OR, token.LOR:
			return valueOfTerm(tOr(a, b), types.Bool)
		}
	case types.String:
		switch op {
		case token.ADD:
			return valueOfTerm(tConcat(a, b), types.String)
		case token.EQL:
			return valueOfTerm(tEq(a, b), types.Bool)
		case token.NEQ:
			return valueOfTerm(tNot(tEq(a, b)), types.Bool)
		case token.LSS:
			return valueOfTerm(tStrOp("str.<", SBool, a, b), types.Bool)
		case token.LEQ:
			return valueOfTerm(tStrOp("str.<=", SBool, a, b), types.Bool)
		case token.GTR:
			return valueOfTerm(tStrOp("str.<", SBool, b, a), types.Bool)
		case token.GEQ:
			return valueOfTerm(tStrOp("str.<=", SBool, b, a), types.Bool)
		}
	case types.Float64, types.Float32:
		switch op {
		case token.EQL:
			return valueOfTerm(mkApp("fp.eq", SBool, a, b), types.Bool)
		case token.NEQ:
			return valueOfTerm(tNot(mkApp("fp.eq", SBool, a, b)), types.Bool)
		case token.LSS:
			return valueOfTerm(mkApp("fp.lt", SBool, a, b), types.Bool)
		case token.LEQ:
			return valueOfTerm(mkApp("fp.leq", SBool, a, b), types.Bool)
		case token.GTR:
			return valueOfTerm(mkApp("fp.gt", SBool, a, b), types.Bool)
		case token.GEQ:
			return valueOfTerm(mkApp("fp.geq", SBool, a, b), types.Bool)
		}
		ex.unsupported("float arithmetic " + op.String())
	default:
		if !isIntKind(k) {
			break
		}
		ii := intInfos[k]
		switch op {
		case token.ADD:
			return valueOfTerm(wrapSmall(tAdd(a, b), k), k)
		case token.SUB:
			return valueOfTerm(wrapSmall(tSub(a, b), k), k)
		case token.MUL:
			if !a.isConst() && !b.isConst() {
				ex.res.Stubs["nonlinear-mul"]++
			}
			return valueOfTerm(wrapTerm(tMul(a, b), k), k)
		case token.QUO, token.REM:
			// divisor zero => run-time panic (a real path)
			if ex.decideBool(tEq(b, mkInt64(0)), "div-by-zero") {
				panic(runtimeError("integer divide by zero"))
			}
			// truncated division from floor/Euclidean div: use abs values
			absA := tIte(tCmp("<", a, mkInt64(0)), tNeg(a), a)
			absB := tIte(tCmp("<", b, mkInt64(0)), tNeg(b), b)
			q := tDiv(absA, absB)
			r := tMod(absA, absB)
			negQ := tNot(tEq(tCmp("<", a, mkInt64(0)), tCmp("<", b, mkInt64(0))))
			if op == token.QUO {
				return valueOfTerm(wrapTerm(tIte(negQ, tNeg(q), q), k), k)
			}
			return valueOfTerm(tIte(tCmp("<", a, mkInt64(0)), tNeg(r), r), k)
		case token.EQL:
			return valueOfTerm(tEq(a, b), types.Bool)
		case token.NEQ:
			return valueOfTerm(tNot(tEq(a, b)), types.Bool)
		case token.LSS:
			return valueOfTerm(tCmp("<", a, b), types.Bool)
		case token.LEQ:
			return valueOfTerm(tCmp("<=", a, b), types.Bool)
		case token.GTR:
			return valueOfTerm(tCmp(">", a, b), types.Bool)
		case token.GEQ:
			return valueOfTerm(tCmp(">=", a, b), types.Bool)
		case token.SHL:
			if b.isConst() {
				sh := uint(b.n.Uint64())
				if sh >= ii.bits {
					return concreteOf(k, big.NewInt(0))
				}
				return valueOfTerm(wrapTerm(tMul(a, mkInt(new(big.Int).Lsh(big.NewInt(1), sh))), k), k)
			}
		case token.SHR:
			if b.isConst() {
				sh := uint(b.n.Uint64())
				if sh >= ii.bits {
					if ii.signed {
						return valueOfTerm(tIte(tCmp("<", a, mkInt64(0)), mkInt64(-1), mkInt64(0)), k)
					}
					return concreteOf(k, big.NewInt(0))
				}
				return valueOfTerm(tDiv(a, mkInt(new(big.Int).Lsh(big.NewInt(1), sh))), k)
			}
		case token.AND:
			// x & (2^n - 1)
			if m := maskBits(b); m >= 0 && !ii.signed {
				return valueOfTerm(tMod(a, mkInt(new(big.Int).Lsh(big.NewInt(1), uint(m)))), k)
			}
			if m := maskBits(a); m >= 0 && !ii.signed {
				return valueOfTerm(tMod(b, mkInt(new(big.Int).Lsh(big.NewInt(1), uint(m)))), k)
			}
		}
	}
	ex.unsupported(fmt.Sprintf("binary op %s on symbolic %v", op, k))
	return nil
}

// maskBits returns n if t is the constant 2^n-1, else -1.
func maskBits(t *Term) int {
	if !t.isConst() || t.n.Sign() < 0 {
		return -1
	}
	p := new(big.Int).Add(t.n, big.NewInt(1))
	if p.BitLen() > 0 && new(big.Int).And(p, t.n).Sign() == 0 {
		return p.BitLen() - 1
	}
	return -1
}

func (ex *exec) symUnop(op token.Token, x sym) value {
	switch op {
	case token.NOT:
		return valueOfTerm(tNot(x.t), types.Bool)
	case token.SUB:
		if isIntKind(x.k) {
			return valueOfTerm(wrapSmall(tNeg(x.t), x.k), x.k)
		}
	case token.XOR:
		if ii := intInfos[x.k]; ii != nil {
			// ^x = -x-1 (signed), max-x (unsigned)
			if ii.signed {
				return valueOfTerm(tSub(tNeg(x.t), mkInt64(1)), x.k)
			}
			return valueOfTerm(tSub(mkInt(ii.max), x.t), x.k)
		}
	}
	ex.unsupported(fmt.Sprintf("unary op %s on symbolic %v", op, x.k))
	return nil
}

// symConv converts symbolic scalar x to type t_dst.
func (ex *exec) symConv(t_dst, t_src types.Type, x sym) value {
	dk := basicKindOf(t_dst)
	switch {
	case x.k == types.Bool && dk == types.Bool:
		return x
	case x.k == types.String && dk == types.String:
		return x
	case isIntKind(x.k) && isIntKind(dk):
		si, di := intInfos[x.k], intInfos[dk]
		if di.min.Cmp(si.min) <= 0 && di.max.Cmp(si.max) >= 0 {
			return sym{x.t, dk} // widening: value preserved
		}
		return valueOfTerm(wrapTerm(x.t, dk), dk)
	case isIntKind(x.k) && dk == types.String:
		// string(rune): ASCII only
		ex.assumeOrAbort(tAnd(tCmp(">=", x.t, mkInt64(0)), tCmp("<", x.t, mkInt64(128))), "string(int) outside ASCII")
		return sym{mkApp("str.from_code", SStr, x.t), types.String}
	case x.k == types.String:
		// string -> []byte / []rune: need a concrete length
		if sl, ok := t_dst.Underlying().(*types.Slice); ok {
			ek := basicKindOf(sl.Elem())
			n := ex.concretizeLen(x.t, "string->slice")
			out := make([]value, n)
			for i := 0; i < n; i++ {
				out[i] = ex.strByteAt(x.t, int64(i), ek)
			}
			return out
		}
	case isIntKind(x.k) && (dk == types.Float64 || dk == types.Float32):
		ex.unsupported("int->float conversion of symbolic value")
	}
	ex.unsupported(fmt.Sprintf("conversion of symbolic %v to %s", x.k, t_dst))
	return nil
}

// assumeOrAbort: a modelling restriction (not a property of the code): paths
// violating it are outside the claim and recorded as such.
func (ex *exec) assumeOrAbort(c *Term, what string) {
	if c.isConst() {
		if !c.b {
			ex.abort("inconclusive", "outside model: "+what)
		}
		return
	}
	if ex.solver.CheckWith(tNot(c)) != Unsat {
		ex.res.Stubs["restricted:"+what]++
	}
	ex.assume(c)
}

// strByteAt returns byte i of symbolic string s as a value of kind ek.
// The caller guarantees 0 <= i < len(s) on this path.
func (ex *exec) strByteAt(s *Term, i int64, ek types.BasicKind) value {
	if s.isConst() {
		return concreteOf(ek, big.NewInt(int64(s.s[i])))
	}
	if cs, ok := charSeq(s); ok && i < int64(len(cs)) {
		return valueOfTerm(cs[i], ek)
	}
	return valueOfTerm(mkApp("str.to_code", SInt, mkApp("str.at", SStr, s, mkInt64(i))), ek)
}

// concretizeLen forks on the length of string term s (0..MaxStrLen).
func (ex *exec) concretizeLen(s *Term, what string) int {
	l := tStrLen(s)
	if l.isConst() {
		return int(l.n.Int64())
	}
	max := ex.eng.MaxStrLen
	// unwinding assertion: lengths beyond the bound must be infeasible
	if ex.pos >= len(ex.trace) {
		if ex.solver.CheckWith(tCmp(">", l, mkInt64(int64(max)))) != Unsat {
			ex.res.Stubs["strlen-bound-exceeded:"+what]++
			ex.boundExceeded("string length > " + fmt.Sprint(max) + " at " + what)
		}
	}
	ex.assume(tCmp("<=", l, mkInt64(int64(max))))
	return int(ex.concretizeInt(l, 0, int64(max), "strlen:"+what))
}

func (ex *exec) boundExceeded(what string) {
	ex.res.Reason = "bound-exceeded: " + what
	if ex.eng.StrictBounds {
		ex.abort("bound", what)
	}
	ex.eng.noteBound(what)
}

// symEquals: equality of two scalars where at least one is symbolic.
func symEquals(x, y value) value {
	return valueOfTerm(tEq(termOf(x), termOf(y)), types.Bool)
}

type runtimeError string

func (e runtimeError) Error() string { return "runtime error: " + string(e) }
func (e runtimeError) RuntimeError() {}
