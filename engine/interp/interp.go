// Copyright 2013 The Go Authors. All rights reserved.
// Use of this source code is governed by a BSD-style
// license that can be found in the LICENSE file.

// Package interp is a symbolic-execution fork of golang.org/x/tools/go/ssa/interp
// (v0.29.0): scalars may be SMT terms, branches on them fork by re-execution,
// goroutines run under a cooperative scheduler with virtual time.
package interp

import (
	"fmt"
	"go/token"
	"go/types"
	"os"
	"runtime"
	"slices"

	"golang.org/x/tools/go/ssa"
)

type continuation int

const (
	kNext continuation = iota
	kReturn
	kJump
)

// Mode is a bitmask of options affecting the interpreter.
type Mode uint

const (
	DisableRecover Mode = 1 << iota // Disable recover() in target programs; show interpreter crash instead.
	EnableTracing                   // Print a trace of all instructions as they are interpreted.
)

type methodSet map[string]*ssa.Function

// State of one path execution.
type interpreter struct {
	prog               *ssa.Program           // the SSA program
	globals            map[*ssa.Global]*value // addresses of global variables
	mode               Mode                   // interpreter options
	runtimeErrorString types.Type             // the runtime.errorString type
	sizes              types.Sizes            // the effective type-sizing function
	ex                 *exec
	eng                *Engine
	depth              int
	initDone           map[*ssa.Package]bool
	writtenGlobals     map[*ssa.Global]bool
	panicSeen          interface{}
	panicSite          string
}

func mustDeref(t types.Type) types.Type {
	if p, ok := t.Underlying().(*types.Pointer); ok {
		return p.Elem()
	}
	panic(fmt.Sprintf("mustDeref: not a pointer: %s", t))
}

type deferred struct {
	fn    value
	args  []value
	instr *ssa.Defer
	tail  *deferred
}

type frame struct {
	i                *interpreter
	caller           *frame
	fn               *ssa.Function
	block, prevBlock *ssa.BasicBlock
	env              map[ssa.Value]value // dynamic values of SSA variables
	locals           []value
	defers           *deferred
	result           value
	panicking        bool
	panic            interface{}
	phitemps         []value // temporaries for parallel phi assignment
	cur              ssa.Instruction
}

func (fr *frame) get(key ssa.Value) value {
	switch key := key.(type) {
	case nil:
		// Hack; simplifies handling of optional attributes
		// such as ssa.Slice.{Low,High}.
		return nil
	case *ssa.Function, *ssa.Builtin:
		return key
	case *ssa.Const:
		return constValue(key)
	case *ssa.Global:
		return fr.i.global(key)
	}
	if r, ok := fr.env[key]; ok {
		return r
	}
	panic(fmt.Sprintf("get: no value for %T: %v", key, key.Name()))
}

// runDefer runs a deferred call d.
// It always returns normally, but may set or clear fr.panic.
func (fr *frame) runDefer(d *deferred) {
	if fr.i.mode&EnableTracing != 0 {
		fmt.Fprintf(os.Stderr, "%s: invoking deferred function call\n",
			fr.i.prog.Fset.Position(d.instr.Pos()))
	}
	var ok bool
	defer func() {
		if !ok {
			// Deferred call created a new state of panic.
			r := recover()
			if ap, isAbort := r.(abortPath); isAbort {
				panic(ap)
			}
			fr.panicking = true
			fr.panic = r
		}
	}()
	call(fr.i, fr, d.instr.Pos(), d.fn, d.args)
	ok = true
}

// runDefers executes fr's deferred function calls in LIFO order.
//
// On entry, fr.panicking indicates a state of panic; if
// true, fr.panic contains the panic value.
//
// On completion, if a deferred call started a panic, or if no
// deferred call recovered from a previous state of panic, then
// runDefers itself panics after the last deferred call has run.
//
// If there was no initial state of panic, or it was recovered from,
// runDefers returns normally.
func (fr *frame) runDefers() {
	for d := fr.defers; d != nil; d = d.tail {
		fr.runDefer(d)
	}
	fr.defers = nil
	if fr.panicking {
		panic(fr.panic) // new panic, or still panicking
	}
}

func lookupMethod(i *interpreter, typ types.Type, meth *types.Func) *ssa.Function {
	return i.prog.LookupMethod(typ, meth.Pkg(), meth.Name())
}

// visitInstr interprets a single ssa.Instruction within the activation
// record frame.  It returns a continuation value indicating where to
// read the next instruction from.
func visitInstr(fr *frame, instr ssa.Instruction) continuation {
	ex := fr.i.ex
	ex.instrs++
	if ex.eng.MaxInstrs > 0 && ex.instrs > ex.eng.MaxInstrs {
		ex.abort("bound", "instruction budget exceeded (possible non-termination)")
	}
	switch instr := instr.(type) {
	case *ssa.DebugRef:
		// no-op

	case *ssa.UnOp:
		if g, ok := instr.X.(*ssa.Global); ok && instr.Op == token.MUL {
			fr.i.checkGlobalRead(g)
		}
		fr.env[instr] = fr.unop(instr, fr.get(instr.X))

	case *ssa.BinOp:
		fr.env[instr] = ex.binop(instr.Op, instr.X.Type(), fr.get(instr.X), fr.get(instr.Y))

	case *ssa.Call:
		fn, args := prepareCall(fr, &instr.Call)
		fr.env[instr] = call(fr.i, fr, instr.Pos(), fn, args)

	case *ssa.ChangeInterface:
		fr.env[instr] = fr.get(instr.X)

	case *ssa.ChangeType:
		fr.env[instr] = fr.get(instr.X) // (can't fail)

	case *ssa.Convert:
		fr.env[instr] = ex.conv(instr.Type(), instr.X.Type(), fr.get(instr.X))

	case *ssa.SliceToArrayPointer:
		fr.env[instr] = sliceToArrayPointer(instr.Type(), instr.X.Type(), fr.get(instr.X))

	case *ssa.MakeInterface:
		fr.env[instr] = iface{t: instr.X.Type(), v: fr.get(instr.X)}

	case *ssa.Extract:
		fr.env[instr] = fr.get(instr.Tuple).(tuple)[instr.Index]

	case *ssa.Slice:
		fr.env[instr] = ex.slice(fr.get(instr.X), fr.get(instr.Low), fr.get(instr.High), fr.get(instr.Max))

	case *ssa.Return:
		switch len(instr.Results) {
		case 0:
		case 1:
			fr.result = fr.get(instr.Results[0])
		default:
			var res []value
			for _, r := range instr.Results {
				res = append(res, fr.get(r))
			}
			fr.result = tuple(res)
		}
		fr.block = nil
		return kReturn

	case *ssa.RunDefers:
		fr.runDefers()

	case *ssa.Panic:
		panic(targetPanic{fr.get(instr.X)})

	case *ssa.Send:
		ex.sched.chanSend(fr.get(instr.Chan).(*channel), fr.get(instr.X))

	case *ssa.Store:
		if g, ok := instr.Addr.(*ssa.Global); ok {
			fr.i.writtenGlobals[g] = true
		}
		addr := fr.get(instr.Addr).(*value)
		if addr == nil {
			panic(runtimeError("invalid memory address or nil pointer dereference"))
		}
		store(mustDeref(instr.Addr.Type()), addr, fr.get(instr.Val))

	case *ssa.If:
		succ := 1
		switch c := fr.get(instr.Cond).(type) {
		case bool:
			if c {
				succ = 0
			}
		case sym:
			if ex.decideBool(c.t, "if") {
				succ = 0
			}
		}
		fr.prevBlock, fr.block = fr.block, fr.block.Succs[succ]
		return kJump

	case *ssa.Jump:
		fr.prevBlock, fr.block = fr.block, fr.block.Succs[0]
		return kJump

	case *ssa.Defer:
		fn, args := prepareCall(fr, &instr.Call)
		defers := &fr.defers
		if into := fr.get(instr.DeferStack); into != nil {
			defers = into.(**deferred)
		}
		*defers = &deferred{
			fn:    fn,
			args:  args,
			instr: instr,
			tail:  *defers,
		}

	case *ssa.Go:
		fn, args := prepareCall(fr, &instr.Call)
		i := fr.i
		pos := instr.Pos()
		name := fmt.Sprintf("g%d@%s", len(ex.sched.gs), shortPos(i.prog.Fset, pos))
		ex.sched.spawn(name, func() {
			call(i, nil, pos, fn, args)
		})

	case *ssa.MakeChan:
		elem := instr.Type().Underlying().(*types.Chan).Elem()
		ex.nchan++
		fr.env[instr] = &channel{id: ex.nchan, cap: int(asInt64(fr.get(instr.Size))), zero: func() value { return zero(elem) }}

	case *ssa.Alloc:
		var addr *value
		if instr.Heap {
			// new
			addr = new(value)
			fr.env[instr] = addr
		} else {
			// local
			addr = fr.env[instr].(*value)
		}
		*addr = zero(mustDeref(instr.Type()))

	case *ssa.MakeSlice:
		capv := ex.concreteInt(fr.get(instr.Cap), "make([]T) cap")
		lenv := ex.concreteInt(fr.get(instr.Len), "make([]T) len")
		if lenv < 0 || capv < lenv {
			panic(runtimeError("makeslice: len out of range"))
		}
		slice := make([]value, capv)
		tElt := instr.Type().Underlying().(*types.Slice).Elem()
		for i := range slice {
			slice[i] = zero(tElt)
		}
		fr.env[instr] = slice[:lenv]

	case *ssa.MakeMap:
		fr.env[instr] = makeMap(instr.Type().Underlying().(*types.Map).Key(), 0)

	case *ssa.Range:
		fr.env[instr] = ex.rangeIter(fr.get(instr.X), instr.X.Type())

	case *ssa.Next:
		fr.env[instr] = fr.get(instr.Iter).(iter).next()

	case *ssa.FieldAddr:
		if g, ok := instr.X.(*ssa.Global); ok {
			fr.i.checkGlobalRead(g)
		}
		p := fr.get(instr.X).(*value)
		if p == nil {
			panic(runtimeError("invalid memory address or nil pointer dereference"))
		}
		fr.env[instr] = &(*p).(structure)[instr.Field]

	case *ssa.Field:
		fr.env[instr] = fr.get(instr.X).(structure)[instr.Field]

	case *ssa.IndexAddr:
		if g, ok := instr.X.(*ssa.Global); ok {
			fr.i.checkGlobalRead(g)
		}
		x := fr.get(instr.X)
		idx := fr.get(instr.Index)
		switch x := x.(type) {
		case []value:
			fr.env[instr] = &x[ex.indexIn(idx, len(x))]
		case *value: // *array
			if x == nil {
				panic(runtimeError("invalid memory address or nil pointer dereference"))
			}
			a := (*x).(array)
			fr.env[instr] = &a[ex.indexIn(idx, len(a))]
		default:
			panic(fmt.Sprintf("unexpected x type in IndexAddr: %T", x))
		}

	case *ssa.Index:
		x := fr.get(instr.X)
		idx := fr.get(instr.Index)

		switch x := x.(type) {
		case array:
			fr.env[instr] = x[ex.indexIn(idx, len(x))]
		case string:
			if si, ok := idx.(sym); ok {
				fr.env[instr] = ex.symStringIndex(mkStr(x), si.t)
			} else {
				fr.env[instr] = x[asInt64(idx)]
			}
		case sym:
			fr.env[instr] = ex.symStringIndex(x.t, termOf(idx))
		default:
			panic(fmt.Sprintf("unexpected x type in Index: %T", x))
		}

	case *ssa.Lookup:
		fr.env[instr] = ex.lookup(instr, fr.get(instr.X), fr.get(instr.Index))

	case *ssa.MapUpdate:
		m := fr.get(instr.Map)
		key := fr.get(instr.Key)
		v := fr.get(instr.Value)
		switch m := m.(type) {
		case *omap:
			m.insert(ex, key, v)
		default:
			panic(fmt.Sprintf("illegal map type: %T", m))
		}

	case *ssa.TypeAssert:
		fr.env[instr] = typeAssert(fr.i, instr, fr.get(instr.X).(iface))

	case *ssa.MakeClosure:
		var bindings []value
		for _, binding := range instr.Bindings {
			bindings = append(bindings, fr.get(binding))
		}
		fr.env[instr] = &closure{instr.Fn.(*ssa.Function), bindings}

	case *ssa.Phi:
		panic("unreachable") // phis are processed at block entry

	case *ssa.Select:
		var cases []selCase
		for _, state := range instr.States {
			c := selCase{isSend: state.Dir == types.SendOnly}
			if ch, ok := fr.get(state.Chan).(*channel); ok {
				c.ch = ch
			}
			if state.Send != nil {
				c.val = fr.get(state.Send)
			}
			cases = append(cases, c)
		}
		chosen, recv, recvOk := ex.sched.doSelect(cases, instr.Blocking)
		r := tuple{chosen, recvOk}
		for i, st := range instr.States {
			if st.Dir == types.RecvOnly {
				var v value
				if i == chosen && recvOk {
					v = recv
				} else {
					v = zero(st.Chan.Type().Underlying().(*types.Chan).Elem())
				}
				r = append(r, v)
			}
		}
		fr.env[instr] = r

	default:
		panic(fmt.Sprintf("unexpected instruction: %T", instr))
	}

	return kNext
}

func shortPos(fset *token.FileSet, pos token.Pos) string {
	if pos == token.NoPos {
		return "?"
	}
	p := fset.Position(pos)
	f := p.Filename
	if i := lastSlash(f); i >= 0 {
		f = f[i+1:]
	}
	return fmt.Sprintf("%s:%d", f, p.Line)
}

func lastSlash(s string) int {
	for i := len(s) - 1; i >= 0; i-- {
		if s[i] == '/' {
			return i
		}
	}
	return -1
}

// prepareCall determines the function value and argument values for a
// function call in a Call, Go or Defer instruction, performing
// interface method lookup if needed.
func prepareCall(fr *frame, call *ssa.CallCommon) (fn value, args []value) {
	v := fr.get(call.Value)
	if call.Method == nil {
		// Function call.
		fn = v
	} else {
		// Interface method invocation.
		recv := v.(iface)
		if recv.t == nil {
			panic(runtimeError("invalid memory address or nil pointer dereference (method call on nil interface)"))
		}
		if f := lookupMethod(fr.i, recv.t, call.Method); f == nil {
			// Unreachable in well-typed programs.
			panic(fmt.Sprintf("method set for dynamic type %v does not contain %s", recv.t, call.Method))
		} else {
			fn = f
		}
		args = append(args, recv.v)
	}
	for _, arg := range call.Args {
		args = append(args, fr.get(arg))
	}
	return
}

// call interprets a call to a function (function, builtin or closure)
// fn with arguments args, returning its result.
// callpos is the position of the callsite.
func call(i *interpreter, caller *frame, callpos token.Pos, fn value, args []value) value {
	switch fn := fn.(type) {
	case *ssa.Function:
		if fn == nil {
			panic(runtimeError("invalid memory address or nil pointer dereference (call of nil func)"))
		}
		return callSSA(i, caller, callpos, fn, args, nil)
	case *closure:
		return callSSA(i, caller, callpos, fn.Fn, args, fn.Env)
	case *ssa.Builtin:
		return callBuiltin(caller, callpos, fn, args)
	}
	panic(fmt.Sprintf("cannot call %T", fn))
}

func loc(fset *token.FileSet, pos token.Pos) string {
	if pos == token.NoPos {
		return ""
	}
	return " at " + fset.Position(pos).String()
}

// callSSA interprets a call to function fn with arguments args,
// and lexical environment env, returning its result.
// callpos is the position of the callsite.
func callSSA(i *interpreter, caller *frame, callpos token.Pos, fn *ssa.Function, args []value, env []value) value {
	ex := i.ex
	if i.mode&EnableTracing != 0 {
		fmt.Fprintf(os.Stderr, "%*sEntering %s\n", i.depth, "", fn)
	}
	fr := &frame{
		i:      i,
		caller: caller, // for panic/recover
		fn:     fn,
	}
	if fn.Parent() == nil {
		name := fn.String()
		if ext := i.eng.lookupExternal(fn, name); ext != nil {
			ex.res.Stubs[name]++
			return ext(fr, args)
		}
		if fn.Blocks == nil {
			if fn.Synthetic != "" && fn.Pkg != nil {
				fn.Pkg.Build()
			}
			if fn.Blocks == nil {
				ex.unsupported("call of function without body: " + name)
			}
		}
		if !i.eng.interpretable(fn) {
			ex.unsupported("call into non-modelled package: " + name)
		}
	}

	if fn.Name() == "init" && fn.Synthetic == "package initializer" && fn.Pkg != nil {
		if !i.shouldInit(fn.Pkg) {
			i.initDone[fn.Pkg] = true
			return nil
		}
		if initOverrides[fn.Pkg.Pkg.Path()] != nil {
			i.runInit(fn.Pkg)
			return nil
		}
		i.initDone[fn.Pkg] = true
	}

	// generic function body?
	if fn.TypeParams().Len() > 0 && len(fn.TypeArgs()) == 0 {
		panic("interp requires ssa.BuilderMode to include InstantiateGenerics to execute generics")
	}
	i.depth++
	if i.depth > i.eng.MaxDepth {
		// the harness inputs are small and bounded: when the SAME function is nested dozens of
		// times on one goroutine's stack the recursion does not follow the input - natively it
		// ends in "fatal error: stack overflow", which no recover() catches and which kills the
		// process. Reported as a crash (replayed natively like every other counterexample).
		cnt := map[*ssa.Function]int{}
		n := 0
		var top *ssa.Function
		for f := caller; f != nil; f = f.caller {
			n++
			cnt[f.fn]++
			if top == nil || cnt[f.fn] > cnt[top] {
				top = f.fn
			}
		}
		if top != nil && cnt[top] >= 40 {
			ex.abort("panic", fmt.Sprintf("fatal error: stack overflow (unbounded recursion: %s is nested %d times in a call stack of %d frames)", top.String(), cnt[top], n))
		}
		ex.abort("bound", "call depth bound exceeded (possible unbounded recursion) in "+fn.String())
	}
	defer func() { i.depth-- }()
	ex.res.Funcs[fn.String()]++
	i.ensureInit(fn)

	fr.env = make(map[ssa.Value]value)
	fr.block = fn.Blocks[0]
	fr.locals = make([]value, len(fn.Locals))
	for i, l := range fn.Locals {
		fr.locals[i] = zero(mustDeref(l.Type()))
		fr.env[l] = &fr.locals[i]
	}
	for i, p := range fn.Params {
		fr.env[p] = args[i]
	}
	for i, fv := range fn.FreeVars {
		fr.env[fv] = env[i]
	}
	for fr.block != nil {
		runFrame(fr)
	}
	// Destroy the locals to avoid accidental use after return.
	for i := range fn.Locals {
		fr.locals[i] = bad{}
	}
	return fr.result
}

// classifyPanic decides what a recovered host panic means.
// Target-visible panics: targetPanic, runtimeError. abortPath passes through.
// Anything else is an engine defect and ends the path as inconclusive.
func classifyPanic(fr *frame, r interface{}) interface{} {
	switch r := r.(type) {
	case abortPath:
		panic(r)
	case targetPanic, runtimeError:
		return r
	case runtime.Error:
		buf := make([]byte, 4096)
		buf = buf[:runtime.Stack(buf, false)]
		panic(abortPath{"inconclusive", "engine error in " + fr.fn.String() + ": " + r.Error() + "\n" + string(buf)})
	default:
		buf := make([]byte, 4096)
		buf = buf[:runtime.Stack(buf, false)]
		panic(abortPath{"inconclusive", fmt.Sprintf("engine error in %s: %v\n%s", fr.fn, r, buf)})
	}
}

// runFrame executes SSA instructions starting at fr.block and
// continuing until a return, a panic, or a recovered panic.
func runFrame(fr *frame) {
	defer func() {
		if fr.block == nil {
			return // normal return
		}
		r := recover()
		r = classifyPanic(fr, r)
		fr.i.notePanicSite(fr, r)
		fr.panicking = true
		fr.panic = r
		if fr.i.mode&EnableTracing != 0 {
			fmt.Fprintf(os.Stderr, "Panicking: %T %v.\n", fr.panic, fr.panic)
		}
		fr.runDefers()
		fr.block = fr.fn.Recover
	}()

	for {
		nonPhis := executePhis(fr)
		for _, instr := range nonPhis {
			if fr.i.mode&EnableTracing != 0 {
				if v, ok := instr.(ssa.Value); ok {
					fmt.Fprintln(os.Stderr, "\t", v.Name(), "=", instr)
				} else {
					fmt.Fprintln(os.Stderr, "\t", instr)
				}
			}
			fr.cur = instr
			if visitInstr(fr, instr) == kReturn {
				return
			}
			// Inv: kNext (continue) or kJump (last instr)
		}
	}
}

// executePhis executes the phi-nodes at the start of the current
// block and returns the non-phi instructions.
func executePhis(fr *frame) []ssa.Instruction {
	firstNonPhi := -1
	for i, instr := range fr.block.Instrs {
		if _, ok := instr.(*ssa.Phi); !ok {
			firstNonPhi = i
			break
		}
	}
	// Inv: 0 <= firstNonPhi; every block contains a non-phi.

	nonPhis := fr.block.Instrs[firstNonPhi:]
	if firstNonPhi > 0 {
		phis := fr.block.Instrs[:firstNonPhi]
		predIndex := slices.Index(fr.block.Preds, fr.prevBlock)
		fr.phitemps = fr.phitemps[:0]
		for _, phi := range phis {
			phi := phi.(*ssa.Phi)
			fr.phitemps = append(fr.phitemps, fr.get(phi.Edges[predIndex]))
		}
		for i, phi := range phis {
			fr.env[phi.(*ssa.Phi)] = fr.phitemps[i]
		}
	}
	return nonPhis
}

// doRecover implements the recover() built-in.
func doRecover(caller *frame) value {
	// recover() must be exactly one level beneath the deferred
	// function (two levels beneath the panicking function) to
	// have any effect.  Thus we ignore both "defer recover()" and
	// "defer f() -> g() -> recover()".
	if caller != nil && !caller.panicking &&
		caller.caller != nil && caller.caller.panicking {
		caller.caller.panicking = false
		p := caller.caller.panic
		caller.caller.panic = nil

		switch p := p.(type) {
		case targetPanic:
			// The target program explicitly called panic().
			return p.v
		case runtimeError:
			return iface{caller.i.runtimeErrorString, p.Error()}
		default:
			panic(fmt.Sprintf("unexpected panic type %T in target call to recover()", p))
		}
	}
	return iface{}
}

// notePanicSite remembers where a panic was first seen (innermost frame) and
// the chain of callers, for reporting.
func (i *interpreter) notePanicSite(fr *frame, r interface{}) {
	if i.panicSeen == r {
		return
	}
	switch r.(type) {
	case runtimeError, targetPanic:
	default:
		return
	}
	i.panicSeen = r
	var sb []byte
	n := 0
	for f := fr; f != nil && n < 8; f = f.caller {
		pos := "?"
		if f.cur != nil {
			pos = shortPos(i.prog.Fset, f.cur.Pos())
		}
		if n > 0 {
			sb = append(sb, " <- "...)
		}
		sb = append(sb, (f.fn.String() + "@" + pos)...)
		n++
	}
	i.panicSite = string(sb)
}
