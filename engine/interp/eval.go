package interp

// Concrete evaluation of terms under a model (used to render observed values
// without asking the solver again).

import (
	"fmt"
	"math/big"
	"regexp"
	"strings"
)

type evalEnv map[string]ModelVal

type evalErr struct{ msg string }

func evalTerm(t *Term, env evalEnv) (mv ModelVal, err error) {
	defer func() {
		if r := recover(); r != nil {
			if e, ok := r.(evalErr); ok {
				err = fmt.Errorf("%s", e.msg)
				return
			}
			panic(r)
		}
	}()
	return ev(t, env), nil
}

func evInt(t *Term, env evalEnv) *big.Int { return ev(t, env).N }
func evStr(t *Term, env evalEnv) string   { return ev(t, env).S }
func evBool(t *Term, env evalEnv) bool    { return ev(t, env).B }
func mvInt(n *big.Int) ModelVal           { return ModelVal{Sort: SInt, N: n} }
func mvStr(s string) ModelVal             { return ModelVal{Sort: SStr, S: s} }
func mvBool(b bool) ModelVal              { return ModelVal{Sort: SBool, B: b} }

func ev(t *Term, env evalEnv) ModelVal {
	switch t.op {
	case "const":
		switch t.sort {
		case SBool:
			return mvBool(t.b)
		case SInt:
			return mvInt(t.n)
		case SStr:
			return mvStr(t.s)
		}
		panic(evalErr{"const of sort " + t.sort.String()})
	case "var":
		v, ok := env[t.name]
		if !ok || (v.Sort == SInt && v.N == nil) {
			panic(evalErr{"no model value for " + t.name})
		}
		return v
	case "not":
		return mvBool(!evBool(t.args[0], env))
	case "and":
		for _, a := range t.args {
			if !evBool(a, env) {
				return mvBool(false)
			}
		}
		return mvBool(true)
	case "or":
		for _, a := range t.args {
			if evBool(a, env) {
				return mvBool(true)
			}
		}
		return mvBool(false)
	case "ite":
		if evBool(t.args[0], env) {
			return ev(t.args[1], env)
		}
		return ev(t.args[2], env)
	case "=":
		a, b := ev(t.args[0], env), ev(t.args[1], env)
		switch a.Sort {
		case SBool:
			return mvBool(a.B == b.B)
		case SInt:
			return mvBool(a.N.Cmp(b.N) == 0)
		case SStr:
			return mvBool(a.S == b.S)
		}
	case "+":
		s := new(big.Int)
		for _, a := range t.args {
			s.Add(s, evInt(a, env))
		}
		return mvInt(s)
	case "-":
		if len(t.args) == 1 {
			return mvInt(new(big.Int).Neg(evInt(t.args[0], env)))
		}
		s := new(big.Int).Set(evInt(t.args[0], env))
		for _, a := range t.args[1:] {
			s.Sub(s, evInt(a, env))
		}
		return mvInt(s)
	case "*":
		s := big.NewInt(1)
		for _, a := range t.args {
			s.Mul(s, evInt(a, env))
		}
		return mvInt(s)
	case "div", "mod":
		a, b := evInt(t.args[0], env), evInt(t.args[1], env)
		if b.Sign() == 0 {
			panic(evalErr{"division by zero in model evaluation"})
		}
		q, m := new(big.Int).DivMod(a, b, new(big.Int))
		if t.op == "div" {
			return mvInt(q)
		}
		return mvInt(m)
	case "<", "<=", ">", ">=":
		c := evInt(t.args[0], env).Cmp(evInt(t.args[1], env))
		switch t.op {
		case "<":
			return mvBool(c < 0)
		case "<=":
			return mvBool(c <= 0)
		case ">":
			return mvBool(c > 0)
		}
		return mvBool(c >= 0)
	case "str.++":
		var sb strings.Builder
		for _, a := range t.args {
			sb.WriteString(evStr(a, env))
		}
		return mvStr(sb.String())
	case "str.len":
		return mvInt(big.NewInt(int64(len(evStr(t.args[0], env)))))
	case "str.at":
		s := evStr(t.args[0], env)
		i := evInt(t.args[1], env)
		if !i.IsInt64() || i.Int64() < 0 || i.Int64() >= int64(len(s)) {
			return mvStr("")
		}
		return mvStr(s[i.Int64() : i.Int64()+1])
	case "str.substr":
		s := evStr(t.args[0], env)
		o, n := evInt(t.args[1], env), evInt(t.args[2], env)
		if !o.IsInt64() || !n.IsInt64() || o.Int64() < 0 || o.Int64() >= int64(len(s)) || n.Int64() <= 0 {
			return mvStr("")
		}
		end := o.Int64() + n.Int64()
		if end > int64(len(s)) {
			end = int64(len(s))
		}
		return mvStr(s[o.Int64():end])
	case "str.from_code":
		c := evInt(t.args[0], env)
		if !c.IsInt64() || c.Int64() < 0 || c.Int64() > 255 {
			return mvStr("")
		}
		return mvStr(string([]byte{byte(c.Int64())}))
	case "str.to_code":
		s := evStr(t.args[0], env)
		if len(s) != 1 {
			return mvInt(big.NewInt(-1))
		}
		return mvInt(big.NewInt(int64(s[0])))
	case "str.prefixof":
		return mvBool(strings.HasPrefix(evStr(t.args[1], env), evStr(t.args[0], env)))
	case "str.suffixof":
		return mvBool(strings.HasSuffix(evStr(t.args[1], env), evStr(t.args[0], env)))
	case "str.contains":
		return mvBool(strings.Contains(evStr(t.args[0], env), evStr(t.args[1], env)))
	case "str.indexof":
		s, sub := evStr(t.args[0], env), evStr(t.args[1], env)
		from := evInt(t.args[2], env)
		if !from.IsInt64() || from.Int64() < 0 || from.Int64() > int64(len(s)) {
			return mvInt(big.NewInt(-1))
		}
		k := strings.Index(s[from.Int64():], sub)
		if k < 0 {
			return mvInt(big.NewInt(-1))
		}
		return mvInt(big.NewInt(int64(k) + from.Int64()))
	case "str.in_re":
		if t.re != "" {
			ok, err := regexp.MatchString(t.re, evStr(t.args[0], env))
			if err == nil {
				return mvBool(ok)
			}
		}
	case "str.<":
		return mvBool(evStr(t.args[0], env) < evStr(t.args[1], env))
	case "str.<=":
		return mvBool(evStr(t.args[0], env) <= evStr(t.args[1], env))
	case "str.from_int":
		n := evInt(t.args[0], env)
		if n.Sign() < 0 {
			return mvStr("")
		}
		return mvStr(n.String())
	case "str.to_int":
		s := evStr(t.args[0], env)
		n, ok := new(big.Int).SetString(s, 10)
		if !ok || s == "" || strings.ContainsAny(s, "+-") {
			return mvInt(big.NewInt(-1))
		}
		return mvInt(n)
	}
	panic(evalErr{"unsupported op in model evaluation: " + t.op})
}
