package interp

// regexp with a symbolic subject: the CONCRETE pattern is parsed by Go's own
// regexp/syntax and translated to an SMT RegLan term; MatchString (an
// unanchored search) becomes (str.in_re subject (re.++ re.all R re.all)) with
// the re.all parts dropped where the pattern is anchored with ^ / $ at its
// outermost level. Anything the translation does not cover (word boundaries,
// anchors in the middle, non-greedy is irrelevant for matching, case folding of
// non-letters) ends the path as unsupported - never a silent approximation.
//
// Assumption shared with every symbolic string (DESIGN 2.3): subjects are
// printable ASCII, so "any character" = re.allchar and classes are cut at 0x7f.

import (
	"fmt"
	"regexp"
	"regexp/syntax"
	"strings"
	"unicode"
)

type reUnsupported struct{ msg string }

func smtCharLit(r rune) string {
	if (r >= 'a' && r <= 'z') || (r >= 'A' && r <= 'Z') || (r >= '0' && r <= '9') {
		return "\"" + string(r) + "\""
	}
	return fmt.Sprintf("\"\\u{%x}\"", r)
}

func reLit(s string) *Term { return mkApp("str.to_re", SRe, mkStr(s)) }

func reRaw(s string) *Term { return &Term{op: "rawre", sort: SRe, s: s, key: "R" + s} }

func reConcat(parts []*Term) *Term {
	switch len(parts) {
	case 0:
		return reLit("")
	case 1:
		return parts[0]
	}
	return mkApp("re.++", SRe, parts...)
}

func reUnion(parts []*Term) *Term {
	switch len(parts) {
	case 0:
		return reRaw("re.none")
	case 1:
		return parts[0]
	}
	return mkApp("re.union", SRe, parts...)
}

func reOfSyntax(re *syntax.Regexp) *Term {
	switch re.Op {
	case syntax.OpNoMatch:
		return reRaw("re.none")
	case syntax.OpEmptyMatch:
		return reLit("")
	case syntax.OpLiteral:
		if re.Flags&syntax.FoldCase != 0 {
			var parts []*Term
			for _, r := range re.Rune {
				lo, up := strings.ToLower(string(r)), strings.ToUpper(string(r))
				if lo == up {
					parts = append(parts, reLit(string(r)))
				} else {
					parts = append(parts, mkApp("re.union", SRe, reLit(lo), reLit(up)))
				}
			}
			return reConcat(parts)
		}
		return reLit(string(re.Rune))
	case syntax.OpCharClass:
		var parts []*Term
		for i := 0; i+1 < len(re.Rune); i += 2 {
			lo, hi := re.Rune[i], re.Rune[i+1]
			if lo > 0x7f {
				continue
			}
			if hi > 0x7f {
				hi = 0x7f
			}
			if lo == hi {
				parts = append(parts, reRaw("(str.to_re "+smtCharLit(lo)+")"))
			} else {
				parts = append(parts, reRaw("(re.range "+smtCharLit(lo)+" "+smtCharLit(hi)+")"))
			}
		}
		return reUnion(parts)
	case syntax.OpAnyChar:
		return reRaw("re.allchar")
	case syntax.OpAnyCharNotNL:
		return reRaw("(re.diff re.allchar (str.to_re \"\\u{a}\"))")
	case syntax.OpCapture:
		return reOfSyntax(re.Sub[0])
	case syntax.OpStar:
		return mkApp("re.*", SRe, reOfSyntax(re.Sub[0]))
	case syntax.OpPlus:
		return mkApp("re.+", SRe, reOfSyntax(re.Sub[0]))
	case syntax.OpQuest:
		return mkApp("re.opt", SRe, reOfSyntax(re.Sub[0]))
	case syntax.OpRepeat:
		sub := reOfSyntax(re.Sub[0])
		if re.Max < 0 {
			parts := []*Term{}
			if re.Min > 0 {
				parts = append(parts, mkApp(fmt.Sprintf("(_ re.loop %d %d)", re.Min, re.Min), SRe, sub))
			}
			parts = append(parts, mkApp("re.*", SRe, sub))
			return reConcat(parts)
		}
		return mkApp(fmt.Sprintf("(_ re.loop %d %d)", re.Min, re.Max), SRe, sub)
	case syntax.OpConcat:
		var parts []*Term
		for _, s := range re.Sub {
			parts = append(parts, reOfSyntax(s))
		}
		return reConcat(parts)
	case syntax.OpAlternate:
		var parts []*Term
		for _, s := range re.Sub {
			parts = append(parts, reOfSyntax(s))
		}
		return reUnion(parts)
	}
	panic(reUnsupported{"regexp operator " + re.Op.String() + " with a symbolic subject"})
}

// reSearchTerm returns the RegLan of the set of strings in which pattern is
// found by an unanchored search (regexp.MatchString semantics).
func reSearchTerm(pattern string) (t *Term, err error) {
	defer func() {
		if r := recover(); r != nil {
			if u, ok := r.(reUnsupported); ok {
				err = fmt.Errorf("%s", u.msg)
				return
			}
			panic(r)
		}
	}()
	re, perr := syntax.Parse(pattern, syntax.Perl)
	if perr != nil {
		return nil, perr
	}
	// split alternations at the top level so that each alternative may carry its own anchors
	alts := []*syntax.Regexp{re}
	for re.Op == syntax.OpCapture {
		re = re.Sub[0]
		alts = []*syntax.Regexp{re}
	}
	if re.Op == syntax.OpAlternate {
		alts = re.Sub
	}
	var out []*Term
	for _, a := range alts {
		subs := []*syntax.Regexp{a}
		if a.Op == syntax.OpConcat {
			subs = a.Sub
		}
		begin, end := false, false
		for len(subs) > 0 && subs[0].Op == syntax.OpBeginText {
			begin = true
			subs = subs[1:]
		}
		for len(subs) > 0 && subs[len(subs)-1].Op == syntax.OpEndText {
			end = true
			subs = subs[:len(subs)-1]
		}
		var parts []*Term
		if !begin {
			parts = append(parts, reRaw("re.all"))
		}
		for _, s := range subs {
			parts = append(parts, reOfSyntax(s))
		}
		if !end {
			parts = append(parts, reRaw("re.all"))
		}
		out = append(out, reConcat(parts))
	}
	return reUnion(out), nil
}

// reMatchValue is the model of regexp.MatchString / (*Regexp).MatchString for
// a concrete pattern and a symbolic subject.
func (ex *exec) reMatchValue(pattern string, subject value) value {
	if _, err := regexp.Compile(pattern); err != nil {
		ex.unsupported("regexp: pattern does not compile: " + err.Error())
	}
	if cs, ok := charSeq(termOf(subject)); ok {
		// subject of known length: simulate the compiled program, no string theory needed
		mt, err := reMatchSeq(pattern, cs)
		if err != nil {
			ex.unsupported("regexp.MatchString on symbolic subject: " + err.Error())
		}
		ex.res.Stubs["regexp.MatchString(symbolic character sequence)->program simulation"]++
		return boolV(mt)
	}
	rt, err := reSearchTerm(pattern)
	if err != nil {
		ex.unsupported("regexp.MatchString on symbolic subject: " + err.Error())
	}
	ex.res.Stubs["regexp.MatchString(symbolic subject)->RegLan"]++
	t := mkApp("str.in_re", SBool, termOf(subject), rt)
	t.re = pattern
	return boolV(t)
}

// ---------------------------------------------------------------- concretisation fallback

// concretize is the bug-hunting fallback for a call the engine has no symbolic
// model for: every symbolic scalar among the operands is fixed to its value in a
// model of the current path condition. The equality is added to the path
// condition, so the path stays feasible and whatever is found further down is a
// real behaviour of the code; other values of those operands are NOT explored on
// this path. Every use is counted ("concretized: <callee>") and shows up in the
// evidence as reduced coverage, never as a discharged obligation for all values.
func (ex *exec) concretize(v value, what string) value {
	switch v := v.(type) {
	case sym:
		r, env := ex.fullModel()
		if r != Sat {
			ex.unsupported(what + " (no model to concretise operands)")
		}
		mv, err := evalTerm(v.t, env)
		if err != nil {
			ex.unsupported(what + " (operand not evaluable: " + err.Error() + ")")
		}
		var c *Term
		switch mv.Sort {
		case SBool:
			c = mkBool(mv.B)
		case SInt:
			c = mkInt(mv.N)
		case SStr:
			c = mkStr(mv.S)
		default:
			ex.unsupported(what + " (operand sort)")
		}
		ex.assume(tEq(v.t, c))
		ex.eng.noteBound("concretized operand of " + what + " (other values of that operand not explored on the path)")
		return valueOfTerm(c, v.k)
	case []value:
		out := make([]value, len(v))
		for i, x := range v {
			out[i] = ex.concretize(x, what)
		}
		return out
	case iface:
		if containsSym(v.v) {
			return iface{t: v.t, v: ex.concretize(v.v, what)}
		}
	}
	return v
}

func (ex *exec) concretizeArgs(args []value, what string) []value {
	out := make([]value, len(args))
	for i, a := range args {
		out[i] = ex.concretize(a, what)
	}
	return out
}

// ---------------------------------------------------------------- regexp over character sequences

// reMatchSeq decides regexp.MatchString(pattern, s) for a subject that is a
// sequence of KNOWN length whose characters are integer code terms: Go's own
// compiled program (regexp/syntax.Prog) is simulated Pike-style with a boolean
// term per (program counter, position). The result is a plain Bool term over
// integer comparisons - no string theory - which the solver decides quickly.
func reMatchSeq(pattern string, cs []*Term) (t *Term, err error) {
	defer func() {
		if r := recover(); r != nil {
			if u, ok := r.(reUnsupported); ok {
				err = fmt.Errorf("%s", u.msg)
				return
			}
			panic(r)
		}
	}()
	re, perr := syntax.Parse(pattern, syntax.Perl)
	if perr != nil {
		return nil, perr
	}
	prog, cerr := syntax.Compile(re.Simplify())
	if cerr != nil {
		return nil, cerr
	}
	n := len(cs)
	isNL := func(i int) *Term { return tEq(cs[i], mkInt64('\n')) }
	// condition under which the empty-width assertion op holds at position i
	emptyOK := func(op syntax.EmptyOp, i int) *Term {
		c := tTrue
		if op&syntax.EmptyBeginText != 0 && i != 0 {
			return tFalse
		}
		if op&syntax.EmptyEndText != 0 && i != n {
			return tFalse
		}
		if op&syntax.EmptyBeginLine != 0 && i != 0 {
			c = tAnd(c, isNL(i-1))
		}
		if op&syntax.EmptyEndLine != 0 && i != n {
			c = tAnd(c, isNL(i))
		}
		if op&(syntax.EmptyWordBoundary|syntax.EmptyNoWordBoundary) != 0 {
			panic(reUnsupported{"regexp word boundary with a symbolic subject"})
		}
		return c
	}
	matchRune := func(in *syntax.Inst, x *Term) *Term {
		switch in.Op {
		case syntax.InstRuneAny:
			return tTrue
		case syntax.InstRuneAnyNotNL:
			return tNot(tEq(x, mkInt64('\n')))
		}
		runes := in.Rune
		if len(runes) == 1 {
			r0 := runes[0]
			alts := []*Term{tEq(x, mkInt64(int64(r0)))}
			if syntax.Flags(in.Arg)&syntax.FoldCase != 0 {
				for r1 := unicode.SimpleFold(r0); r1 != r0; r1 = unicode.SimpleFold(r1) {
					alts = append(alts, tEq(x, mkInt64(int64(r1))))
				}
			}
			return tOr(alts...)
		}
		var alts []*Term
		for j := 0; j+1 < len(runes); j += 2 {
			lo, hi := runes[j], runes[j+1]
			if lo == hi {
				alts = append(alts, tEq(x, mkInt64(int64(lo))))
			} else {
				alts = append(alts, tAnd(tCmp("<=", mkInt64(int64(lo)), x), tCmp("<=", x, mkInt64(int64(hi)))))
			}
		}
		return tOr(alts...)
	}
	var matched []*Term
	// threads alive before consuming character i: pc -> condition
	cur := map[uint32]*Term{}
	order := []uint32{}
	// seen: the conditions a pc was already visited with in this closure walk (an epsilon
	// cycle comes back with the same condition and stops; a different condition is a
	// different way to get there and is OR-ed in)
	var add func(set map[uint32]*Term, ord *[]uint32, pc uint32, cond *Term, i int, seen map[uint32][]string)
	add = func(set map[uint32]*Term, ord *[]uint32, pc uint32, cond *Term, i int, seen map[uint32][]string) {
		if cond.isConst() && !cond.b {
			return
		}
		for _, k := range seen[pc] {
			if k == cond.key {
				return
			}
		}
		if len(seen[pc]) >= 4 {
			panic(reUnsupported{"regexp closure too deep for the program simulation"})
		}
		seen[pc] = append(seen[pc], cond.key)
		in := &prog.Inst[pc]
		switch in.Op {
		case syntax.InstFail:
		case syntax.InstAlt, syntax.InstAltMatch:
			add(set, ord, in.Out, cond, i, seen)
			add(set, ord, in.Arg, cond, i, seen)
		case syntax.InstCapture, syntax.InstNop:
			add(set, ord, in.Out, cond, i, seen)
		case syntax.InstEmptyWidth:
			add(set, ord, in.Out, tAnd(cond, emptyOK(syntax.EmptyOp(in.Arg), i)), i, seen)
		case syntax.InstMatch:
			matched = append(matched, cond)
		default: // consuming instructions
			if old, ok := set[pc]; ok {
				set[pc] = tOr(old, cond)
			} else {
				set[pc] = cond
				*ord = append(*ord, pc)
			}
		}
	}
	for i := 0; i <= n; i++ {
		// unanchored search: a new attempt starts at every position
		add(cur, &order, uint32(prog.Start), tTrue, i, map[uint32][]string{})
		if i == n {
			break
		}
		next := map[uint32]*Term{}
		var nextOrder []uint32
		for _, pc := range order {
			in := &prog.Inst[pc]
			c := tAnd(cur[pc], matchRune(in, cs[i]))
			add(next, &nextOrder, in.Out, c, i+1, map[uint32][]string{})
		}
		cur, order = next, nextOrder
	}
	return tOr(matched...), nil
}
