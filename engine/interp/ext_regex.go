package interp

// regexp with a symbolic subject: the CONCRETE pattern is parsed by Go's own
// regexp/syntax and translated to an SMT RegLan term; MatchString (an
// unanchored search) becomes (str.in_re subject (re.++ re.all R re.all)) with
// the re.all parts dropped where the pattern is anchored with ^ / $ at its
// outermost level. Anything the translation does not cover (word boundaries,
// anchors in the middle, non-greedy is irrelevant for matching, case folding of
// non-letters) ends the path as unsupported - never a silent approximation.
//
// Assumption shared with every symbolic string (DESIGN 2.3): subjects are
// printable ASCII, so "any character" = re.allchar and classes are cut at 0x7f.

import (
	"fmt"
	"regexp"
	"regexp/syntax"
	"strings"
)

type reUnsupported struct{ msg string }

func smtCharLit(r rune) string {
	if (r >= 'a' && r <= 'z') || (r >= 'A' && r <= 'Z') || (r >= '0' && r <= '9') {
		return "\"" + string(r) + "\""
	}
	return fmt.Sprintf("\"\\u{%x}\"", r)
}

func reLit(s string) *Term { return mkApp("str.to_re", SRe, mkStr(s)) }

func reRaw(s string) *Term { return &Term{op: "rawre", sort: SRe, s: s, key: "R" + s} }

func reConcat(parts []*Term) *Term {
	switch len(parts) {
	case 0:
		return reLit("")
	case 1:
		return parts[0]
	}
	return mkApp("re.++", SRe, parts...)
}

func reUnion(parts []*Term) *Term {
	switch len(parts) {
	case 0:
		return reRaw("re.none")
	case 1:
		return parts[0]
	}
	return mkApp("re.union", SRe, parts...)
}

func reOfSyntax(re *syntax.Regexp) *Term {
	switch re.Op {
	case syntax.OpNoMatch:
		return reRaw("re.none")
	case syntax.OpEmptyMatch:
		return reLit("")
	case syntax.OpLiteral:
		if re.Flags&syntax.FoldCase != 0 {
			var parts []*Term
			for _, r := range re.Rune {
				lo, up := strings.ToLower(string(r)), strings.ToUpper(string(r))
				if lo == up {
					parts = append(parts, reLit(string(r)))
				} else {
					parts = append(parts, mkApp("re.union", SRe, reLit(lo), reLit(up)))
				}
			}
			return reConcat(parts)
		}
		return reLit(string(re.Rune))
	case syntax.OpCharClass:
		var parts []*Term
		for i := 0; i+1 < len(re.Rune); i += 2 {
			lo, hi := re.Rune[i], re.Rune[i+1]
			if lo > 0x7f {
				continue
			}
			if hi > 0x7f {
				hi = 0x7f
			}
			if lo == hi {
				parts = append(parts, reRaw("(str.to_re "+smtCharLit(lo)+")"))
			} else {
				parts = append(parts, reRaw("(re.range "+smtCharLit(lo)+" "+smtCharLit(hi)+")"))
			}
		}
		return reUnion(parts)
	case syntax.OpAnyChar:
		return reRaw("re.allchar")
	case syntax.OpAnyCharNotNL:
		return reRaw("(re.diff re.allchar (str.to_re \"\\u{a}\"))")
	case syntax.OpCapture:
		return reOfSyntax(re.Sub[0])
	case syntax.OpStar:
		return mkApp("re.*", SRe, reOfSyntax(re.Sub[0]))
	case syntax.OpPlus:
		return mkApp("re.+", SRe, reOfSyntax(re.Sub[0]))
	case syntax.OpQuest:
		return mkApp("re.opt", SRe, reOfSyntax(re.Sub[0]))
	case syntax.OpRepeat:
		sub := reOfSyntax(re.Sub[0])
		if re.Max < 0 {
			parts := []*Term{}
			if re.Min > 0 {
				parts = append(parts, mkApp(fmt.Sprintf("(_ re.loop %d %d)", re.Min, re.Min), SRe, sub))
			}
			parts = append(parts, mkApp("re.*", SRe, sub))
			return reConcat(parts)
		}
		return mkApp(fmt.Sprintf("(_ re.loop %d %d)", re.Min, re.Max), SRe, sub)
	case syntax.OpConcat:
		var parts []*Term
		for _, s := range re.Sub {
			parts = append(parts, reOfSyntax(s))
		}
		return reConcat(parts)
	case syntax.OpAlternate:
		var parts []*Term
		for _, s := range re.Sub {
			parts = append(parts, reOfSyntax(s))
		}
		return reUnion(parts)
	}
	panic(reUnsupported{"regexp operator " + re.Op.String() + " with a symbolic subject"})
}

// reSearchTerm returns the RegLan of the set of strings in which pattern is
// found by an unanchored search (regexp.MatchString semantics).
func reSearchTerm(pattern string) (t *Term, err error) {
	defer func() {
		if r := recover(); r != nil {
			if u, ok := r.(reUnsupported); ok {
				err = fmt.Errorf("%s", u.msg)
				return
			}
			panic(r)
		}
	}()
	re, perr := syntax.Parse(pattern, syntax.Perl)
	if perr != nil {
		return nil, perr
	}
	// split alternations at the top level so that each alternative may carry its own anchors
	alts := []*syntax.Regexp{re}
	for re.Op == syntax.OpCapture {
		re = re.Sub[0]
		alts = []*syntax.Regexp{re}
	}
	if re.Op == syntax.OpAlternate {
		alts = re.Sub
	}
	var out []*Term
	for _, a := range alts {
		subs := []*syntax.Regexp{a}
		if a.Op == syntax.OpConcat {
			subs = a.Sub
		}
		begin, end := false, false
		for len(subs) > 0 && subs[0].Op == syntax.OpBeginText {
			begin = true
			subs = subs[1:]
		}
		for len(subs) > 0 && subs[len(subs)-1].Op == syntax.OpEndText {
			end = true
			subs = subs[:len(subs)-1]
		}
		var parts []*Term
		if !begin {
			parts = append(parts, reRaw("re.all"))
		}
		for _, s := range subs {
			parts = append(parts, reOfSyntax(s))
		}
		if !end {
			parts = append(parts, reRaw("re.all"))
		}
		out = append(out, reConcat(parts))
	}
	return reUnion(out), nil
}

// reMatchValue is the model of regexp.MatchString / (*Regexp).MatchString for
// a concrete pattern and a symbolic subject.
func (ex *exec) reMatchValue(pattern string, subject value) value {
	if _, err := regexp.Compile(pattern); err != nil {
		ex.unsupported("regexp: pattern does not compile: " + err.Error())
	}
	rt, err := reSearchTerm(pattern)
	if err != nil {
		ex.unsupported("regexp.MatchString on symbolic subject: " + err.Error())
	}
	ex.res.Stubs["regexp.MatchString(symbolic subject)->RegLan"]++
	t := mkApp("str.in_re", SBool, termOf(subject), rt)
	t.re = pattern
	return boolV(t)
}

// ---------------------------------------------------------------- concretisation fallback

// concretize is the bug-hunting fallback for a call the engine has no symbolic
// model for: every symbolic scalar among the operands is fixed to its value in a
// model of the current path condition. The equality is added to the path
// condition, so the path stays feasible and whatever is found further down is a
// real behaviour of the code; other values of those operands are NOT explored on
// this path. Every use is counted ("concretized: <callee>") and shows up in the
// evidence as reduced coverage, never as a discharged obligation for all values.
func (ex *exec) concretize(v value, what string) value {
	switch v := v.(type) {
	case sym:
		r, env := ex.fullModel()
		if r != Sat {
			ex.unsupported(what + " (no model to concretise operands)")
		}
		mv, err := evalTerm(v.t, env)
		if err != nil {
			ex.unsupported(what + " (operand not evaluable: " + err.Error() + ")")
		}
		var c *Term
		switch mv.Sort {
		case SBool:
			c = mkBool(mv.B)
		case SInt:
			c = mkInt(mv.N)
		case SStr:
			c = mkStr(mv.S)
		default:
			ex.unsupported(what + " (operand sort)")
		}
		ex.assume(tEq(v.t, c))
		ex.eng.noteBound("concretized operand of " + what + " (other values of that operand not explored on the path)")
		return valueOfTerm(c, v.k)
	case []value:
		out := make([]value, len(v))
		for i, x := range v {
			out[i] = ex.concretize(x, what)
		}
		return out
	case iface:
		if containsSym(v.v) {
			return iface{t: v.t, v: ex.concretize(v.v, what)}
		}
	}
	return v
}

func (ex *exec) concretizeArgs(args []value, what string) []value {
	out := make([]value, len(args))
	for i, a := range args {
		out[i] = ex.concretize(a, what)
	}
	return out
}
