package interp

// sync, sync/atomic, time: engine primitives.

import (
	"fmt"
	"go/token"
	"go/types"
	"strings"
	"time"
)

func (e *Engine) initSyncExternals() {
	t := e.extTable
	sc := func(fr *frame) *sched { return fr.i.ex.sched }
	ptr := func(v value) *value {
		p := v.(*value)
		if p == nil {
			panic(runtimeError("invalid memory address or nil pointer dereference"))
		}
		return p
	}

	t["(*sync.Mutex).Lock"] = func(fr *frame, a []value) value { sc(fr).lock(ptr(a[0])); return nil }
	t["(*sync.Mutex).Unlock"] = func(fr *frame, a []value) value { sc(fr).unlock(ptr(a[0])); return nil }
	t["(*sync.Mutex).TryLock"] = func(fr *frame, a []value) value { return sc(fr).tryLock(ptr(a[0])) }
	t["(*sync.RWMutex).Lock"] = func(fr *frame, a []value) value { sc(fr).wlock(ptr(a[0])); return nil }
	t["(*sync.RWMutex).Unlock"] = func(fr *frame, a []value) value { sc(fr).wunlock(ptr(a[0])); return nil }
	t["(*sync.RWMutex).RLock"] = func(fr *frame, a []value) value { sc(fr).rlock(ptr(a[0])); return nil }
	t["(*sync.RWMutex).RUnlock"] = func(fr *frame, a []value) value { sc(fr).runlock(ptr(a[0])); return nil }
	t["(*sync.RWMutex).TryLock"] = func(fr *frame, a []value) value {
		m := sc(fr).rwOf(ptr(a[0]))
		if m.writer || m.readers > 0 {
			return false
		}
		m.writer = true
		return true
	}
	t["(*sync.WaitGroup).Add"] = func(fr *frame, a []value) value { sc(fr).wgAdd(ptr(a[0]), asInt64(a[1])); return nil }
	t["(*sync.WaitGroup).Done"] = func(fr *frame, a []value) value { sc(fr).wgAdd(ptr(a[0]), -1); return nil }
	t["(*sync.WaitGroup).Wait"] = func(fr *frame, a []value) value { sc(fr).wgWait(ptr(a[0])); return nil }
	t["(*sync.Once).Do"] = func(fr *frame, a []value) value {
		s := sc(fr)
		p := ptr(a[0])
		m := s.onces[p]
		if m == nil {
			m = &vmutex{}
			s.onces[p] = m
		}
		s.yieldPoint("Once.Do")
		s.block("Once.Do", func() bool { return !m.locked })
		if m.done {
			return nil
		}
		m.locked = true
		defer func() { m.locked = false; m.done = true }()
		call(fr.i, fr, 0, a[1], nil)
		return nil
	}
	t["(*sync.Pool).Get"] = func(fr *frame, a []value) value {
		p := (*ptr(a[0])).(structure)
		// last field is New func() any
		newFn := p[len(p)-1]
		switch f := newFn.(type) {
		case *closure:
			return call(fr.i, fr, 0, f, nil)
		default:
			if fn, ok := newFn.(interface{ String() string }); ok && fn != nil {
				_ = fn
			}
		}
		return iface{}
	}
	t["(*sync.Pool).Put"] = func(fr *frame, a []value) value { return nil }

	// sync.Map as an ordered map with interface keys
	smap := func(fr *frame, p *value) *omap {
		s := sc(fr)
		m := s.syncMaps[p]
		if m == nil {
			m = makeMap(types.NewInterfaceType(nil, nil), 0).(*omap)
			s.syncMaps[p] = m
		}
		return m
	}
	t["(*sync.Map).Load"] = func(fr *frame, a []value) value {
		sc(fr).yieldPoint("sync.Map.Load")
		v, ok := smap(fr, ptr(a[0])).lookup(fr.i.ex, a[1])
		if !ok {
			return tuple{iface{}, false}
		}
		return tuple{v, true}
	}
	t["(*sync.Map).Store"] = func(fr *frame, a []value) value {
		sc(fr).yieldPoint("sync.Map.Store")
		smap(fr, ptr(a[0])).insert(fr.i.ex, a[1], a[2])
		return nil
	}
	t["(*sync.Map).LoadOrStore"] = func(fr *frame, a []value) value {
		sc(fr).yieldPoint("sync.Map.LoadOrStore")
		m := smap(fr, ptr(a[0]))
		if v, ok := m.lookup(fr.i.ex, a[1]); ok {
			return tuple{v, true}
		}
		m.insert(fr.i.ex, a[1], a[2])
		return tuple{a[2], false}
	}
	t["(*sync.Map).LoadAndDelete"] = func(fr *frame, a []value) value {
		sc(fr).yieldPoint("sync.Map.LoadAndDelete")
		m := smap(fr, ptr(a[0]))
		v, ok := m.lookup(fr.i.ex, a[1])
		if !ok {
			return tuple{iface{}, false}
		}
		m.delete(fr.i.ex, a[1])
		return tuple{v, true}
	}
	t["(*sync.Map).Delete"] = func(fr *frame, a []value) value {
		sc(fr).yieldPoint("sync.Map.Delete")
		smap(fr, ptr(a[0])).delete(fr.i.ex, a[1])
		return nil
	}
	t["(*sync.Map).Range"] = func(fr *frame, a []value) value {
		m := smap(fr, ptr(a[0]))
		for _, en := range append([]*mentry{}, m.entries...) {
			if en == nil {
				continue
			}
			r := call(fr.i, fr, 0, a[1], []value{en.key, en.val})
			if b, ok := r.(bool); ok && !b {
				break
			}
		}
		return nil
	}

	// sync/atomic typed values: struct{_ noCopy; v T} (Bool: v uint32) ; Value: struct{v any}
	e.extPrefix = append(e.extPrefix, prefixExt{"(*sync/atomic.", e.atomicMethod}, prefixExt{"sync/atomic.", e.atomicFunc})

	// time
	t["time.Now"] = func(fr *frame, a []value) value { return fr.i.timeValue(sc(fr).clock) }
	t["time.Since"] = func(fr *frame, a []value) value {
		tv := a[0].(structure)
		ns := (tv[1].(int64)-62135596800)*1e9 + int64(tv[0].(uint64)&(1<<30-1))
		return sc(fr).clock - ns
	}
	t["time.Until"] = func(fr *frame, a []value) value {
		tv := a[0].(structure)
		ns := (tv[1].(int64)-62135596800)*1e9 + int64(tv[0].(uint64)&(1<<30-1))
		return ns - sc(fr).clock
	}
	t["time.Sleep"] = func(fr *frame, a []value) value { sc(fr).sleep(asInt64(a[0])); return nil }
	mkTimer := func(fr *frame, d int64, period int64, fn func()) value {
		s := sc(fr)
		elem := fr.i.namedType("time", "Time")
		var ch *channel
		if fn == nil {
			fr.i.ex.nchan++
			ch = &channel{id: fr.i.ex.nchan, cap: 1, zero: func() value { return zero(elem) }}
		}
		vt := s.newTimer(d, ch, fn, period)
		// *time.Timer / *time.Ticker structure: field 0 is C
		var tn types.Type
		if period > 0 {
			tn = fr.i.namedType("time", "Ticker")
		} else {
			tn = fr.i.namedType("time", "Timer")
		}
		obj := zero(tn).(structure)
		if ch != nil {
			obj[0] = ch
		}
		var cell value = obj
		p := &cell
		s.natives[p] = vt
		return p
	}
	t["time.NewTimer"] = func(fr *frame, a []value) value { return mkTimer(fr, asInt64(a[0]), 0, nil) }
	t["time.NewTicker"] = func(fr *frame, a []value) value {
		d := asInt64(a[0])
		if d <= 0 {
			panic(targetPanic{iface{t: types.Typ[types.String], v: "non-positive interval for NewTicker"}})
		}
		return mkTimer(fr, d, d, nil)
	}
	t["time.After"] = func(fr *frame, a []value) value {
		p := mkTimer(fr, asInt64(a[0]), 0, nil).(*value)
		return (*p).(structure)[0]
	}
	t["time.Tick"] = func(fr *frame, a []value) value {
		p := mkTimer(fr, asInt64(a[0]), asInt64(a[0]), nil).(*value)
		return (*p).(structure)[0]
	}
	t["time.AfterFunc"] = func(fr *frame, a []value) value {
		f := a[1]
		i := fr.i
		s := sc(fr)
		return mkTimer(fr, asInt64(a[0]), 0, func() {
			// run the callback in its own goroutine; created runnable, no yield here
			g := &gor{id: len(s.gs), name: fmt.Sprintf("afterfunc%d", len(s.gs)), wake: make(chan struct{}, 1)}
			s.gs = append(s.gs, g)
			s.hostWG.Add(1)
			go func() {
				defer s.hostWG.Done()
				<-g.wake
				defer func() {
					r := recover()
					g.state = gDone
					if r != nil {
						if ap, ok := r.(abortPath); ok {
							s.abortFrom(g, ap)
							return
						}
						s.abortFrom(g, abortPath{"panic", "goroutine " + g.name + ": " + panicString(r)})
						return
					}
					if s.aborted {
						return
					}
					s.handoff(g)
				}()
				if s.aborted {
					panic(abortPath{"done", ""})
				}
				call(i, nil, 0, f, nil)
			}()
		})
	}
	stop := func(fr *frame, a []value) value {
		s := sc(fr)
		s.yieldPoint("Timer.Stop")
		vt, _ := s.natives[ptr(a[0])].(*vtimer)
		if vt == nil {
			return false
		}
		was := vt.active
		vt.active = false
		return was
	}
	t["(*time.Timer).Stop"] = stop
	t["(*time.Ticker).Stop"] = func(fr *frame, a []value) value { stop(fr, a); return nil }
	t["(*time.Timer).Reset"] = func(fr *frame, a []value) value {
		s := sc(fr)
		vt, _ := s.natives[ptr(a[0])].(*vtimer)
		if vt == nil {
			return false
		}
		was := vt.active
		vt.active = true
		vt.fired = false
		vt.deadline = s.clock + asInt64(a[1])
		return was
	}
	t["(*time.Ticker).Reset"] = func(fr *frame, a []value) value {
		s := sc(fr)
		vt, _ := s.natives[ptr(a[0])].(*vtimer)
		if vt != nil {
			vt.active = true
			vt.period = asInt64(a[1])
			vt.deadline = s.clock + vt.period
		}
		return nil
	}
	t["(time.Duration).String"] = func(fr *frame, a []value) value {
		if isSym(a[0]) {
			return "<duration>"
		}
		return time.Duration(asInt64(a[0])).String()
	}
	t["(time.Time).String"] = func(fr *frame, a []value) value { return "<time>" }
	t["(time.Time).Format"] = func(fr *frame, a []value) value { return "<time>" }
}

// atomicMethod handles (*sync/atomic.T).Op for Int32/Int64/Uint32/Uint64/Bool/Value/Pointer.
func (e *Engine) atomicMethod(name string) externalFn {
	// name like "(*sync/atomic.Int32).Add"
	rest := strings.TrimPrefix(name, "(*sync/atomic.")
	k := strings.Index(rest, ").")
	if k < 0 {
		return nil
	}
	typ, op := rest[:k], rest[k+2:]
	if i := strings.IndexByte(typ, '['); i >= 0 {
		typ = typ[:i]
	}
	field := 1
	if typ == "Value" {
		field = 0
	}
	if typ == "Pointer" {
		field = 2
	}
	cell := func(a []value) *value {
		p := a[0].(*value)
		if p == nil {
			panic(runtimeError("invalid memory address or nil pointer dereference"))
		}
		return &(*p).(structure)[field]
	}
	toStore := func(fr *frame, typ string, v value) value {
		if typ == "Bool" {
			if v.(bool) {
				return uint32(1)
			}
			return uint32(0)
		}
		return v
	}
	switch op {
	case "Load":
		return func(fr *frame, a []value) value {
			fr.i.ex.sched.yieldPoint("atomic.Load")
			v := *cell(a)
			if typ == "Bool" {
				return v.(uint32) != 0
			}
			if typ == "Pointer" {
				if np, ok := v.(*nativeObj); ok {
					return np.v.(value)
				}
				return zero(fr.fn.Signature.Results().At(0).Type())
			}
			return v
		}
	case "Store":
		return func(fr *frame, a []value) value {
			fr.i.ex.sched.yieldPoint("atomic.Store")
			if typ == "Pointer" {
				*cell(a) = &nativeObj{a[1]}
				return nil
			}
			*cell(a) = toStore(fr, typ, a[1])
			return nil
		}
	case "Swap":
		return func(fr *frame, a []value) value {
			fr.i.ex.sched.yieldPoint("atomic.Swap")
			c := cell(a)
			old := *c
			*c = toStore(fr, typ, a[1])
			if typ == "Bool" {
				return old.(uint32) != 0
			}
			return old
		}
	case "Add":
		return func(fr *frame, a []value) value {
			fr.i.ex.sched.yieldPoint("atomic.Add")
			c := cell(a)
			*c = fr.i.ex.binop(tokADD, nil, *c, a[1])
			return *c
		}
	case "CompareAndSwap":
		return func(fr *frame, a []value) value {
			fr.i.ex.sched.yieldPoint("atomic.CAS")
			c := cell(a)
			old := toStore(fr, typ, a[1])
			var eq value
			if typ == "Value" {
				eq = equals(types.NewInterfaceType(nil, nil), *c, old)
			} else {
				eq = equals(nil, *c, old)
			}
			if b, ok := eq.(bool); ok && b {
				*c = toStore(fr, typ, a[2])
				return true
			}
			return false
		}
	}
	return nil
}

// atomicFunc handles sync/atomic.AddInt32 etc. on *value cells.
func (e *Engine) atomicFunc(name string) externalFn {
	op := strings.TrimPrefix(name, "sync/atomic.")
	switch {
	case strings.HasPrefix(op, "Load"):
		return func(fr *frame, a []value) value { fr.i.ex.sched.yieldPoint("atomic.Load"); return *a[0].(*value) }
	case strings.HasPrefix(op, "Store"):
		return func(fr *frame, a []value) value {
			fr.i.ex.sched.yieldPoint("atomic.Store")
			*a[0].(*value) = a[1]
			return nil
		}
	case strings.HasPrefix(op, "Add"):
		return func(fr *frame, a []value) value {
			fr.i.ex.sched.yieldPoint("atomic.Add")
			p := a[0].(*value)
			*p = fr.i.ex.binop(tokADD, nil, *p, a[1])
			return *p
		}
	case strings.HasPrefix(op, "Swap"):
		return func(fr *frame, a []value) value {
			fr.i.ex.sched.yieldPoint("atomic.Swap")
			p := a[0].(*value)
			old := *p
			*p = a[1]
			return old
		}
	case strings.HasPrefix(op, "CompareAndSwap"):
		return func(fr *frame, a []value) value {
			fr.i.ex.sched.yieldPoint("atomic.CAS")
			p := a[0].(*value)
			if b, ok := equals(nil, *p, a[1]).(bool); ok && b {
				*p = a[2]
				return true
			}
			return false
		}
	}
	return nil
}

const tokADD = token.ADD
