package interp

// Engine: loads the program (with overlay), explores all paths of a harness
// function by re-execution, aggregates results.

import (
	"fmt"
	"go/token"
	"go/types"
	"os"
	"sort"
	"strings"
	"sync"
	"time"

	"golang.org/x/tools/go/packages"
	"golang.org/x/tools/go/ssa"
	"golang.org/x/tools/go/ssa/ssautil"
)

type externalFn func(fr *frame, args []value) value

type KnownFinding struct {
	Property  string `json:"property"`
	Harness   string `json:"harness"`
	Label     string `json:"label"`
	Predicate string `json:"predicate"` // SMT-LIB over $name!k input names; "" = any input
	Sched     string `json:"sched,omitempty"`
	Text      string `json:"text"`
	Fixed     string `json:"fixed,omitempty"`
}

type Engine struct {
	Prog              *ssa.Program
	Pkgs              []*packages.Package
	Fset              *token.FileSet
	RepoMod           string // module path of code under test
	InitPkgs          map[string]bool
	InterpPkgPrefixes []string

	// bounds
	MaxStrLen     int
	MaxConcretize int
	MaxDecisions  int
	MaxInstrs     int64
	MaxDepth      int
	MaxPaths      int
	MaxWall       time.Duration // wall-clock budget per harness (0 = none)
	StrictBounds  bool
	SelectNondet  bool
	Workers       int
	SolverName    string
	SolverTimeout int
	Trace         bool

	Known  []KnownFinding
	Params map[string]int

	extTable  map[string]externalFn
	extPrefix []prefixExt

	mu         sync.Mutex
	boundNotes map[string]int
	globInit   map[*ssa.Package]map[*ssa.Global]bool
}

type prefixExt struct {
	prefix string
	fn     func(name string) externalFn
}

func (e *Engine) noteBound(s string) {
	e.mu.Lock()
	if e.boundNotes == nil {
		e.boundNotes = map[string]int{}
	}
	e.boundNotes[s]++
	e.mu.Unlock()
}

// Load loads patterns from dir with overlay files and builds SSA.
func Load(dir string, patterns []string, overlay map[string][]byte, tags string) (*Engine, error) {
	cfg := &packages.Config{
		Mode:    packages.LoadAllSyntax,
		Dir:     dir,
		Overlay: overlay,
		Env:     append(os.Environ(), "GOFLAGS=-mod=mod", "GOPROXY=off", "GOSUMDB=off", "GOTOOLCHAIN=local"),
	}
	if tags != "" {
		cfg.BuildFlags = []string{"-tags=" + tags}
	}
	pkgs, err := packages.Load(cfg, patterns...)
	if err != nil {
		return nil, err
	}
	var errs []string
	packages.Visit(pkgs, nil, func(p *packages.Package) {
		for _, e := range p.Errors {
			errs = append(errs, e.Error())
		}
	})
	if len(errs) > 0 {
		if len(errs) > 20 {
			errs = errs[:20]
		}
		return nil, fmt.Errorf("package load errors:\n%s", strings.Join(errs, "\n"))
	}
	prog, _ := ssautil.AllPackages(pkgs, ssa.InstantiateGenerics)
	prog.Build()
	e := &Engine{Prog: prog, Pkgs: pkgs, Fset: prog.Fset,
		MaxStrLen: 6, MaxConcretize: 16, MaxDecisions: 400, MaxInstrs: 20_000_000, MaxDepth: 400,
		MaxPaths: 200000, Workers: 8, SolverName: "z3", SolverTimeout: 10000,
		InitPkgs: map[string]bool{"errors": true, "io": true, "io/ioutil": true, "context": true, "strconv": true, "github.com/sdcio/schema-server/pkg/utils": true},
	}
	e.initExternals()
	return e, nil
}

func (e *Engine) interpretable(fn *ssa.Function) bool {
	return true
}

func (e *Engine) lookupExternal(fn *ssa.Function, name string) externalFn {
	if ext := e.extTable[name]; ext != nil {
		return ext
	}
	for _, p := range e.extPrefix {
		if strings.HasPrefix(name, p.prefix) {
			if ext := p.fn(name); ext != nil {
				return ext
			}
		}
	}
	return nil
}

// ---------------------------------------------------------------- harness

type Harness struct {
	Pkg       string // import path
	Func      string
	Property  string
	Explore   bool // scheduler exploration mode
	Preempt   int
	MustReach []string
	Labels    []string // if non-empty: only assertions whose label has one of these prefixes are checked
}

type HarnessResult struct {
	Harness            *Harness
	Paths              int
	ByStatus           map[string]int
	Decisions          int
	Instrs             int64
	Asserts            map[string]map[string]int // label -> status -> count
	Violations         []AssertRec
	WallBudgetExceeded bool
	KnownSeen          map[string]AssertRec
	Inconclusive       []string
	Reached            map[string]int
	Funcs              map[string]int
	Stubs              map[string]int
	Samples            []map[string]string
	Solver             SolverStats
	UnknownBr          int
	WallS              float64
	BoundNotes         map[string]int
	PathBudgetExceeded bool
	SampleTraces       []PathSample
}

type PathSample struct {
	Trace    []int
	Inputs   map[string]string
	Observed []ObsRec
	Status   string
}

func (e *Engine) findFunc(pkgPath, name string) *ssa.Function {
	for _, p := range e.Prog.AllPackages() {
		if p.Pkg.Path() == pkgPath {
			if f := p.Func(name); f != nil {
				return f
			}
		}
	}
	return nil
}

// Run explores all paths of harness h.
func (e *Engine) Run(h *Harness) (*HarnessResult, error) {
	fn := e.findFunc(h.Pkg, h.Func)
	if fn == nil {
		return nil, fmt.Errorf("harness %s.%s not found", h.Pkg, h.Func)
	}
	t0 := time.Now()
	hr := &HarnessResult{Harness: h, ByStatus: map[string]int{}, Asserts: map[string]map[string]int{},
		KnownSeen: map[string]AssertRec{}, Reached: map[string]int{}, Funcs: map[string]int{}, Stubs: map[string]int{}}

	var mu sync.Mutex
	cond := sync.NewCond(&mu)
	stack := [][]int{{}}
	active := 0
	started := 0
	stop := false

	worker := func(wi int) {
		solver, err := NewSolver(e.SolverName, e.SolverTimeout)
		if err != nil {
			mu.Lock()
			stop = true
			hr.Inconclusive = append(hr.Inconclusive, "solver start: "+err.Error())
			cond.Broadcast()
			mu.Unlock()
			return
		}
		defer func() {
			mu.Lock()
			hr.Solver.Queries += solver.Stats.Queries
			hr.Solver.Sat += solver.Stats.Sat
			hr.Solver.Unsat += solver.Stats.Unsat
			hr.Solver.Unknown += solver.Stats.Unknown
			hr.Solver.Errors += solver.Stats.Errors
			hr.Solver.TimeS += solver.Stats.TimeS
			mu.Unlock()
			solver.Close()
		}()
		for {
			mu.Lock()
			for len(stack) == 0 && active > 0 && !stop {
				cond.Wait()
			}
			if stop || (len(stack) == 0 && active == 0) {
				cond.Broadcast()
				mu.Unlock()
				return
			}
			if started >= e.MaxPaths {
				hr.PathBudgetExceeded = true
				stop = true
				cond.Broadcast()
				mu.Unlock()
				return
			}
			if e.MaxWall > 0 && time.Since(t0) > e.MaxWall {
				hr.WallBudgetExceeded = true
				stop = true
				cond.Broadcast()
				mu.Unlock()
				return
			}
			var prefix []int
			if wi%4 == 3 && len(stack) > 1 {
				// every fourth worker takes the OLDEST open alternative (a shallow fork, i.e. a
				// different region of the input space) instead of the newest: the set of paths
				// explored is the same, but under a wall-clock budget the regions reached first
				// are spread out instead of all lying next to the first path
				prefix = stack[0]
				stack = stack[1:]
			} else {
				prefix = stack[len(stack)-1]
				stack = stack[:len(stack)-1]
			}
			active++
			started++
			mu.Unlock()

			if solver.dead {
				solver.Close()
				solver, _ = NewSolver(e.SolverName, e.SolverTimeout)
			}
			if e.MaxWall > 0 {
				solver.deadline = t0.Add(e.MaxWall + 30*time.Second)
			}
			res := e.runPath(h, fn, prefix, solver)

			mu.Lock()
			active--
			stack = append(stack, res.NewPrefixes...)
			e.merge(hr, res)
			cond.Broadcast()
			mu.Unlock()
		}
	}
	var wg sync.WaitGroup
	n := e.Workers
	if n < 1 {
		n = 1
	}
	for i := 0; i < n; i++ {
		wg.Add(1)
		go func(wi int) { defer wg.Done(); worker(wi) }(i)
	}
	wg.Wait()
	hr.WallS = time.Since(t0).Seconds()
	e.mu.Lock()
	hr.BoundNotes = e.boundNotes
	e.boundNotes = nil
	e.mu.Unlock()
	return hr, nil
}

func (e *Engine) merge(hr *HarnessResult, res *PathResult) {
	hr.Paths++
	hr.ByStatus[res.Status]++
	hr.Decisions += res.Decisions
	hr.Instrs += res.Instrs
	hr.UnknownBr += res.UnknownBr
	for _, a := range res.Asserts {
		m := hr.Asserts[a.Label]
		if m == nil {
			m = map[string]int{}
			hr.Asserts[a.Label] = m
		}
		m[a.Status]++
		switch a.Status {
		case "violated":
			if len(hr.Violations) < 50 {
				hr.Violations = append(hr.Violations, a)
			}
		case "known":
			if _, ok := hr.KnownSeen[a.Known]; !ok {
				hr.KnownSeen[a.Known] = a
			}
		case "inconclusive":
			if len(hr.Inconclusive) < 50 {
				hr.Inconclusive = append(hr.Inconclusive, "assert "+a.Label+": "+a.Detail)
			}
		}
	}
	for _, r := range res.Reached {
		hr.Reached[r]++
	}
	for k, v := range res.Funcs {
		hr.Funcs[k] += v
	}
	for k, v := range res.Stubs {
		hr.Stubs[k] += v
	}
	switch res.Status {
	case "inconclusive", "bound":
		if len(hr.Inconclusive) < 50 {
			hr.Inconclusive = append(hr.Inconclusive, fmt.Sprintf("path %v: %s: %s", res.Trace, res.Status, firstLine(res.Reason)))
		}
	}
	if len(hr.SampleTraces) < 8 && (res.Status == "ok") && res.Inputs != nil {
		hr.SampleTraces = append(hr.SampleTraces, PathSample{Trace: res.Trace, Inputs: res.Inputs, Observed: res.Observed, Status: res.Status})
	}
}

func firstLine(s string) string {
	if i := strings.IndexByte(s, '\n'); i >= 0 {
		if os.Getenv("GOSYMX_VERBOSE") != "" {
			return s
		}
		return s[:i]
	}
	return s
}

// runPath executes the harness once following prefix.
func (e *Engine) runPath(h *Harness, fn *ssa.Function, prefix []int, solver *Solver) (res *PathResult) {
	res = &PathResult{Funcs: map[string]int{}, Stubs: map[string]int{}}
	ex := &exec{eng: e, h: h, solver: solver, trace: prefix, occ: map[string]int{}, res: res, unwind: map[string]int{}}
	ex.choiceInputs = map[string]string{}
	it := &interpreter{prog: e.Prog, writtenGlobals: map[*ssa.Global]bool{}, globals: map[*ssa.Global]*value{}, ex: ex, eng: e, initDone: map[*ssa.Package]bool{}}
	if e.Trace {
		it.mode |= EnableTracing
	}
	if rt := e.Prog.ImportedPackage("runtime"); rt != nil {
		it.runtimeErrorString = rt.Type("errorString").Object().Type()
	}
	ex.it = it
	ex.sched = newSched(ex)
	ex.sched.explore = h.Explore
	ex.sched.preempt = h.Preempt
	solver.BeginPath()
	defer func() {
		r := recover()
		ex.sched.shutdown()
		status, reason := "ok", ""
		if r != nil {
			switch r := r.(type) {
			case abortPath:
				status, reason = r.status, r.reason
				if status == "done" {
					status = "ok"
				}
			case targetPanic:
				status, reason = "panic", "panic: "+e.renderPanic(ex, r.v)+" at "+it.panicSite
			case runtimeError:
				status, reason = "panic", r.Error()+" at "+it.panicSite
			default:
				status, reason = "inconclusive", fmt.Sprintf("engine error: %v", r)
			}
		}
		if status == "panic" || status == "deadlock" {
			ex.recordCrash(status, reason)
		}
		if status == "ok" && ex.pos < len(ex.trace) {
			status, reason = "inconclusive", "replay divergence: trace longer than path"
		}
		res.Status = status
		if res.Reason == "" || status != "ok" {
			res.Reason = reason
		}
		res.Trace = append([]int{}, ex.taken...)
		res.NewPrefixes = ex.pending
		res.Instrs = ex.instrs
		if status == "ok" && allDischarged(res.Asserts) && e.wantSample() {
			if r, m := ex.model(); r == Sat {
				for k, v := range ex.choiceInputs {
					m[k] = v
				}
				res.Inputs = m
				for _, o := range ex.obsTerms {
					res.Observed = append(res.Observed, ObsRec{o.label, renderValue(o.v, ex.lastEnv)})
				}
			}
		}
		solver.EndPath()
	}()
	call(it, nil, token.NoPos, fn, nil)
	return
}

var sampleCounter struct {
	sync.Mutex
	n int
}

func (e *Engine) wantSample() bool {
	sampleCounter.Lock()
	defer sampleCounter.Unlock()
	sampleCounter.n++
	return sampleCounter.n <= 8 || sampleCounter.n%97 == 0
}

func (e *Engine) renderPanic(ex *exec, v value) string {
	if itf, ok := v.(iface); ok {
		if s, ok := itf.v.(string); ok {
			return s
		}
		if itf.t != nil {
			return fmt.Sprintf("(%s) %s", itf.t, renderValue(itf.v, nil))
		}
	}
	return toString(v)
}

// ---------------------------------------------------------------- globals / init

// hasInitializer reports whether package init code writes to g (directly or
// through a field/index address rooted at it).
func (e *Engine) hasInitializer(g *ssa.Global) bool {
	e.mu.Lock()
	defer e.mu.Unlock()
	if e.globInit == nil {
		e.globInit = map[*ssa.Package]map[*ssa.Global]bool{}
	}
	m, ok := e.globInit[g.Pkg]
	if !ok {
		m = map[*ssa.Global]bool{}
		var root func(v ssa.Value) *ssa.Global
		root = func(v ssa.Value) *ssa.Global {
			switch v := v.(type) {
			case *ssa.Global:
				return v
			case *ssa.FieldAddr:
				return root(v.X)
			case *ssa.IndexAddr:
				return root(v.X)
			}
			return nil
		}
		for _, mem := range g.Pkg.Members {
			fn, ok := mem.(*ssa.Function)
			if !ok || !(fn.Name() == "init" || len(fn.Name()) > 5 && fn.Name()[:5] == "init#") {
				continue
			}
			for _, b := range fn.Blocks {
				for _, in := range b.Instrs {
					if st, ok := in.(*ssa.Store); ok {
						if r := root(st.Addr); r != nil {
							m[r] = true
						}
					}
				}
			}
		}
		e.globInit[g.Pkg] = m
	}
	return m[g]
}

// checkGlobalRead aborts the path when interpreted code reads a global whose
// package initialiser was skipped but would have given it a value.
func (i *interpreter) checkGlobalRead(g *ssa.Global) {
	if g.Pkg == nil || i.shouldInit(g.Pkg) {
		return
	}
	if i.writtenGlobals[g] {
		return
	}
	if i.eng.hasInitializer(g) {
		i.ex.unsupported("read of global " + g.String() + " whose package initialiser is not executed")
	}
}

func (i *interpreter) global(g *ssa.Global) *value {
	if r, ok := i.globals[g]; ok {
		return r
	}
	cell := zero(mustDeref(g.Type()))
	p := &cell
	i.globals[g] = p
	if g.Pkg != nil && !i.initDone[g.Pkg] && i.shouldInit(g.Pkg) && !strings.HasPrefix(g.Name(), "init$") {
		i.runInit(g.Pkg)
	}
	return p
}

func (i *interpreter) shouldInit(p *ssa.Package) bool {
	path := p.Pkg.Path()
	if v, ok := i.eng.InitPkgs[path]; ok {
		return v
	}
	if i.eng.RepoMod != "" && (path == i.eng.RepoMod || strings.HasPrefix(path, i.eng.RepoMod+"/")) {
		return true
	}
	// the XPath machine behind must-statements: plain Go (tables, a generated parser)
	if strings.HasPrefix(path, "github.com/sdcio/yang-parser/") {
		return true
	}
	return false
}

func (i *interpreter) ensureInit(fn *ssa.Function) {
	p := fn.Pkg
	if p == nil {
		if o := fn.Origin(); o != nil {
			p = o.Pkg
		}
	}
	if p == nil || i.initDone[p] {
		return
	}
	if fn.Name() == "init" && fn.Synthetic != "" {
		return
	}
	if i.shouldInit(p) {
		i.runInit(p)
	} else {
		i.initDone[p] = true
	}
}

func (i *interpreter) runInit(p *ssa.Package) {
	if i.initDone[p] {
		return
	}
	i.initDone[p] = true
	if ov := initOverrides[p.Pkg.Path()]; ov != nil {
		ov(i, p)
		return
	}
	initFn := p.Func("init")
	if initFn == nil {
		return
	}
	saved := i.ex.instrs
	call(i, nil, token.NoPos, initFn, nil)
	_ = saved
}

// timeValue builds a time.Time for virtual nanoseconds ns (UTC, no monotonic).
func (i *interpreter) timeValue(ns int64) value {
	sec := ns/1e9 + 62135596800
	nsec := ns % 1e9
	return structure{uint64(nsec), int64(sec), (*value)(nil)}
}

// ---------------------------------------------------------------- native wrappers

type nativeObj struct {
	v any
}

type nativeFunc struct {
	name string
	fn   func(fr *frame, args []value) value
}

func sortedKeys(m map[string]int) []string {
	ks := make([]string, 0, len(m))
	for k := range m {
		ks = append(ks, k)
	}
	sort.Strings(ks)
	return ks
}

var _ = types.Typ

// initOverrides replace package initialisers that cannot be interpreted.
var initOverrides map[string]func(i *interpreter, p *ssa.Package)

func init() {
	initOverrides = map[string]func(i *interpreter, p *ssa.Package){
		"errors": func(i *interpreter, p *ssa.Package) {
			if g, ok := p.Members["ErrUnsupported"].(*ssa.Global); ok {
				*i.global(g) = i.newErrorString("unsupported operation")
			}
		},
		"io": func(i *interpreter, p *ssa.Package) {
			for name, msg := range map[string]string{"EOF": "EOF", "ErrUnexpectedEOF": "unexpected EOF", "ErrShortWrite": "short write",
				"ErrShortBuffer": "short buffer", "ErrNoProgress": "multiple Read calls return no data or error", "ErrClosedPipe": "io: read/write on closed pipe"} {
				if g, ok := p.Members[name].(*ssa.Global); ok {
					*i.global(g) = i.newErrorString(msg)
				}
			}
		},
		"strconv": func(i *interpreter, p *ssa.Package) {
			for name, msg := range map[string]string{"ErrRange": "value out of range", "ErrSyntax": "invalid syntax"} {
				if g, ok := p.Members[name].(*ssa.Global); ok {
					*i.global(g) = i.newErrorString(msg)
				}
			}
		},
	}
}

func allDischarged(as []AssertRec) bool {
	for _, a := range as {
		if a.Status != "discharged" {
			return false
		}
	}
	return true
}
