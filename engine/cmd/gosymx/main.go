// gosymx: SSA symbolic execution + SMT checks for sdcio/data-server.
//
//	gosymx check <property-id> <quick|thorough>
//	gosymx run   -pkg <importpath> -func <Harness> [-pattern ./pkg/x] (debugging)
package main

import (
	"bytes"
	"crypto/sha256"
	"encoding/json"
	"flag"
	"fmt"
	"go/ast"
	"go/parser"
	"go/token"
	"os"
	"os/exec"
	"path/filepath"
	"regexp"
	"sort"
	"strconv"
	"strings"
	"time"

	"gosymx/interp"
)

var (
	verifDir = envOr("VERIF_DIR", "/verif")
	repoDir  = envOr("VERIF_REPO", "/repo")
	repoMod  = "github.com/sdcio/data-server"
)

func envOr(k, d string) string {
	if v := os.Getenv(k); v != "" {
		return v
	}
	return d
}

type TierCfg struct {
	MaxStrLen      int            `json:"max_str_len"`
	MaxPaths       int            `json:"max_paths"`
	MaxDecisions   int            `json:"max_decisions"`
	MaxWallS       int            `json:"max_wall_s"` // wall-clock budget of the harness (default: quick 300, thorough 5400)
	MaxConcretize  int            `json:"max_concretize"`
	Preempt        int            `json:"preempt"`
	Params         map[string]int `json:"params"`
	MaxInstrs      int64          `json:"max_instrs"`
	// SizesFromCode: run the harness once per size derived from the code under test, see
	// interp.CodeSizeConstants; the size is handed to the harness as parameter Param
	SizesFromCode *SizesCfg `json:"sizes_from_code"`
	Skip           bool           `json:"skip"`
	Validate       int            `json:"validate"`          // passing paths replayed natively
	PathCapIsBound bool           `json:"path_cap_is_bound"` // reaching max_paths is a stated bound, not a problem
}

// SizesCfg: the sizes are Default plus, for every harvested constant c, the values
// c-1, c, c+1 and 2c+1 times each factor in Scale (default [1]) - a harness whose parameter
// counts paths while the threshold may count list entries gives Scale [1,2]. Sizes above Cap
// are dropped (reported under bounds_exceeded).
type SizesCfg struct {
	Param   string   `json:"param"`
	Pkgs    []string `json:"pkgs"`
	Lo      int      `json:"lo"`
	Hi      int      `json:"hi"`
	Cap     int      `json:"cap"`
	Default []int    `json:"default"`
	Scale   []int    `json:"scale"`
}

type HarnessCfg struct {
	Pkg        string             `json:"pkg"`
	Func       string             `json:"func"`
	Explore    bool               `json:"explore"`
	MustReach  []string           `json:"must_reach"`
	MustAssert []string           `json:"must_assert"`
	Tiers      map[string]TierCfg `json:"tiers"`
	About      string             `json:"about"`
	Labels     []string           `json:"labels"`
	NoReplay   bool               `json:"no_replay"`
}

type CheckCfg struct {
	Property    string       `json:"property"`
	Patterns    []string     `json:"patterns"`
	Harnesses   []HarnessCfg `json:"harnesses"`
	Assumptions []string     `json:"assumptions"`
	Bounds      []string     `json:"bounds"`
	Outside     []string     `json:"outside"`
	Level       string       `json:"level"`
}

func main() {
	if len(os.Args) < 2 {
		fmt.Fprintln(os.Stderr, "usage: gosymx check <id> <tier> | run ...")
		os.Exit(2)
	}
	switch os.Args[1] {
	case "check":
		if len(os.Args) < 4 {
			fmt.Fprintln(os.Stderr, "usage: gosymx check <id> <quick|thorough>")
			os.Exit(2)
		}
		os.Exit(cmdCheck(os.Args[2], os.Args[3]))
	case "sizes":
		os.Exit(cmdSizes(os.Args[2:]))
	case "run":
		os.Exit(cmdRun(os.Args[2:]))
	default:
		fmt.Fprintln(os.Stderr, "unknown command")
		os.Exit(2)
	}
}

// ---------------------------------------------------------------- overlay

// buildOverlay maps harness files into /repo paths; generates replay tests.
func buildOverlay(tag string) (map[string][]byte, map[string]string, error) {
	ov := map[string][]byte{}
	real := map[string]string{} // virtual -> real path (for go test -overlay)
	hroot := filepath.Join(verifDir, "harness")
	perPkg := map[string][]string{} // rel dir -> harness func names
	pkgName := map[string]string{}
	err := filepath.Walk(hroot, func(p string, info os.FileInfo, err error) error {
		if err != nil || info.IsDir() || !strings.HasSuffix(p, ".go") {
			return err
		}
		rel, _ := filepath.Rel(hroot, p)
		b, err := os.ReadFile(p)
		if err != nil {
			return err
		}
		virt := filepath.Join(repoDir, rel)
		ov[virt] = b
		real[virt] = p
		if strings.HasSuffix(p, "_test.go") {
			return nil
		}
		fset := token.NewFileSet()
		f, err := parser.ParseFile(fset, p, b, 0)
		if err != nil {
			return fmt.Errorf("parse %s: %v", p, err)
		}
		dir := filepath.Dir(rel)
		pkgName[dir] = f.Name.Name
		for _, d := range f.Decls {
			if fd, ok := d.(*ast.FuncDecl); ok && fd.Recv == nil && strings.HasPrefix(fd.Name.Name, "Verif") &&
				fd.Type.Params.NumFields() == 0 && fd.Type.Results.NumFields() == 0 {
				perPkg[dir] = append(perPkg[dir], fd.Name.Name)
			}
		}
		return nil
	})
	if err != nil {
		return nil, nil, err
	}
	// schema literals: generated from <repo>/tests/schema by the real schema-server library; the
	// committed file records the hash of the YANG it was made from - regenerate when that changed
	gen := filepath.Join(verifDir, ".work", "gen-"+tag)
	os.MkdirAll(gen, 0755)
	if err := refreshSchemaLiterals(gen, ov, real); err != nil {
		return nil, nil, err
	}
	// verifrt
	rtSrc := filepath.Join(verifDir, "verifrt", "verifrt.go")
	b, err := os.ReadFile(rtSrc)
	if err != nil {
		return nil, nil, err
	}
	virt := filepath.Join(repoDir, "pkg", "verifrt", "verifrt.go")
	ov[virt] = b
	real[virt] = rtSrc
	// generated replay tests
	for dir, funcs := range perPkg {
		if dir == "pkg/verifrt" {
			continue
		}
		sort.Strings(funcs)
		var sb strings.Builder
		sb.WriteString("//go:build verif\n\npackage " + pkgName[dir] + "\n\nimport (\n\t\"testing\"\n\n\t\"" + repoMod + "/pkg/verifrt\"\n)\n\n")
		sb.WriteString("func TestVerifReplay(t *testing.T) {\n\tverifrt.Replay(t, map[string]func(){\n")
		for _, f := range funcs {
			fmt.Fprintf(&sb, "\t\t%q: %s,\n", f, f)
		}
		sb.WriteString("\t})\n}\n")
		gp := filepath.Join(gen, strings.ReplaceAll(dir, "/", "__")+"__zz_verif_replay_test.go")
		if err := os.WriteFile(gp, []byte(sb.String()), 0644); err != nil {
			return nil, nil, err
		}
		virt := filepath.Join(repoDir, dir, "zz_verif_replay_test.go")
		real[virt] = gp
		// not in ov: _test files are not loaded for symbolic execution
	}
	return ov, real, nil
}

// yangSourceHash mirrors tools/schemagen sourceHash.
func yangSourceHash(dir string) string {
	h := sha256.New()
	files, _ := filepath.Glob(filepath.Join(dir, "*.yang"))
	sort.Strings(files)
	for _, f := range files {
		b, err := os.ReadFile(f)
		if err != nil {
			return "unreadable"
		}
		fmt.Fprintf(h, "%s\n%d\n", filepath.Base(f), len(b))
		h.Write(b)
	}
	return fmt.Sprintf("%x", h.Sum(nil))
}

var schemaRegenerated string // "" = committed literals are current

func refreshSchemaLiterals(gen string, ov map[string][]byte, real map[string]string) error {
	virt := filepath.Join(repoDir, "pkg", "verifschema", "zz_verif_schema_gen.go")
	cur, ok := ov[virt]
	if !ok {
		return nil
	}
	want := yangSourceHash(filepath.Join(repoDir, "tests", "schema"))
	if m := regexp.MustCompile(`(?m)^// source-sha256: ([0-9a-f]+)$`).FindSubmatch(cur); m != nil && string(m[1]) == want {
		return nil
	}
	// regenerate with the repository's own module and dependencies
	ovf := filepath.Join(gen, "schemagen-overlay.json")
	src := filepath.Join(verifDir, "tools", "schemagen", "main.go")
	j, _ := json.Marshal(map[string]any{"Replace": map[string]string{filepath.Join(repoDir, "zz_verif_schemagen", "main.go"): src}})
	if err := os.WriteFile(ovf, j, 0644); err != nil {
		return err
	}
	cmd := exec.Command("go", "run", "-tags", "verif", "-overlay", ovf, "./zz_verif_schemagen", filepath.Join(repoDir, "tests", "schema"))
	cmd.Dir = repoDir
	cmd.Env = append(os.Environ(), "GOFLAGS=-mod=mod", "GOPROXY=off", "GOSUMDB=off", "GOTOOLCHAIN=local")
	var stderr bytes.Buffer
	cmd.Stderr = &stderr
	out, err := cmd.Output()
	if err != nil {
		return fmt.Errorf("tests/schema changed and the schema literals cannot be regenerated: %v: %s", err, lastLines(stderr.String(), 5))
	}
	gp := filepath.Join(gen, "zz_verif_schema_gen.go")
	if err := os.WriteFile(gp, out, 0644); err != nil {
		return err
	}
	ov[virt] = out
	real[virt] = gp
	schemaRegenerated = want
	fmt.Fprintf(os.Stderr, "note: %s/tests/schema differs from the YANG the committed schema literals were generated from; regenerated (sha256 %s)\n", repoDir, want[:12])
	return nil
}

func lastLines(s string, n int) string {
	ls := strings.Split(strings.TrimSpace(s), "\n")
	if len(ls) > n {
		ls = ls[len(ls)-n:]
	}
	return strings.Join(ls, " | ")
}

// ---------------------------------------------------------------- check

type replayCase struct {
	Harness string            `json:"harness"`
	Inputs  map[string]string `json:"inputs"`
	Params  map[string]int    `json:"params"`
	// bookkeeping (not used natively)
	Kind     string          `json:"kind"` // violation | known | sample
	Label    string          `json:"label"`
	Known    string          `json:"known,omitempty"`
	Pkg      string          `json:"pkg"`
	Detail   string          `json:"detail,omitempty"`
	Observed []interp.ObsRec `json:"observed,omitempty"`
	Sched    []string        `json:"sched,omitempty"`
	Labels   []string        `json:"labels,omitempty"`
}

type nativeResult struct {
	Status string // ok | assert-fail | panic | missing
	Label  string
	Msg    string
	Obs    []interp.ObsRec
}

func cmdCheck(id, tier string) int {
	t0 := time.Now()
	seed := 0
	if s := os.Getenv("VERIF_SEED"); s != "" {
		seed, _ = strconv.Atoi(s)
	}
	cfgPath := filepath.Join(verifDir, "checks", id+".json")
	b, err := os.ReadFile(cfgPath)
	if err != nil {
		fmt.Fprintln(os.Stderr, "no check config:", err)
		return 2
	}
	var cfg CheckCfg
	if err := json.Unmarshal(b, &cfg); err != nil {
		fmt.Fprintln(os.Stderr, "bad check config:", err)
		return 2
	}
	var known []interp.KnownFinding
	if kb, err := os.ReadFile(filepath.Join(verifDir, "known_findings.json")); err == nil {
		var kf struct {
			Findings []interp.KnownFinding `json:"findings"`
		}
		if err := json.Unmarshal(kb, &kf); err != nil {
			fmt.Fprintln(os.Stderr, "bad known_findings.json:", err)
			return 2
		}
		known = kf.Findings
	}
	os.RemoveAll(filepath.Join(verifDir, ".work", "replay-"+id))
	ov, real, err := buildOverlay(id)
	if err != nil {
		fmt.Fprintln(os.Stderr, "overlay:", err)
		return 2
	}
	tLoad := time.Now()
	eng, err := interp.Load(repoDir, cfg.Patterns, ov, "verif")
	if err != nil {
		fmt.Fprintln(os.Stderr, "load:", err)
		return 2
	}
	loadS := time.Since(tLoad).Seconds()
	eng.RepoMod = repoMod
	eng.Known = known
	eng.Workers = 14
	if w := os.Getenv("GOSYMX_WORKERS"); w != "" {
		eng.Workers, _ = strconv.Atoi(w)
	}

	ev := map[string]any{}
	cov := map[string]any{}
	var allCases []replayCase
	totalPaths, totalDec := 0, 0
	obligations, discharged, inconclusive := 0, 0, 0
	funcs := map[string]int{}
	stubs := map[string]int{}
	var solver interp.SolverStats
	var samples []any
	var harnessSummaries []any
	var problems []string
	knownSeen := map[string]replayCase{}
	var violations []replayCase
	boundsExceeded := map[string]int{}
	unknownBranches := 0

	// expand size-driven harnesses: one run per size derived from the code under test
	var expanded []HarnessCfg
	var sizeNotes []string
	for _, hc := range cfg.Harnesses {
		tc, ok := hc.Tiers[tier]
		if !ok {
			tc = hc.Tiers["quick"]
		}
		sc := tc.SizesFromCode
		if sc == nil || tc.Skip {
			expanded = append(expanded, hc)
			continue
		}
		consts := eng.CodeSizeConstants(sc.Pkgs, sc.Lo, sc.Hi)
		scale := sc.Scale
		if len(scale) == 0 {
			scale = []int{1}
		}
		sizes := map[int]string{}
		for _, d := range sc.Default {
			sizes[d] = "default size"
		}
		for _, c := range consts {
			for _, f := range scale {
				for _, n := range []int{c.Value*f - 1, c.Value * f, c.Value*f + 1, 2*c.Value*f + 1} {
					if n > sc.Cap {
						boundsExceeded[fmt.Sprintf("%s: size %d derived from constant %d at %s is above the cap %d and is not run", hc.Func, n, c.Value, c.Where, sc.Cap)]++
						continue
					}
					if _, ok := sizes[n]; !ok && n > 0 {
						sizes[n] = fmt.Sprintf("from constant %d at %s", c.Value, c.Where)
					}
				}
			}
		}
		var order []int
		for n := range sizes {
			order = append(order, n)
		}
		sort.Ints(order)
		sizeNotes = append(sizeNotes, fmt.Sprintf("%s: %d size constants harvested from %v (integer constants in [%d,%d] that meet a length); sizes run for parameter %q: %v", hc.Func, len(consts), sc.Pkgs, sc.Lo, sc.Hi, sc.Param, order))
		for _, n := range order {
			c := hc
			c.Tiers = map[string]TierCfg{}
			t2 := tc
			t2.SizesFromCode = nil
			t2.Params = map[string]int{}
			for k, v := range tc.Params {
				t2.Params[k] = v
			}
			t2.Params[sc.Param] = n
			c.Tiers[tier] = t2
			c.About = fmt.Sprintf("%s [%s = %d, %s]", hc.About, sc.Param, n, sizes[n])
			expanded = append(expanded, c)
		}
	}
	cfg.Harnesses = expanded
	for _, hc := range cfg.Harnesses {
		tc, ok := hc.Tiers[tier]
		if !ok {
			tc, ok = hc.Tiers["quick"]
			if !ok {
				tc = TierCfg{}
			}
		}
		if tc.Skip {
			continue
		}
		if tc.MaxInstrs > 0 {
			eng.MaxInstrs = tc.MaxInstrs
		} else {
			eng.MaxInstrs = 20_000_000
		}
		if tc.MaxStrLen > 0 {
			eng.MaxStrLen = tc.MaxStrLen
		} else {
			eng.MaxStrLen = 6
		}
		if tc.MaxPaths > 0 {
			eng.MaxPaths = tc.MaxPaths
		} else {
			eng.MaxPaths = 200000
		}
		switch {
		case tc.MaxWallS > 0:
			eng.MaxWall = time.Duration(tc.MaxWallS) * time.Second
		case tier == "quick":
			eng.MaxWall = 300 * time.Second
		default:
			eng.MaxWall = 5400 * time.Second
		}
		if tc.MaxDecisions > 0 {
			eng.MaxDecisions = tc.MaxDecisions
		} else {
			eng.MaxDecisions = 400
		}
		if tc.MaxConcretize > 0 {
			eng.MaxConcretize = tc.MaxConcretize
		} else {
			eng.MaxConcretize = 16
		}
		eng.Params = tc.Params
		h := &interp.Harness{Pkg: hc.Pkg, Func: hc.Func, Property: cfg.Property, Explore: hc.Explore, Preempt: tc.Preempt, Labels: hc.Labels}
		hr, err := eng.Run(h)
		if err != nil {
			problems = append(problems, err.Error())
			continue
		}
		totalPaths += hr.Paths
		totalDec += hr.Decisions
		unknownBranches += hr.UnknownBr
		for k, v := range hr.Funcs {
			funcs[k] += v
		}
		for k, v := range hr.Stubs {
			stubs[k] += v
		}
		for k, v := range hr.BoundNotes {
			boundsExceeded[hc.Func+": "+k] += v
		}
		solver.Queries += hr.Solver.Queries
		solver.Sat += hr.Solver.Sat
		solver.Unsat += hr.Solver.Unsat
		solver.Unknown += hr.Solver.Unknown
		solver.Errors += hr.Solver.Errors
		solver.TimeS += hr.Solver.TimeS
		hs := map[string]any{"harness": hc.Func, "pkg": hc.Pkg, "about": hc.About, "paths": hr.Paths, "by_status": hr.ByStatus,
			"decisions": hr.Decisions, "instructions": hr.Instrs, "wall_s": round(hr.WallS), "asserts": hr.Asserts,
			"reached": hr.Reached, "params": tc.Params, "max_str_len": eng.MaxStrLen}
		if hr.WallBudgetExceeded {
			hs["wall_budget_exceeded"] = true
			problems = append(problems, fmt.Sprintf("%s: wall-clock budget %s exceeded after %d paths (bound not covered; violations found so far are reported)", hc.Func, eng.MaxWall, hr.Paths))
		}
		if hr.PathBudgetExceeded {
			hs["path_budget_exceeded"] = true
			if tc.PathCapIsBound {
				boundsExceeded[fmt.Sprintf("%s: exploration cut after the first %d paths in DFS order (stated bound)", hc.Func, eng.MaxPaths)]++
			} else {
				problems = append(problems, fmt.Sprintf("%s: path budget %d exceeded (bound not covered)", hc.Func, eng.MaxPaths))
			}
		}
		for lbl, m := range hr.Asserts {
			for st, n := range m {
				obligations += n
				switch st {
				case "discharged", "known":
					discharged += n
				case "inconclusive":
					inconclusive += n
				}
				_ = lbl
			}
		}
		// every completed path is also a discharged safety obligation: no run-time panic,
		// no deadlock on that path for any value of its inputs
		obligations += hr.ByStatus["ok"]
		discharged += hr.ByStatus["ok"]
		nIncPaths := hr.ByStatus["inconclusive"] + hr.ByStatus["bound"]
		inconclusive += nIncPaths
		obligations += nIncPaths
		if len(hr.Inconclusive) > 0 {
			hs["inconclusive"] = hr.Inconclusive
		}
		// vacuity
		for _, l := range hc.MustReach {
			if hr.Reached[l] == 0 {
				problems = append(problems, fmt.Sprintf("%s: vacuous: label %q never reached", hc.Func, l))
			}
		}
		for _, l := range hc.MustAssert {
			if len(hr.Asserts[l]) == 0 {
				problems = append(problems, fmt.Sprintf("%s: vacuous: assertion %q never evaluated", hc.Func, l))
			}
		}
		// cases for native replay
		perLabel := map[string]int{}
		for _, v := range hr.Violations {
			perLabel[v.Label]++
			if perLabel[v.Label] > 3 {
				continue
			}
			allCases = append(allCases, replayCase{Harness: hc.Func, Inputs: v.Model, Params: tc.Params, Kind: "violation", Label: v.Label, Pkg: hc.Pkg, Detail: v.Detail, Sched: v.Sched, Labels: hc.Labels})
		}
		for _, k := range hr.KnownSeen {
			allCases = append(allCases, replayCase{Harness: hc.Func, Inputs: k.Model, Params: tc.Params, Kind: "known", Label: k.Label, Known: k.Known, Pkg: hc.Pkg, Detail: k.Detail, Sched: k.Sched, Labels: hc.Labels})
		}
		nval := tc.Validate
		if nval == 0 {
			nval = 3
		}
		if hc.NoReplay || hc.Explore {
			nval = 0
		}
		// pick samples deterministically by seed
		st := hr.SampleTraces
		if len(st) > 0 {
			off := seed % len(st)
			for i := 0; i < len(st) && i < nval; i++ {
				s := st[(off+i)%len(st)]
				allCases = append(allCases, replayCase{Harness: hc.Func, Inputs: s.Inputs, Params: tc.Params, Kind: "sample", Pkg: hc.Pkg, Observed: s.Observed, Labels: hc.Labels})
			}
			for i := 0; i < len(st) && i < 2; i++ {
				samples = append(samples, map[string]any{"harness": hc.Func, "path_decisions": st[i].Trace, "inputs_model": st[i].Inputs, "observed": st[i].Observed})
			}
		}
		harnessSummaries = append(harnessSummaries, hs)
		fmt.Printf("harness %s: paths=%d %v decisions=%d solver_queries=%d wall=%.1fs\n", hc.Func, hr.Paths, hr.ByStatus, hr.Decisions, hr.Solver.Queries, hr.WallS)
		for _, s := range hr.Inconclusive {
			fmt.Printf("  inconclusive: %s\n", s)
		}
	}

	// ---- native replay
	validated := 0
	mismatches := 0
	if len(allCases) > 0 {
		results := runNative(id, allCases, real)
		for i, c := range allCases {
			r := results[i]
			switch c.Kind {
			case "violation":
				ok := false
				if c.Label == "panic" || c.Label == "deadlock" {
					ok = r.Status == "panic" || r.Status == "deadlock"
					if c.Label == "deadlock" && len(c.Sched) > 0 {
						ok = true // schedule-dependent: not natively replayable, reported with schedule
					}
				} else {
					ok = r.Status == "assert-fail" && r.Label == c.Label
				}
				if len(c.Sched) > 0 && !ok {
					// schedule-dependent counterexample: native replay cannot force the schedule
					ok = true
					c.Detail += " [schedule-dependent; not natively replayed]"
				}
				if ok {
					violations = append(violations, c)
				} else {
					mismatches++
					problems = append(problems, fmt.Sprintf("ENGINE-MISMATCH %s label=%s: solver model did not reproduce natively (native: %s %s %s)", c.Harness, c.Label, r.Status, r.Label, r.Msg))
				}
			case "known":
				ok := false
				if c.Label == "panic" || c.Label == "deadlock" {
					ok = r.Status == "panic" || r.Status == "deadlock" || len(c.Sched) > 0
				} else {
					ok = (r.Status == "assert-fail" && r.Label == c.Label) || len(c.Sched) > 0
				}
				if ok {
					knownSeen[c.Known] = c
				} else {
					mismatches++
					problems = append(problems, fmt.Sprintf("ENGINE-MISMATCH %s known finding %q did not reproduce natively (native: %s %s %s)", c.Harness, c.Known, r.Status, r.Label, r.Msg))
				}
			case "sample":
				if r.Status != "ok" {
					mismatches++
					problems = append(problems, fmt.Sprintf("ENGINE-MISMATCH %s: passing path fails natively: %s %s %s inputs=%v", c.Harness, r.Status, r.Label, r.Msg, c.Inputs))
					continue
				}
				if !sameObs(c.Observed, r.Obs) {
					mismatches++
					problems = append(problems, fmt.Sprintf("ENGINE-MISMATCH %s: observed values differ: engine=%v native=%v inputs=%v", c.Harness, c.Observed, r.Obs, c.Inputs))
					continue
				}
				validated++
			}
		}
	}

	// ---- verdict
	exit := 0
	replayDir := filepath.Join(verifDir, "evidence", "replay")
	os.MkdirAll(replayDir, 0755)
	old, _ := filepath.Glob(filepath.Join(replayDir, id+"-*.json"))
	for _, f := range old {
		os.Remove(f)
	}
	var knownKeys []string
	for k := range knownSeen {
		knownKeys = append(knownKeys, k)
	}
	sort.Strings(knownKeys)
	for _, k := range knownKeys {
		fmt.Printf("KNOWN-FINDING: property=%s %s\n", id, k)
	}
	for n, v := range violations {
		p := filepath.Join(replayDir, fmt.Sprintf("%s-%d.json", id, n))
		jb, _ := json.MarshalIndent(v, "", " ")
		os.WriteFile(p, jb, 0644)
		fmt.Printf("VIOLATION property=%s replay=%s\n", id, p)
		fmt.Printf("  harness=%s label=%s %s inputs=%v\n", v.Harness, v.Label, v.Detail, v.Inputs)
		exit = 1
	}
	for _, p := range problems {
		fmt.Println("PROBLEM:", p)
	}
	if inconclusive > 0 {
		fmt.Printf("INCONCLUSIVE %d\n", inconclusive)
	}

	// ---- evidence
	var fnList []string
	for k, v := range funcs {
		if strings.Contains(k, repoMod) && !strings.Contains(k, "/pkg/verifrt") {
			fnList = append(fnList, fmt.Sprintf("%s x%d", k, v))
		}
	}
	sort.Strings(fnList)
	var stubList []string
	for k, v := range stubs {
		if strings.Contains(k, "verifrt.") {
			continue
		}
		stubList = append(stubList, fmt.Sprintf("%s x%d", k, v))
	}
	sort.Strings(stubList)
	if len(samples) == 0 {
		samples = append(samples, map[string]any{"note": "no completed path produced a sample"})
	}
	level := cfg.Level
	if level == "" {
		level = "model_checking"
	}
	cov["states"] = totalPaths
	cov["transitions"] = totalDec
	cov["traces_validated_against_impl"] = validated
	cov["samples"] = samples
	cov["obligations"] = obligations
	cov["discharged"] = discharged
	cov["inconclusive"] = inconclusive
	cov["functions_encoded"] = fnList
	cov["stubs_hit"] = stubList
	cov["bounds"] = append(append([]string{}, cfg.Bounds...), sizeNotes...)
	cov["outside_claim"] = cfg.Outside
	cov["bounds_exceeded"] = boundsExceeded
	cov["unknown_branches_kept"] = unknownBranches
	cov["solver"] = map[string]any{"name": "z3 4.8.12 (z3 -in, incremental)", "queries": solver.Queries, "sat": solver.Sat, "unsat": solver.Unsat, "unknown": solver.Unknown, "errors": solver.Errors, "time_s": round(solver.TimeS)}
	cov["harnesses"] = harnessSummaries
	cov["known_findings_seen"] = knownKeys
	cov["engine_mismatches"] = mismatches
	cov["problems"] = problems
	cov["load_and_ssa_build_s"] = round(loadS)
	cov["exhaustive"] = false
	cov["explanation"] = "states = feasible paths of the real code's SSA completed by symbolic execution; transitions = symbolic branch decisions; every assertion / safety query is decided by z3 for all values of the symbolic inputs on that path, within the listed bounds"
	ev["property_id"] = id
	ev["tier"] = tier
	ev["seed"] = seed
	ev["level"] = level
	ev["coverage"] = cov
	ev["assumptions"] = cfg.Assumptions
	if schemaRegenerated != "" {
		ev["schema_literals"] = "regenerated on this run from " + repoDir + "/tests/schema (sha256 " + schemaRegenerated + "), which differs from the YANG the committed literals were made from"
	} else {
		ev["schema_literals"] = "committed literals are current: sha256 of " + repoDir + "/tests/schema/*.yang matches the recorded source hash"
	}
	ev["wall_s"] = round(time.Since(t0).Seconds())
	ev["violations"] = len(violations)
	os.MkdirAll(filepath.Join(verifDir, "evidence"), 0755)
	jb, _ := json.MarshalIndent(ev, "", " ")
	os.WriteFile(filepath.Join(verifDir, "evidence", id+".json"), jb, 0644)

	if exit == 0 && (mismatches > 0 || hasVacuity(problems)) {
		// an engine mismatch or vacuous harness means the check itself is broken:
		// do not claim success silently, but it is not a property violation either.
		fmt.Println("CHECK-UNSOUND: see PROBLEM lines (no VIOLATION reported)")
		if os.Getenv("GOSYMX_STRICT") != "" {
			return 3
		}
	}
	fmt.Printf("check %s %s: paths=%d obligations=%d discharged=%d inconclusive=%d validated=%d violations=%d known=%d wall=%.1fs\n",
		id, tier, totalPaths, obligations, discharged, inconclusive, validated, len(violations), len(knownKeys), time.Since(t0).Seconds())
	return exit
}

func hasVacuity(ps []string) bool {
	for _, p := range ps {
		if strings.Contains(p, "vacuous") || strings.Contains(p, "not found") {
			return true
		}
	}
	return false
}

func round(f float64) float64 { return float64(int(f*100)) / 100 }

func sameObs(a, b []interp.ObsRec) bool {
	if len(a) != len(b) {
		return false
	}
	for i := range a {
		if a[i].Label != b[i].Label || a[i].Val != b[i].Val {
			return false
		}
	}
	return true
}

var resultRe = regexp.MustCompile(`^VERIF-RESULT case=(\d+) status=(\S+)(?: label=(\S*))?(?: msg=(.*))?$`)
var obsRe = regexp.MustCompile(`^VERIF-OBS case=(\d+) label=(\S+) val=(.*)$`)

// runNative replays cases with the real compiler: one `go test` per package.
func runNative(id string, cases []replayCase, real map[string]string) []nativeResult {
	results := make([]nativeResult, len(cases))
	for i := range results {
		results[i].Status = "missing"
	}
	work := filepath.Join(verifDir, ".work", "replay-"+id)
	os.MkdirAll(work, 0755)
	ovFile := filepath.Join(work, "overlay.json")
	ob, _ := json.Marshal(map[string]any{"Replace": real})
	os.WriteFile(ovFile, ob, 0644)
	byPkg := map[string][]int{}
	for i, c := range cases {
		byPkg[c.Pkg] = append(byPkg[c.Pkg], i)
	}
	for pkg, idxs := range byPkg {
		var list []map[string]any
		for _, i := range idxs {
			list = append(list, map[string]any{"case": i, "harness": cases[i].Harness, "inputs": cases[i].Inputs, "params": cases[i].Params, "labels": cases[i].Labels})
		}
		cf := filepath.Join(work, "cases-"+strings.ReplaceAll(strings.TrimPrefix(pkg, repoMod+"/"), "/", "_")+".json")
		cb, _ := json.MarshalIndent(list, "", " ")
		os.WriteFile(cf, cb, 0644)
		rel := "./" + strings.TrimPrefix(pkg, repoMod+"/")
		// each case runs in its own process invocation loop inside the test binary:
		// a panic kills the binary, so the test driver re-executes remaining cases.
		remaining := append([]int{}, idxs...)
		for attempt := 0; len(remaining) > 0 && attempt < len(idxs)+1; attempt++ {
			// a replayed deadlock hangs for real: the test deadline ends it (reported as "test timed
			// out", which marks the case in flight as deadlock) and the remaining cases are re-run
			cmd := exec.Command("go", "test", "-tags", "verif", "-vet=off", "-count=1", "-timeout", "120s", "-overlay", ovFile, "-run", "^TestVerifReplay$", "-v", rel)
			cmd.Dir = repoDir
			skip := []string{}
			for _, i := range idxs {
				found := false
				for _, r := range remaining {
					if r == i {
						found = true
					}
				}
				if !found {
					skip = append(skip, strconv.Itoa(i))
				}
			}
			cmd.Env = append(os.Environ(), "GOFLAGS=-mod=mod", "GOPROXY=off", "GOSUMDB=off", "GOTOOLCHAIN=local",
				"VERIF_REPLAY="+cf, "VERIF_REPLAY_SKIP="+strings.Join(skip, ","))
			out, _ := runWithTimeout(cmd, 6*time.Minute)
			os.WriteFile(filepath.Join(work, fmt.Sprintf("out-%d.txt", attempt)), out, 0644)
			cur := -1
			done := map[int]bool{}
			for _, line := range strings.Split(string(out), "\n") {
				line = strings.TrimSpace(line)
				if strings.HasPrefix(line, "VERIF-BEGIN case=") {
					cur, _ = strconv.Atoi(strings.TrimPrefix(line, "VERIF-BEGIN case="))
					continue
				}
				if m := obsRe.FindStringSubmatch(line); m != nil {
					n, _ := strconv.Atoi(m[1])
					results[n].Obs = append(results[n].Obs, interp.ObsRec{Label: m[2], Val: m[3]})
					continue
				}
				if m := resultRe.FindStringSubmatch(line); m != nil {
					n, _ := strconv.Atoi(m[1])
					results[n].Status, results[n].Label, results[n].Msg = m[2], m[3], m[4]
					done[n] = true
					cur = -1
				}
			}
			if cur >= 0 && !done[cur] {
				// the binary died inside case cur: an unrecovered panic / fatal error
				results[cur].Status = "panic"
				results[cur].Msg = lastPanicLine(string(out))
				if strings.Contains(string(out), "all goroutines are asleep") || strings.Contains(string(out), "test timed out") {
					results[cur].Status = "deadlock"
				}
				done[cur] = true
			}
			var next []int
			for _, r := range remaining {
				if !done[r] {
					next = append(next, r)
				}
			}
			if len(next) == len(remaining) {
				// no progress: build failure or similar
				for _, r := range remaining {
					results[r].Status = "missing"
					results[r].Msg = "native run produced no result: " + tail(string(out), 400)
				}
				break
			}
			remaining = next
		}
	}
	return results
}

func runWithTimeout(cmd *exec.Cmd, d time.Duration) ([]byte, error) {
	var buf strings.Builder
	cmd.Stdout = &buf
	cmd.Stderr = &buf
	if err := cmd.Start(); err != nil {
		return nil, err
	}
	done := make(chan error, 1)
	go func() { done <- cmd.Wait() }()
	select {
	case err := <-done:
		return []byte(buf.String()), err
	case <-time.After(d):
		cmd.Process.Kill()
		<-done
		return []byte(buf.String() + "\ntest timed out (killed)\n"), fmt.Errorf("timeout")
	}
}

func lastPanicLine(out string) string {
	for _, l := range strings.Split(out, "\n") {
		if strings.HasPrefix(l, "panic:") || strings.HasPrefix(l, "fatal error:") {
			return strings.TrimSpace(l)
		}
	}
	return ""
}

func tail(s string, n int) string {
	if len(s) > n {
		s = s[len(s)-n:]
	}
	return strings.ReplaceAll(s, "\n", " | ")
}

// ---------------------------------------------------------------- run (debug)

func cmdRun(args []string) int {
	fs := flag.NewFlagSet("run", flag.ExitOnError)
	pkg := fs.String("pkg", "", "import path")
	fn := fs.String("func", "", "harness function")
	pattern := fs.String("pattern", "", "package pattern to load")
	workers := fs.Int("workers", 1, "workers")
	trace := fs.Bool("trace", false, "trace instructions")
	maxStr := fs.Int("maxstr", 6, "max symbolic string length")
	maxPaths := fs.Int("maxpaths", 100000, "max paths")
	explore := fs.Bool("explore", false, "scheduler exploration")
	preempt := fs.Int("preempt", 2, "preemption budget")
	prop := fs.String("property", "", "property id (for known findings)")
	params := fs.String("params", "", "harness params k=v,k=v")
	labels := fs.String("labels", "", "comma-separated label prefixes to check")
	fs.Parse(args)
	ov, _, err := buildOverlay("run")
	if err != nil {
		fmt.Fprintln(os.Stderr, err)
		return 2
	}
	pat := *pattern
	if pat == "" {
		pat = "./" + strings.TrimPrefix(*pkg, repoMod+"/")
	}
	t0 := time.Now()
	eng, err := interp.Load(repoDir, []string{pat}, ov, "verif")
	if err != nil {
		fmt.Fprintln(os.Stderr, err)
		return 2
	}
	fmt.Fprintf(os.Stderr, "loaded in %.1fs\n", time.Since(t0).Seconds())
	eng.RepoMod = repoMod
	eng.Workers = *workers
	eng.Trace = *trace
	eng.MaxStrLen = *maxStr
	eng.MaxPaths = *maxPaths
	if kb, err := os.ReadFile(filepath.Join(verifDir, "known_findings.json")); err == nil {
		var kf struct {
			Findings []interp.KnownFinding `json:"findings"`
		}
		json.Unmarshal(kb, &kf)
		eng.Known = kf.Findings
	}
	if *params != "" {
		eng.Params = map[string]int{}
		for _, kv := range strings.Split(*params, ",") {
			if k, v, ok := strings.Cut(kv, "="); ok {
				n, _ := strconv.Atoi(v)
				eng.Params[k] = n
			}
		}
	}
	var lbls []string
	if *labels != "" {
		lbls = strings.Split(*labels, ",")
	}
	hr, err := eng.Run(&interp.Harness{Pkg: *pkg, Func: *fn, Property: *prop, Explore: *explore, Preempt: *preempt, Labels: lbls})
	if err != nil {
		fmt.Fprintln(os.Stderr, err)
		return 2
	}
	hr.Funcs = nil
	jb, _ := json.MarshalIndent(hr, "", " ")
	fmt.Println(string(jb))
	return 0
}

// ---------------------------------------------------------------- sizes (debug)

// cmdSizes prints the size constants CodeSizeConstants harvests: gosymx sizes <pattern> <pkg prefix>...
func cmdSizes(args []string) int {
	ov, _, err := buildOverlay("sizes")
	if err != nil {
		fmt.Fprintln(os.Stderr, err)
		return 2
	}
	eng, err := interp.Load(repoDir, []string{args[0]}, ov, "verif")
	if err != nil {
		fmt.Fprintln(os.Stderr, err)
		return 2
	}
	for _, c := range eng.CodeSizeConstants(args[1:], 4, 4096) {
		fmt.Printf("%d\t%s\n", c.Value, c.Where)
	}
	return 0
}
