#!/usr/bin/env python3
# usage: mkseedmeta.py <seed id> <property> "<needs to manifest>" ["history note"]
import json,sys,os,re
sid,prop,needs=sys.argv[1:4]
hist=sys.argv[4] if len(sys.argv)>4 else ""
d='/verif/seeded/'+sid
log=open(d+'/verification.log').read().splitlines()
conf={}; checks=[]; det=[]
for l in log:
    m=re.match(r'^(build-with-change|suite-with-change|demo-with-change|demo-without-change): (.*)$',l)
    if m: conf[m.group(1)]=m.group(2)
    if l.startswith('check '): checks.append(l[:600])
    if l.startswith('DETECTED-BY:'): det=l.split(':',1)[1].split()
meta={"seed":sid,"breaks_property":prop,"needs_to_manifest":needs,
 "source":"independent sub-agent given only the property text and a scratch worktree of /repo (nothing from /verif)",
 "confirmed":conf,"checks_run":checks,"detected_by":det,
 "ran":"tools/seedcheck2.sh <dir> %s %s quick ... : scratch worktree of /repo HEAD: git apply, go build ./..., go test ./... (suite), demonstration with / without the change; then the registered check commands' engine (gosymx check <id> quick) against that worktree with the change applied (VERIF_REPO=<worktree>, private copy of /verif), worktree removed afterwards"%(sid,prop)}
if hist: meta["history"]=hist
json.dump(meta,open(d+'/meta.json','w'),indent=1)
print(sid,prop,det)
