#!/bin/bash
# usage: tools/seedcheck.sh <src dir with patch.diff, demo test, demo_path.txt> <seed id> <property> <checks to run...>
# 1. confirms the seeded change in a scratch worktree (builds, suite passes, demo fails with / passes without)
# 2. applies it to /repo, runs the given checks (quick), undoes it
# 3. stores it under /verif/seeded/<seed id>/
set -u
src=$1; id=$2; prop=$3; shift 3; checks="$@"
export GOFLAGS=-mod=mod GOPROXY=off GOSUMDB=off GOTOOLCHAIN=local
wt=/tmp/seedverify-$id
rm -rf $wt; git -C /repo worktree add -q $wt HEAD || exit 2
demo=$(cat $src/demo_path.txt | tr -d '\n')
demofile=$(ls $src/*_test.go | head -1)
res() { echo "$1" | tee -a /tmp/seedverify-$id.log; }
: > /tmp/seedverify-$id.log
(cd $wt && git apply $src/patch.diff) || { res "APPLY-FAILED"; git -C /repo worktree remove --force $wt; exit 2; }
(cd $wt && go build ./... ) >/dev/null 2>&1 && res "build-with-change: ok" || res "build-with-change: FAIL"
suite=$(cd $wt && go test -vet=off -count=1 ./... 2>&1 | grep -E "^(--- FAIL|FAIL|ok)")
if echo "$suite" | grep -q "^FAIL\|^--- FAIL"; then
  # retry once for the known flaky test
  suite=$(cd $wt && go test -vet=off -count=1 ./... 2>&1 | grep -E "^(--- FAIL|FAIL|ok)")
fi
echo "$suite" | grep -q "^FAIL\|^--- FAIL" && res "suite-with-change: FAIL" || res "suite-with-change: pass"
cp $demofile $wt/$demo
pkg=./$(dirname $demo)
(cd $wt && go test -vet=off -count=1 $pkg -run 'Seed|seed' 2>&1 | tail -3 | grep -q "^ok") && res "demo-with-change: pass (UNEXPECTED)" || res "demo-with-change: fail (expected)"
(cd $wt && git apply -R $src/patch.diff)
(cd $wt && go test -vet=off -count=1 $pkg -run 'Seed|seed' 2>&1 | tail -3 | grep -q "^ok") && res "demo-without-change: pass (expected)" || res "demo-without-change: FAIL (UNEXPECTED)"
git -C /repo worktree remove --force $wt
# run checks against the change
git -C /repo apply $src/patch.diff || { res "APPLY-TO-REPO-FAILED"; exit 2; }
detected=""
for c in $checks; do
  out=$(timeout 3600 /verif/check.sh $c quick 2>&1); rc=$?
  line=$(echo "$out" | grep '^check ' | tail -1)
  first=$(echo "$out" | grep -A1 '^VIOLATION' | head -2 | tr '\n' ' ' | cut -c1-400)
  res "check $c rc=$rc :: $line :: $first"
  [ $rc -eq 1 ] && detected="$detected $c"
done
git -C /repo checkout -- .
res "DETECTED-BY:$detected"
mkdir -p /verif/seeded/$id
cp $src/patch.diff /verif/seeded/$id/patch.diff
cp $demofile /verif/seeded/$id/
cp $src/demo_path.txt /verif/seeded/$id/
[ -f $src/notes.md ] && cp $src/notes.md /verif/seeded/$id/notes.md
cp /tmp/seedverify-$id.log /verif/seeded/$id/verification.log
# restore evidence of the unchanged tree
for c in $checks; do git -C /verif checkout -- evidence/$c.json 2>/dev/null; done
rm -f /verif/evidence/replay/*.json
