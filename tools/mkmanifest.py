#!/usr/bin/env python3
"""Regenerates /verif/MANIFEST.json from /verif/checks/*.json and tools/claims.json."""
import json, os, glob
V = '/verif'
props = [json.loads(l) for l in open(f'{V}/properties.jsonl')]
claims = json.load(open(f'{V}/tools/claims.json'))
checks = []
na = []
for p in props:
    pid = p['id']
    c = claims.get(pid)
    if not c or not c.get('claimed') or not os.path.exists(f'{V}/checks/{pid}.json'):
        na.append({"property_id": pid, "reason": (c or {}).get('reason', 'check not built yet; will be claimed once its check runs clean on the unchanged tree')})
        continue
    checks.append({
        "property_id": pid,
        "quick_cmd": f"/verif/check.sh {pid} quick",
        "thorough_cmd": f"/verif/check.sh {pid} thorough",
        "evidence_file": f"/verif/evidence/{pid}.json",
        "replay_cmd_template": "cat {path}  # inputs of the counterexample; /verif/check.sh re-runs it natively via go test -overlay",
        "engine": "gosymx",
        "level_claimed": {"category": "model_checking", "text": c['level_text'], "design_ref": c.get('design_ref', 'DESIGN.md section 4')},
        "level_note": c['level_note'],
        "technique": c.get('technique', "bounded symbolic execution of the real code's go/ssa form + SMT (z3) per path; counterexamples replayed natively"),
    })
m = {
    "version": 1,
    "setup_cmd": "cd /verif/engine && GOFLAGS=-mod=mod GOPROXY=off GOSUMDB=off GOTOOLCHAIN=local go build -o /verif/bin/gosymx ./cmd/gosymx",
    "hooks": {"guard": "verif", "enable": "harness files (//go:build verif) and pkg/verifrt enter the build only through go/packages Overlay (symbolic run) and `go test -tags verif -overlay` (native replay); nothing is committed to /repo",
              "baseline_off_cmd": "cd /repo && GOFLAGS=-mod=mod go test -vet=off -count=1 -timeout 25m ./...", "source_commits": [], "add_only": True},
    "engines": [{"name": "gosymx", "path": "/verif/engine", "serves_properties": [c['property_id'] for c in checks],
                 "kind_free_text": "symbolic interpreter over golang.org/x/tools/go/ssa (fork of go/ssa/interp): scalars are SMT terms (Int with explicit wrap-around, String, Bool), branches fork by re-execution, goroutines run under a cooperative scheduler with virtual time; z3 decides every branch, assertion and run-time-panic condition"}],
    "checks": checks,
    "notes": "See DESIGN.md. Genuine defects repaired in /repo as 'fix:' commits are listed in /verif/known_findings.json.",
    "not_applicable": na,
}
json.dump(m, open(f'{V}/MANIFEST.json', 'w'), indent=1)
print("claimed:", [c['property_id'] for c in checks])
