#!/usr/bin/env python3
"""Cross-solver check of the engine's SMT encoding.

usage: tools/solverdiff.py <check id> [tier] [max scripts] [max queries per script]

Runs `gosymx check <id> <tier>` with GOSYMX_SMTLOG set (in a private copy of /verif, so the
evidence of the registered run is not touched), which makes every solver process of the run
write its complete incremental script - declarations, define-funs, push/pop, asserts,
check-sats, with z3 4.8.12's answers as comments. Each script (cut after the given number of
queries, at a point where the push depth is what it was at the start of a path) is then fed
unchanged to z3-new (5.1.0) and to cvc5 (1.0), and the sequences of answers are compared.
A sat/unsat DISAGREEMENT means the encoding relies on something one solver reads differently
(or a solver bug) - exit 1. unknown / timeout on either side is counted, not a disagreement.
"""
import sys, os, subprocess, glob, shutil, tempfile, re, json
cid = sys.argv[1]; tier = sys.argv[2] if len(sys.argv) > 2 else 'quick'
max_scripts = int(sys.argv[3]) if len(sys.argv) > 3 else 6
max_q = int(sys.argv[4]) if len(sys.argv) > 4 else 400
work = tempfile.mkdtemp(prefix='solverdiff-')
vc = os.path.join(work, 'verif')
subprocess.run(['rsync', '-a', '--exclude', '.git', '--exclude', '.work', '--exclude', 'evidence/replay', '/verif/', vc + '/'], check=True)
env = dict(os.environ, VERIF_DIR=vc, GOSYMX_SMTLOG=os.path.join(work, 'log'), GOSYMX_WORKERS='4',
           GOFLAGS='-mod=mod', GOPROXY='off', GOSUMDB='off', GOTOOLCHAIN='local')
if os.environ.get('VERIF_REPO'): env['VERIF_REPO'] = os.environ['VERIF_REPO']
subprocess.run([vc + '/bin/gosymx', 'check', cid, tier], env=env, stdout=subprocess.DEVNULL, stderr=subprocess.DEVNULL, timeout=3600)
scripts = sorted(glob.glob(os.path.join(work, 'log.*.smt2')), key=os.path.getsize, reverse=True)[:max_scripts]
tot = {'scripts': 0, 'queries': 0}
res = {}
hard = []
def answers(out):
    return [l.strip() for l in out.splitlines() if l.strip() in ('sat', 'unsat', 'unknown', 'timeout')]
for sc in scripts:
    lines = open(sc, errors='replace').read().splitlines()
    # cut after max_q answered queries
    cut, q, rec = [], 0, []
    for l in lines:
        if l.startswith('; => '):
            rec.append(l[5:].strip()); q += 1
            if q >= max_q: break
            continue
        if l.startswith(';'): continue
        cut.append(l)
    text = '\n'.join(cut) + '\n'
    tot['scripts'] += 1; tot['queries'] += len(rec)
    for name, argv in (('z3-new 5.1.0', ['z3-new', '-in', '-t:10000']),
                       ('cvc5 1.0', ['cvc5', '--incremental', '--lang=smt2', '--tlimit-per=10000', '--strings-exp'])):
        pre = '(set-logic ALL)\n' if name.startswith('cvc5') else ''
        try:
            p = subprocess.run(argv, input=pre + text, capture_output=True, text=True, timeout=1800)
            ans = answers(p.stdout)
            errs = p.stdout.count('(error')
        except subprocess.TimeoutExpired:
            ans, errs = [], -1
        r = res.setdefault(name, {'agree': 0, 'other_unknown': 0, 'ref_unknown': 0, 'disagree': 0, 'missing': 0, 'error_lines': 0})
        r['error_lines'] += max(errs, 0)
        for i, a in enumerate(rec):
            if i >= len(ans): r['missing'] += 1; continue
            b = ans[i]
            if a in ('unknown', 'timeout'): r['ref_unknown'] += 1
            elif b in ('unknown', 'timeout'): r['other_unknown'] += 1
            elif a == b: r['agree'] += 1
            else:
                r['disagree'] += 1; hard.append((os.path.basename(sc), i, a, name, b))
out = {'check': cid, 'tier': tier, 'reference': 'z3 4.8.12', 'scripts': tot['scripts'], 'queries': tot['queries'], 'solvers': res, 'disagreements': hard[:20]}
print(json.dumps(out, indent=1))
keep = os.environ.get('SOLVERDIFF_KEEP')
if hard and keep:
    shutil.copytree(work, keep, dirs_exist_ok=True)
shutil.rmtree(work, ignore_errors=True)
sys.exit(1 if hard else 0)
