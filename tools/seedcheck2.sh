#!/bin/bash
# usage: tools/seedcheck2.sh <src dir with patch.diff, demo test, demo_path.txt> <seed id> <property> <tier> <checks to run...>
# Like seedcheck.sh, but the checks run against a scratch worktree that has the
# seeded change applied (VERIF_REPO) with a private copy of /verif (VERIF_DIR), so
# /repo and /verif/evidence are never touched and several seeds can be examined at once.
# 1. confirms the seeded change in the scratch worktree (builds, suite passes, demo fails with / passes without)
# 2. runs the given checks against the worktree with the change applied
# 3. stores everything under /verif/seeded/<seed id>/
set -u
src=$1; id=$2; prop=$3; tier=$4; shift 4; checks="$@"
export GOFLAGS=-mod=mod GOPROXY=off GOSUMDB=off GOTOOLCHAIN=local
wt=/tmp/seedverify-$id
vc=/tmp/seedverif-$id
log=/tmp/seedverify-$id.log
rm -rf $wt $vc; git -C /repo worktree prune; git -C /repo worktree add -q $wt HEAD || exit 2
demo=$(cat $src/demo_path.txt | tr -d '\n')
demofile=$(ls $src/*_test.go | head -1)
res() { echo "$1" | tee -a $log; }
: > $log
(cd $wt && git apply $src/patch.diff) || { res "APPLY-FAILED"; git -C /repo worktree remove --force $wt; exit 2; }
(cd $wt && go build ./... ) >/dev/null 2>&1 && res "build-with-change: ok" || res "build-with-change: FAIL"
suite=$(cd $wt && go test -vet=off -count=1 ./... 2>&1 | grep -E "^(--- FAIL|FAIL|ok)")
if echo "$suite" | grep -q "^FAIL\|^--- FAIL"; then
  suite=$(cd $wt && go test -vet=off -count=1 ./... 2>&1 | grep -E "^(--- FAIL|FAIL|ok)")
fi
echo "$suite" | grep -q "^FAIL\|^--- FAIL" && res "suite-with-change: FAIL" || res "suite-with-change: pass"
cp $demofile $wt/$demo
pkg=./$(dirname $demo)
(cd $wt && go test -vet=off -count=1 $pkg -run 'Seed|seed' 2>&1 | tail -3 | grep -q "^ok") && res "demo-with-change: pass (UNEXPECTED)" || res "demo-with-change: fail (expected)"
(cd $wt && git apply -R $src/patch.diff)
(cd $wt && go test -vet=off -count=1 $pkg -run 'Seed|seed' 2>&1 | tail -3 | grep -q "^ok") && res "demo-without-change: pass (expected)" || res "demo-without-change: FAIL (UNEXPECTED)"
rm -f $wt/$demo
(cd $wt && git apply $src/patch.diff)
# run the checks against the worktree with the change
mkdir -p $vc
rsync -a --exclude .git --exclude .work --exclude evidence/replay /verif/ $vc/
detected=""
for c in $checks; do
  out=$(VERIF_DIR=$vc VERIF_REPO=$wt timeout 7200 $vc/bin/gosymx check $c $tier 2>&1); rc=$?
  line=$(echo "$out" | grep '^check ' | tail -1)
  first=$(echo "$out" | grep -A1 '^VIOLATION' | head -2 | tr '\n' ' ' | cut -c1-400)
  res "check $c $tier rc=$rc :: $line :: $first"
  echo "$out" | grep '^VIOLATION' -A1 | head -40 > /tmp/seedverify-$id.$c.viol
  [ $rc -eq 1 ] && detected="$detected $c"
done
res "DETECTED-BY:$detected"
git -C /repo worktree remove --force $wt
rm -rf $vc
mkdir -p /verif/seeded/$id
cp $src/patch.diff /verif/seeded/$id/patch.diff
cp $demofile /verif/seeded/$id/
cp $src/demo_path.txt /verif/seeded/$id/
[ -f $src/notes.md ] && cp $src/notes.md /verif/seeded/$id/notes.md
cp $log /verif/seeded/$id/verification.log
