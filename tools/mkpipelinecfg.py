#!/usr/bin/env python3
"""Regenerates the harness lists of the pipeline-based checks C01, C02, C05, C09 (scenario matrix)."""
import json
V='/verif/checks/'
P="github.com/sdcio/data-server/pkg/datastore"
SC={0:"2 leaf paths (uint mtu, string description) of one list entry x 2 owners",1:"1 leaf path x 3 owners",2:"1 leaf path in each of 2 list entries with prefix-related keys (lo1/lo10) x 2 owners",3:"1 leaf path x 2 owners",4:"1 enumeration leaf with a YANG default (admin-state) x 2 owners",5:"an explicitly set presence container and a leaf below it x 2 owners"}
def entries(func, labels, reach, quick, thorough, about):
    out=[]
    n=max(len(quick),len(thorough))
    for i in range(n):
        t={}
        t['quick']={"params":quick[i]} if i<len(quick) else {"skip":True}
        t['thorough']={"params":thorough[i]} if i<len(thorough) else {"skip":True}
        out.append({"pkg":P,"func":func,"labels":labels,"must_reach":reach,"about":about if i==0 else "","tiers":t})
    return out
def bounds(quick,thorough):
    f=lambda ps: "; ".join("%s, %d intent(s) per transaction"%(SC[p['scenario']],p.get('intents',1)) for p in ps)
    return ["quick: "+f(quick),"thorough: "+f(thorough),"leaf values: uint 1000..9999, one-character strings over {a,b}, enumeration members; priorities 1..999, pairwise distinct"]
def upd(cid, func, labels, reach, quick, thorough, keep=False):
    c=json.load(open(V+cid+'.json'))
    about=[h for h in c['harnesses'] if h.get('about') and h['func']==func]
    others=[h for h in c['harnesses'] if h['func']!=func] if keep else []
    c['harnesses']=entries(func,labels,reach,quick,thorough,about[0]['about'] if about else "")+others
    c['bounds']=bounds(quick,thorough)
    json.dump(c,open(V+cid+'.json','w'),indent=1)
q=[{"scenario":3},{"scenario":1},{"scenario":4},{"scenario":5},{"scenario":3,"intents":2}]
t=[{"scenario":0},{"scenario":1},{"scenario":2},{"scenario":4},{"scenario":5},{"scenario":1,"intents":2},{"scenario":0,"intents":2}]
upd('C01','VerifPipelineStep',["C01","C02","valid-request"],["state-built","step-done"],q,t,keep=True)
upd('C02','VerifPipelineStep',["C02","valid-request"],["state-built","step-done"],q,t,keep=True)
upd('C05','VerifCancelRestores',["C05","valid-request"],["state-built","ended"],[{"scenario":3},{"scenario":1},{"scenario":4}],[{"scenario":0},{"scenario":1},{"scenario":2},{"scenario":4},{"scenario":5}],keep=True)
upd('C09','VerifReapplyNoop',["C09","valid-request"],["state-built","step-done"],[{"scenario":1},{"scenario":3},{"scenario":4}],[{"scenario":0},{"scenario":1},{"scenario":2},{"scenario":4},{"scenario":5}],keep=True)
print("ok")
