#!/bin/sh
# usage: tools/runall.sh [quick|thorough] [ids...]  - runs every claimed check, prints one summary line each
tier=${1:-quick}; shift
ids="$@"
[ -z "$ids" ] && ids=$(python3 -c "import json;print(' '.join(c['property_id'] for c in json.load(open('/verif/MANIFEST.json'))['checks']))")
for id in $ids; do
  out=$(timeout 3600 /verif/check.sh $id $tier 2>&1); rc=$?
  echo "$id rc=$rc $(echo "$out" | grep '^check ' | tail -1) $(echo "$out" | grep -c '^PROBLEM') problems"
  echo "$out" | grep '^PROBLEM\|^VIOLATION\|CHECK-UNSOUND' | head -5
done
