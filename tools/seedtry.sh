#!/bin/bash
# usage: tools/seedtry.sh <patch.diff> <tag> check <id> [tier]   |   tools/seedtry.sh <patch.diff> <tag> run <gosymx run args...>
# applies the patch in a scratch worktree, runs the engine against it (VERIF_REPO) with a private copy of /verif, removes both.
patch=$1; tag=$2; mode=$3; shift 3
export GOFLAGS=-mod=mod GOPROXY=off GOSUMDB=off GOTOOLCHAIN=local
wt=/tmp/seedtry-$tag; vc=/tmp/seedtryv-$tag
rm -rf $wt $vc; git -C /repo worktree prune
git -C /repo worktree add -q $wt HEAD || exit 2
(cd $wt && git apply $patch) || { echo APPLY-FAILED; git -C /repo worktree remove --force $wt; exit 2; }
mkdir -p $vc; rsync -a --exclude .git --exclude .work --exclude evidence/replay /verif/ $vc/
if [ "$mode" = check ]; then
  VERIF_DIR=$vc VERIF_REPO=$wt timeout 3600 $vc/bin/gosymx check "$@" 2>&1 | grep -E '^check |^VIOLATION|^  harness|^PROBLEM|^INCONCL' | cut -c1-500
else
  VERIF_DIR=$vc VERIF_REPO=$wt timeout 3600 $vc/bin/gosymx run "$@"
fi
git -C /repo worktree remove --force $wt; rm -rf $vc
