#!/usr/bin/env python3
"""Writes one sub-agent prompt per property for a new round of seeded changes.

usage: tools/mkseedprompts.py <out dir> <suffix letter> <property ids...>
For every property: creates a scratch worktree <out>/wt_<id> of /repo HEAD and <out>/prompt_<id>.txt
(property text, the worktree, the ideas already used for that property - from seeded/*/meta.json -
and the deliverables under <out>/out_<id>/). Launch one agent per prompt ("Read the file ... and carry
out the task it describes exactly"), then tools/seedcheck2.sh <out>/out_<id> m<NN><suffix> <id> quick <checks...>
(ALWAYS include the neighbouring properties' checks), tools/mkseedmeta.py, and remove the worktrees
(git -C /repo worktree remove --force <dir>).
"""
import json, glob, os, subprocess, sys
out, suffix, ids = sys.argv[1], sys.argv[2], sys.argv[3:]
os.makedirs(out, exist_ok=True)
props = {json.loads(l)['id']: json.loads(l) for l in open('/verif/properties.jsonl')}
used = {}
for m in sorted(glob.glob('/verif/seeded/*/meta.json')):
    j = json.load(open(m)); used.setdefault(j['breaks_property'], []).append(j['needs_to_manifest'])
for pid in ids:
    p = props[pid]; wt = f"{out}/wt_{pid}"
    subprocess.run(['git', '-C', '/repo', 'worktree', 'add', '-q', wt, 'HEAD'], check=True)
    ideas = "\n".join(f"  - {u}" for u in used.get(pid, []))
    txt = f"""You are helping to evaluate a verification effort for the Go project sdcio/data-server (a YANG-schema-driven config datastore that merges prioritized intents in a tree, validates them, and pushes diffs to devices via gNMI/NETCONF). You have your own scratch git worktree of the repository at {wt} (work ONLY there; never touch /repo or /verif, and do not read anything under /verif).

The project is supposed to satisfy this semantic property:

  {pid} - {p['title']}
  {p['statement']}
  Quantified over: {p['quantifier']['text']}
  Code the property is anchored in: {', '.join(p['anchors']['files'])}

YOUR TASK: produce ONE realistic change (a plausible-looking edit a developer could make: refactoring, "optimisation", a small behaviour tweak, a misplaced statement, an off-by-one, two cooperating sites that each look fine alone) to the non-test Go source of the repository in {wt} that BREAKS this property while
  (a) the repository still compiles (`go build ./...`),
  (b) the existing test suite still passes unchanged (`go test -vet=off -count=1 ./...` in {wt}; do not edit or delete existing tests; TestDatastore_expandUpdateLeafAsKeys/multiple_keys_end is flaky on the unmodified tree, ignore it), and
  (c) the breakage needs something SPECIFIC to manifest - a particular interleaving, a crash or fault at a particular point, a multi-step sequence of operations, an unusual input or boundary value, or two cooperating sites - NOT something ordinary use would expose at once.

These ideas have ALREADY been used for this property in earlier rounds; pick a DIFFERENT function and a DIFFERENT kind of trigger:
{ideas}

Also write a demonstration: one new Go test file named zz_seed_{pid.lower()}{suffix}_test.go (test function names starting with TestSeed) placed in the appropriate package directory of the worktree, which FAILS with your change applied and PASSES without it (on the unmodified source). The demonstration should exercise the real code as far up the public API as practical (other test files in the repo show how to assemble a Datastore / tree / schema client offline: see pkg/utils/testhelper, pkg/datastore/*_test.go, pkg/tree/*_test.go, mocks/). It must run offline.

Environment: no network. Before every go command: `export GOFLAGS=-mod=mod GOPROXY=off GOSUMDB=off GOTOOLCHAIN=local`. Go 1.23.5 is the default `go`.

Deliverables - put these files into the directory {out}/out_{pid}/ (create it):
  - patch.diff : `git diff` of ONLY your change to non-test source (not the demonstration), taken in {wt}; it must apply with `git apply` to a clean checkout of the worktree's HEAD
  - zz_seed_{pid.lower()}{suffix}_test.go : the demonstration test file
  - demo_path.txt : one line, the path of the demonstration relative to the repository root
  - notes.md : short: what the change is, why it breaks the property, exactly what is needed for it to manifest, why the existing tests do not notice

Before finishing, verify yourself in {wt}: with the change: build ok, full suite passes, demonstration fails; with the change reverted (git stash or git apply -R): demonstration passes. Leave the worktree with your change APPLIED and the demo file in place. Report in your final message a 5-line summary (file/function changed, trigger, confirmation results). Do not spend more than about 30 minutes; a simple, solid, well-confirmed change is better than an elaborate unconfirmed one.
"""
    open(f"{out}/prompt_{pid}.txt", "w").write(txt)
    print(f"{out}/prompt_{pid}.txt")
